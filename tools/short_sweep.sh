#!/bin/bash
# usage: short_sweep.sh <seconds per property> <props...> — the thorough tier's generator and budgets, cut to a wall-clock limit per
# property (for a last pass over what changed; not evidence). One line per property.
secs=$1; shift
for p in "$@"; do
  s=$(date +%s)
  ./check $p --tier thorough --secs $secs --evidence /dev/null > short_$p.log 2>&1; rc=$?
  echo "$p rc=$rc secs=$(( $(date +%s) - s )) $(grep -E '^(VIOLATION|KNOWN-FINDING)' short_$p.log | cut -c1-220 | tr '\n' '|')"
  grep -E "^C[0-9]+ (quick|thorough):" short_$p.log
done
