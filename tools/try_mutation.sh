#!/bin/bash
# usage: try_mutation.sh <patch.diff> <property> [extra simcheck args]  — apply to /repo, run quick check, undo.
set -u
patch=$1; prop=$2; shift 2
cd /repo || exit 9
if ! git diff --quiet; then echo "repo dirty"; exit 9; fi
git apply "$patch" || { echo "patch does not apply"; exit 9; }
cd /verif && ./check "$prop" --tier quick "$@"
rc=$?
git -C /repo checkout -- .
echo "try_mutation: exit $rc"
exit $rc
