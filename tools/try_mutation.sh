#!/bin/bash
# usage: try_mutation.sh <patch.diff> <property> [extra simcheck args]
# Applies the patch to a scratch worktree of /repo's HEAD (never to /repo itself), builds the harness against that
# tree into a separate build directory and runs the property's quick check there. Evidence of these runs goes to a
# scratch file, never to /verif/evidence.
set -u
patch=$(readlink -f "$1"); prop=$2; shift 2
tag=${TRY_TAG:-}
wt=/tmp/mut/try_wt$tag
variant=asan; [ "$prop" = C36 ] && variant=tsan
mkdir -p /tmp/mut
if [ ! -d $wt ]; then git -C /repo worktree add -q --detach $wt HEAD || exit 9; fi
git -C $wt checkout -q -- . && git -C $wt checkout -q --detach $(git -C /repo rev-parse HEAD) || exit 9
git -C $wt apply "$patch" || { echo "patch does not apply"; exit 9; }
rm -f /verif/.build/try$tag-$variant/simcheck   # a failed build must not leave an older binary (built against another change) to be run
cd /verif && make -s -j16 REPO=$wt VARIANT=$variant B=.build/try$tag-$variant 2>&1 | grep -E "error|Error" | head
[ -x .build/try$tag-$variant/simcheck ] || { echo "try_mutation: BUILD FAILED"; git -C $wt checkout -q -- .; echo "try_mutation: exit 9"; exit 9; }
./.build/try$tag-$variant/simcheck "$prop" --tier quick --evidence /tmp/mut/try_evidence$tag.json "$@"
rc=$?
git -C $wt checkout -q -- .
echo "try_mutation: exit $rc"
exit $rc
