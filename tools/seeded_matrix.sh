#!/bin/bash
# usage: seeded_matrix.sh [ids...]  — runs each /verif/seeded/<id>/patch.diff through try_mutation.sh (scratch worktree,
# never /repo) with the quick check of the property it breaks, and prints one line per change: detected or not,
# violation keys, seconds. Output is appended to /verif/seeded/matrix.log (the latest line per id counts).
cd /verif
ids=${@:-$(ls -d seeded/*/ | xargs -n1 basename)}
mkdir -p /tmp/mut
for id in $ids; do
  prop=${id:0:3}
  [ -f seeded/$id/patch.diff ] || continue
  s=$(date +%s)
  out=$(tools/try_mutation.sh seeded/$id/patch.diff $prop 2>&1)
  rc=$(echo "$out" | grep -o 'try_mutation: exit [0-9]*' | awk '{print $3}')
  keys=$(echo "$out" | grep -o 'VIOLATION property=[^ ]* replay=[^ ]*' | sed 's/.*replays\///; s/-s[0-9]*-r[0-9]*\.json//' | sort -u | tr '\n' ' ')
  e=$(date +%s)
  echo "$id prop=$prop rc=$rc secs=$((e-s)) keys=[$keys]" | tee -a /verif/seeded/matrix.log
done
