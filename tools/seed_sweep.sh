#!/bin/bash
# usage: seed_sweep.sh <seed>... — runs every claimed property's quick check under other VERIF_SEED values (false-alarm hunt);
# prints one line per (seed, property) that did not end with exit 0, and a summary. Run it from a `vp run` snapshot.
props=$(python3 -c "import json;print(' '.join(c['property_id'] for c in json.load(open('MANIFEST.json'))['checks']))")
bad=0
for seed in "$@"; do
  for p in $props; do
    VERIF_SEED=$seed VERIF_WORKERS=${VERIF_WORKERS:-8} ./check $p --tier quick > sweep_${seed}_$p.log 2>&1; rc=$?
    if [ $rc != 0 ]; then bad=$((bad+1)); echo "seed=$seed $p rc=$rc $(grep -E '^(VIOLATION|HARNESS|OUT-OF-SCOPE|BUILD)' sweep_${seed}_$p.log | cut -c1-300 | tr '\n' '|')"; fi
  done
  echo "seed $seed done"
done
echo "seed sweep finished: $bad non-zero exits"
