#!/usr/bin/env python3
"""Regenerates /verif/MANIFEST.json from the table below. Claimed = has a registered scenario."""
import json, subprocess, sys

NA = {
 "C08": "SHA-256/HMAC are pure functions of (message, split, key); no schedule, clock, fault or second party can change the result — not a simulation target (DESIGN §7).",
 "C09": "ChaCha20 keystream is a pure function of (key, nonce, counter, length) — not a simulation target (DESIGN §7).",
 "C10": "Shamir split/combine/GF(256) are pure functions of (secret, t, n, subset); termination at n=255 is an input fact, not a schedule fact (DESIGN §7).",
 "C16": "Totality/memory-safety of decode/decode_signed over all byte strings is an input-space property of a pure parser; the system-level consequence (remote bytes crash a node) is decided under C35 (DESIGN §7).",
 "C17": "Manifest encode/decode round-trip and refusal of unrepresentable manifests are pure functions of the manifest value (DESIGN §7).",
 "C18": "Totality/UB-freedom of decode_manifest over all strings is pure; the remote-input consequence is decided under C35 (DESIGN §7).",
 "C19": "PoW validators/solvers and leading-zero counters are pure functions of their fields; exact acceptance over all nonces/difficulties is input enumeration, not simulation (DESIGN §7).",
 "C32": "Configuration layering is a pure function of (file, environment, flags) evaluated once at start-up; nothing for a scheduler, clock or fault to act on (DESIGN §7).",
 "C37": "A structured log record is a pure function of (event, fields); the only shared state is a mutex-guarded stream (DESIGN §7).",
 "C38": "parse_update_metadata is a pure recursive-descent parser; the fetch around it (libcurl) is not simulated (DESIGN §7).",
}

# property -> (level category, design ref, level text, level note, technique)
CLAIMS = {
 "C01": ("exploration", "DESIGN §6 C01", "Seeded search over store/overwrite/read/advance/tick/sweep histories on a real Node under a simulated clock, every read compared with a map reference model (exact deadlines, including reads exactly at the deadline). One run in 100 is the swarm variant (2..4 real Nodes replicating over simulated TCP under resets, partitions and restarts; every node is read after every operation). Sampling, not proof.",
         "Trusts the simulated clock seam (link-time interposition of steady/system clock) and the reference model derived from the property text.", "deterministic simulation + reference model"),
}

def main():
    props = [json.loads(l) for l in open('/verif/properties.jsonl')]
    ids = [p['id'] for p in props]
    extra = {}
    try:
        extra = json.load(open('/verif/tools/claims.json'))
    except Exception:
        pass
    claims = dict(CLAIMS)
    for k, v in extra.items():
        claims[k] = tuple(v)
    checks = []
    for pid in ids:
        if pid not in claims:
            continue
        cat, ref, text, note, tech = claims[pid]
        checks.append({
            "property_id": pid,
            "quick_cmd": f"./check {pid} --tier quick",
            "thorough_cmd": f"./check {pid} --tier thorough",
            "evidence_file": f"/verif/evidence/{pid}.json",
            "replay_cmd_template": f"./check {pid} --replay {{path}}",
            "engine": "simcheck",
            "level_claimed": {"category": cat, "text": text, "design_ref": ref},
            "level_note": note,
            "technique": tech,
        })
    na = []
    for pid in ids:
        if pid in claims:
            continue
        reason = NA.get(pid, "check not built yet in this round; planned under deterministic simulation (see DESIGN.md §6)")
        na.append({"property_id": pid, "reason": reason})
    m = {
        "version": 1,
        "setup_cmd": "make -s -j16 VARIANT=asan && make -s -j16 VARIANT=tsan && (./check conformance > .build/conformance.log 2>&1; tail -1 .build/conformance.log; true)",
        "hooks": {
            "guard": "EPHEMERALNET_VERIF",
            "enable": "no source hooks: every seam is link-time interposition in the harness executable (DESIGN §2.3); the guard name is reserved and unused",
            "baseline_off_cmd": "cmake --build /repo/_build -- -k 0 >/dev/null 2>&1; ctest --test-dir /repo/_build -j8 --timeout 900 -E CLIFetchDir",
            "source_commits": [],
            "add_only": True,
        },
        "engines": [{
            "name": "simcheck",
            "path": "/verif/check",
            "serves_properties": [c["property_id"] for c in checks],
            "kind_free_text": "deterministic simulation with fault injection: the repository's real code runs on a fiber scheduler, simulated clock, network, entropy and file seam (simkernel), driven by seeded plans and checked against reference models / trace oracles",
        }],
        "checks": checks,
        "not_applicable": na,
        "notes": "See DESIGN.md (Part II = as built). Violations are reported only after a same-process determinism gate and a fresh-process replay; known_findings.jsonl lists only repaired defects (fixed: entries), no finding is open. setup_cmd also runs the sim-vs-kernel conformance table (23 scenarios; informational, its result is in .build/conformance.log). baseline_off_cmd excludes CLIFetchDir, whose test source does not compile on the pinned tree and is not among the 46 baseline tests.",
    }
    json.dump(m, open('/verif/MANIFEST.json', 'w'), indent=1)
    print(f"claimed {len(checks)}, not_applicable {len(na)}")

if __name__ == '__main__':
    main()
