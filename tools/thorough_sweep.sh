#!/bin/bash
# usage: thorough_sweep.sh [workers] [props...] — runs the thorough tier of every claimed property in turn (in the directory it is
# started from, e.g. a `vp run` snapshot) and prints one line per property. Not evidence: evidence comes from /verif itself.
w=${1:-6}; shift
props=${@:-$(python3 -c "import json;print(' '.join(c['property_id'] for c in json.load(open('MANIFEST.json'))['checks']))")}
for p in $props; do
  s=$(date +%s)
  VERIF_WORKERS=$w ./check $p --tier thorough > thorough_$p.log 2>&1; rc=$?
  echo "$p rc=$rc secs=$(( $(date +%s) - s )) $(grep -E '^(VIOLATION|KNOWN-FINDING|HARNESS|OUT-OF-SCOPE)' thorough_$p.log | cut -c1-200 | tr '\n' '|')"
  grep -E "^C[0-9]+ (quick|thorough):" thorough_$p.log
done
