#!/bin/bash
# usage: mk_agent_wt.sh <tag> [jobs] — scratch worktree of /repo HEAD at /tmp/mut/wt_<tag>, configured and built like /repo/_build,
# plus /tmp/mut/out_<tag>/ for what the agent hands back. Remove with: git -C /repo worktree remove --force /tmp/mut/wt_<tag>
set -e
tag=$1; j=${2:-6}
wt=/tmp/mut/wt_$tag
mkdir -p /tmp/mut/out_$tag
[ -d $wt ] || git -C /repo worktree add -q --detach $wt HEAD
cd $wt
cmake -G Ninja -B _build -DCMAKE_BUILD_TYPE=RelWithDebInfo -DCMAKE_CXX_FLAGS=-Wno-error >/dev/null
cmake --build _build -j$j -- -k 0 >/dev/null 2>&1 || true
ls _build/libephemeralnet_core.a _build/eph >/dev/null && echo "ready $wt"
