#!/usr/bin/env python3
"""usage: agent_prompt.py <property id> <tag> [avoid text] — prints the brief given to a fresh sub-agent that is asked for a
property-breaking change. It contains the property record and nothing about /verif's checks."""
import json,sys
pid,tag=sys.argv[1],sys.argv[2]
avoid=sys.argv[3] if len(sys.argv)>3 else ""
for l in open('/verif/properties.jsonl'):
    p=json.loads(l)
    if p['id']==pid: break
p=dict(p); a=dict(p['anchors']); a.pop('hook_needed',None); p['anchors']=a
p.pop('added_in_round',None); p.pop('source',None)
print(f"""You are helping test a verification effort for the C++20 project ShardianLabs/EphemeralNet (a P2P daemon: TTL-aware Kademlia DHT, hand-rolled crypto, signed message/manifest codecs, PoW-gated handshakes, relay/NAT traversal, `eph` CLI + daemon, `eph-relay-server`).

Your working copy is the git worktree /tmp/mut/wt_{tag} (already configured and built in /tmp/mut/wt_{tag}/_build with CMake+Ninja, RelWithDebInfo, so -DNDEBUG: the tests' assert()s are compiled out). Work ONLY inside /tmp/mut/wt_{tag} and /tmp/mut/out_{tag}. Do NOT read, list or touch /verif or /repo or any other directory under /tmp/mut; do not commit anything.

This semantic property of the system is supposed to hold:

{json.dumps(p,indent=1)}

TASK: make ONE small, realistic source change (the kind of thing a maintainer could plausibly merge: a refactor, an optimisation, a 'simplification', a defensive tweak, an off-by-one, a moved statement) to the files under src/ or include/ of the worktree that BREAKS this property, while
  (a) the project still compiles:  cmake --build /tmp/mut/wt_{tag}/_build -j6
  (b) the existing test suite still passes completely:  ctest --test-dir /tmp/mut/wt_{tag}/_build -j6 --timeout 900 -E CLIFetchDir   (expect '100% tests passed, 0 tests failed out of 46')
  (c) the breakage is NOT exposed by ordinary use at once: it must need something specific to manifest — a particular interleaving of threads/requests, a crash or I/O/network fault at a particular point, a multi-step sequence of operations, an unusual input or configuration value, or two cooperating code sites that each look fine alone. Prefer subtle over blatant. Do not add dead code, comments announcing the bug, or test-only switches.
{('  (d) choose something DIFFERENT from this earlier change to the same property (do not repeat it or a close variant): ' + avoid) if avoid else ''}

Then write a DEMONSTRATION: a small standalone C++ program (or shell script driving the built binaries) that exits 0 on the unmodified tree and exits non-zero (printing what went wrong) with your change. It links against <worktree>/_build/libephemeralnet_core.a (include dir <worktree>/include; add -lcurl -lpthread), or runs <worktree>/_build/eph / eph-relay-server. It must be deterministic enough to give the same verdict on every run (retry internally if it depends on thread timing). tests/test_access.hpp shows how the project's own tests reach private Node state if you need it.

DELIVERABLES in /tmp/mut/out_{tag}/ :
  patch.diff          output of `git -C /tmp/mut/wt_{tag} diff` (source change only; leave the change applied in the worktree too)
  demo.cpp (or demo.sh) the demonstration
  build_and_run.sh    `build_and_run.sh <worktree>` builds the demo against <worktree>/_build and runs it; exit status = demo's verdict (0 pass, non-zero fail)
  meta.json           {{"property": "{pid} — {p['title']}", "summary": "<what the change does and why it breaks the property>", "needs": "<what exactly is needed for it to manifest>", "files": [...], "tests_run": "<ctest summary line with the change>", "demo_unmodified": "<exit + output gist>", "demo_modified": "<exit + output gist>"}}

Verify yourself before finishing: ctest passes with the change; the demo fails with the change; reverse the change (`git diff > /tmp/mut/out_{tag}/patch.diff; git apply -R /tmp/mut/out_{tag}/patch.diff` — NEVER `git stash`: the stash is shared between worktrees), rebuild => the demo passes; then re-apply (`git apply /tmp/mut/out_{tag}/patch.diff`) and rebuild. Keep CPU use moderate (-j6). Report briefly what you changed and the verification results.""")
