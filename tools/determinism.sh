#!/bin/bash
# usage: determinism.sh [runs] [props...] — cross-process determinism: the same runs (VERIF_SEED, property, index) executed by 16 workers
# and by 3 workers (different processes, different neighbours, different order within a worker) must produce identical event-log hashes.
cd "$(dirname "$0")/.."
runs=${1:-400}; shift
props=${@:-$(python3 -c "import json;print(' '.join(c['property_id'] for c in json.load(open('MANIFEST.json'))['checks']))")}
bad=0; total=0
mkdir -p .build/det
for p in $props; do
  ./check $p --tier quick --runs $runs --secs 600 --workers 16 --hash-file .build/det/$p.w16 --evidence .build/det/ev.json >/dev/null 2>&1
  ./check $p --tier quick --runs $runs --secs 600 --workers 3 --hash-file .build/det/$p.w3 --evidence .build/det/ev.json >/dev/null 2>&1
  sort -n .build/det/$p.w16 > .build/det/a; sort -n .build/det/$p.w3 > .build/det/b
  n=$(wc -l < .build/det/a); d=$(diff .build/det/a .build/det/b | grep -c '^[<>]')
  total=$((total+n)); [ "$d" != 0 ] && bad=$((bad+1))
  echo "$p runs=$n differing_lines=$d"
done
echo "determinism: $total runs compared across worker counts, $bad properties with differences"
