#!/bin/bash
# usage: confirm_mutation.sh <Cxx> [suffix]  — independently confirm an agent-made mutation in its scratch worktree:
# builds with the change, runs the pinned 46-test suite, runs the demo with and without the change.
# Writes /verif/seeded/<id>/{patch.diff,demo*,build_and_run.sh,meta.json,confirm.log} on success.
set -u
id=$1; sfx=${2:-}
wt=/tmp/mut/wt_$id$sfx; out=/tmp/mut/out_$id$sfx; dst=/verif/seeded/$id$sfx
log=$out/confirm.log
exec >$log 2>&1
cd $wt || exit 9
echo "== status"; git status --short | head
git diff > $out/patch.check.diff
cmp -s <(grep -v '^index ' $out/patch.diff) <(grep -v '^index ' $out/patch.check.diff) || echo "WARNING: worktree diff differs from patch.diff"
echo "== build with change"
cmake --build _build -j6 -- -k 0 >/dev/null 2>&1
echo "== ctest with change"
ctest --test-dir _build -j6 --timeout 900 -E CLIFetchDir 2>&1 | tail -5 | tee $out/ctest_with.txt
passed=$(grep -c "100% tests passed, 0 tests failed out of 46" $out/ctest_with.txt)
echo "== demo with change"
bash $out/build_and_run.sh $wt; rc_with=$?
echo "demo exit with change: $rc_with"
echo "== revert, rebuild, demo without"
git diff > $out/.current.diff; git apply -R $out/.current.diff
cmake --build _build -j6 -- -k 0 >/dev/null 2>&1
bash $out/build_and_run.sh $wt; rc_without=$?
echo "demo exit without change: $rc_without"
git apply $out/.current.diff
echo "RESULT id=$id tests_ok=$passed demo_with=$rc_with demo_without=$rc_without"
if [ "$passed" = 1 ] && [ $rc_with != 0 ] && [ $rc_without = 0 ]; then
  mkdir -p $dst
  cp $out/patch.diff $out/build_and_run.sh $dst/
  cp $out/demo* $dst/ 2>/dev/null
  python3 - "$out/meta.json" "$dst/meta.json" "$id" "$rc_with" "$rc_without" <<'PY'
import json,sys
src,dstp,pid,rw,rwo=sys.argv[1:]
try: m=json.load(open(src))
except Exception as e: m={"note":"agent meta unreadable: %s"%e}
m["property_id"]=pid[:3]
m["confirmed_by_me"]={"built_in_scratch_worktree":True,"ctest":"100% tests passed, 0 tests failed out of 46 (CLIFetchDir excluded: does not compile on the unmodified tree either)","demo_exit_with_change":int(rw),"demo_exit_without_change":int(rwo)}
json.dump(m,open(dstp,"w"),indent=1)
PY
  echo CONFIRMED
else
  echo NOT-CONFIRMED
fi
