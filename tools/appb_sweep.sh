#!/bin/bash
# usage: appb_sweep.sh <dir with <ID>_<n>.diff patches> [patch names...] — runs every self-made mutation (DESIGN Appendix B) through
# the quick check of its property in a scratch worktree (TRY_TAG=b, so it can run next to seeded_matrix.sh); appends to <dir>/results.txt
dir=$1; shift
cd /verif
files=${@:-$(ls $dir | grep -E '^C[0-9]+_[0-9]+b?\.diff$' | sort)}
for f in $files; do
  prop=${f:0:3}
  s=$(date +%s)
  out=$(TRY_TAG=b tools/try_mutation.sh $dir/$f $prop 2>&1)
  rc=$(echo "$out" | grep -o 'try_mutation: exit [0-9]*' | awk '{print $3}')
  keys=$(echo "$out" | grep -o 'VIOLATION property=[^ ]* replay=[^ ]*' | sed 's/.*replays\///; s/-s[0-9]*-r[0-9]*\.json//' | sort -u | head -4 | tr '\n' ' ')
  echo "$f prop=$prop rc=$rc secs=$(( $(date +%s) - s )) keys=[$keys]" | tee -a $dir/results.txt
done
