// Harness core: plans, scenarios, run context. See DESIGN.md §5.
#pragma once

#include "json.hpp"
#include "../simkernel/sk.hpp"

#include <cstdint>
#include <functional>
#include <map>
#include <set>
#include <string>
#include <vector>

namespace hz {

using hj::Json;

// One driver operation (faults are operations too). Generic so that plans serialise,
// hash and shrink uniformly; each scenario interprets k / a[] / s.
struct Op {
    std::string k;
    std::vector<std::int64_t> a;
    std::string s;
    std::int64_t at(std::size_t i, std::int64_t def = 0) const { return i < a.size() ? a[i] : def; }
};

struct Plan {
    std::map<std::string, std::int64_t> knobs;  // run configuration (swarm style)
    std::vector<Op> ops;
    std::int64_t knob(const std::string& k, std::int64_t def = 0) const {
        auto it = knobs.find(k);
        return it == knobs.end() ? def : it->second;
    }
    Json to_json() const;
    static Plan from_json(const Json& j);
    std::uint64_t hash() const;
    std::string brief() const;  // one-line printable form
};

struct Violation {
    std::string key;  // stable signature: identifies the class + call site/history shape
    std::string msg;  // human readable, with concrete values
};

struct Ctx {
    const Plan* plan = nullptr;
    std::vector<Violation> violations;
    std::map<std::string, std::uint64_t> probes;  // "rare condition was hit" counters
    std::map<std::string, std::uint64_t> faults;  // fault kinds that actually fired
    std::set<std::uint64_t> states;               // abstract states reached (property specific)
    bool nontrivial = false;                      // a fault fired or a boundary probe hit
    std::uint64_t ops_done = 0;
    bool replaying = false;

    void violate(const std::string& key, const std::string& msg) {
        for (auto& v : violations) if (v.key == key) return;  // one per key per run
        violations.push_back({key, msg});
        sk::trace("VIOLATION " + key + ": " + msg);
    }
    void probe(const std::string& name, std::uint64_t n = 1) { probes[name] += n; }
    void boundary(const std::string& name) { probes[name] += 1; nontrivial = true; }
    void fault(const std::string& name, std::uint64_t n = 1) { faults[name] += n; nontrivial = true; }
    void state(std::uint64_t h) { if (states.size() < 4096) states.insert(h); }
};

enum class Tier { Quick, Thorough };

struct Scenario {
    std::string id;        // property id, e.g. "C01"
    std::string world;     // W1..W4
    std::string level;     // exploration | fault_enumeration
    std::string technique; // words for evidence
    std::vector<std::string> real_components, stub_components, assumptions;
    std::string rule;      // how cases are generated and what makes one non-trivial
    // generation: a plan from a PRNG (must not touch global state)
    std::function<Plan(sk::Rng&, Tier)> gen;
    // execution: runs as the driver fiber inside sk::run
    std::function<void(const Plan&, Ctx&)> exec;
    // kernel knobs derived from the plan (latency, buffers, preemption...)
    std::function<sk::Knobs(const Plan&)> kernel_knobs;
    // budgets
    std::uint64_t quick_runs = 2000, thorough_runs = 50000;
    double quick_secs = 60, thorough_secs = 900;
    // whether a sanitizer/crash death of a worker is a violation of THIS property
    bool crash_is_violation = false;
    // optional: enumerated (non-random) plans prepended to the random ones (fault enumeration)
    std::function<std::vector<Plan>(Tier)> enumerate;
};

void register_scenario(Scenario s);
const std::vector<Scenario>& scenarios();

struct Registrar {
    explicit Registrar(Scenario (*make)()) { register_scenario(make()); }
};

// small helpers shared by worlds
std::string hex(const void* p, std::size_t n);
std::string fmt(const char* f, ...) __attribute__((format(printf, 1, 2)));

}  // namespace hz
