// simcheck: seeded search over plans and schedules for one property, with determinism
// gate, minimisation, fresh-process replay, known-findings handling and evidence output.
#include "harness.hpp"

#include <errno.h>
#include <dirent.h>
#include <fcntl.h>
#include <poll.h>
#include <signal.h>
#include <spawn.h>
#include <stdarg.h>
#include <stdio.h>
#include <stdlib.h>
#include <string.h>
#include <sys/stat.h>
#include <sys/wait.h>
#include <time.h>
#include <unistd.h>

#include <algorithm>
#include <fstream>
#include <sstream>

extern char** environ;

namespace hz {

// ------------------------------------------------------------------ helpers
std::string hex(const void* p, std::size_t n) {
    static const char* d = "0123456789abcdef";
    std::string s;
    const auto* b = static_cast<const unsigned char*>(p);
    for (std::size_t i = 0; i < n; ++i) { s += d[b[i] >> 4]; s += d[b[i] & 15]; }
    return s;
}
std::string fmt(const char* f, ...) {
    char buf[2048];
    va_list ap;
    va_start(ap, f);
    vsnprintf(buf, sizeof buf, f, ap);
    va_end(ap);
    return buf;
}

Json Plan::to_json() const {
    Json j = Json::object();
    Json k = Json::object();
    for (auto& [n, v] : knobs) k[n] = Json(static_cast<long long>(v));
    j["knobs"] = k;
    Json ops_j = Json::array();
    for (auto& op : ops) {
        Json o = Json::object();
        o["k"] = op.k;
        Json a = Json::array();
        for (auto v : op.a) a.push(Json(static_cast<long long>(v)));
        o["a"] = a;
        if (!op.s.empty()) o["s"] = op.s;
        ops_j.push(o);
    }
    j["ops"] = ops_j;
    return j;
}
Plan Plan::from_json(const Json& j) {
    Plan p;
    if (const Json* k = j.find("knobs")) for (auto& kv : k->o) p.knobs[kv.first] = kv.second.t == Json::Int ? kv.second.i : static_cast<std::int64_t>(kv.second.d);
    if (const Json* o = j.find("ops")) for (auto& e : o->a) {
        Op op;
        op.k = e.str("k");
        if (const Json* a = e.find("a")) for (auto& v : a->a) op.a.push_back(v.t == Json::Int ? v.i : static_cast<std::int64_t>(v.d));
        op.s = e.str("s");
        p.ops.push_back(std::move(op));
    }
    return p;
}
std::uint64_t Plan::hash() const {
    std::uint64_t h = 0x9e3779b97f4a7c15ULL;
    for (auto& [n, v] : knobs) h = sk::mix64(h, sk::mix64(std::hash<std::string>{}(n), static_cast<std::uint64_t>(v)));
    for (auto& op : ops) {
        h = sk::mix64(h, std::hash<std::string>{}(op.k));
        for (auto v : op.a) h = sk::mix64(h, static_cast<std::uint64_t>(v));
        h = sk::mix64(h, std::hash<std::string>{}(op.s));
    }
    return h;
}
std::string Plan::brief() const {
    std::string s;
    for (auto& op : ops) {
        if (!s.empty()) s += "; ";
        s += op.k;
        if (!op.a.empty()) {
            s += "(";
            for (std::size_t i = 0; i < op.a.size(); ++i) { if (i) s += ","; s += std::to_string(op.a[i]); }
            s += ")";
        }
        if (!op.s.empty()) s += "'" + op.s.substr(0, 24) + "'";
    }
    return s;
}

static std::vector<Scenario>& reg() { static std::vector<Scenario> v; return v; }
void register_scenario(Scenario s) { reg().push_back(std::move(s)); }
const std::vector<Scenario>& scenarios() { return reg(); }

}  // namespace hz

using namespace hz;

// ------------------------------------------------------------------ globals / options
static std::string g_verif_dir = "/verif";
static double real_now() {
    struct timespec ts;
    clock_gettime(CLOCK_MONOTONIC, &ts);
    return static_cast<double>(ts.tv_sec) + ts.tv_nsec / 1e9;
}

struct Outcome {
    std::vector<Violation> violations;
    std::map<std::string, std::uint64_t> probes, faults;
    std::set<std::uint64_t> states;
    bool nontrivial = false;
    sk::RunStats st;
    std::vector<std::string> trace;
};

// ------------------------------------------------------------------ ThreadSanitizer reports (tsan variant only)
extern "C" void* __tsan_get_current_fiber(void) __attribute__((weak));
static std::string g_tsan_log_path;   // set by the worker: <log base>.tsan.<pid>
static std::size_t g_tsan_log_off = 0;

// innermost frame of one stack that lies in the repository, as "File.cpp:function"
static std::string repo_frame(const std::string& stack) {
    std::istringstream in(stack);
    std::string line;
    while (std::getline(in, line)) {
        if (line.find("    #") != 0) continue;
        // frames of the C++ library and of sanitizer interceptors are skipped; if the first frame below them belongs to the
        // harness (its output capture, scripted peers, kernel) the access is not the repository's
        if (line.find(" /verif/") != std::string::npos || line.find("sk::") != std::string::npos || line.find("wl::") != std::string::npos || line.find("hz::") != std::string::npos || line.find("verif_w4::") != std::string::npos) return "";
        static const std::string src_dir = std::string(REPO_ROOT) + "/src/", inc_dir = std::string(REPO_ROOT) + "/include/";
        const std::size_t at = line.find(src_dir) != std::string::npos ? line.find(src_dir) : line.find(inc_dir);
        if (at == std::string::npos) continue;
        std::string file = line.substr(at, line.find_first_of(": ", at) - at);
        const std::size_t slash = file.rfind('/');
        if (slash != std::string::npos) file = file.substr(slash + 1);
        std::string fn = line.substr(line.find(' ', 4) + 1, at - line.find(' ', 4) - 2);
        const std::size_t paren = fn.find('(');
        if (paren != std::string::npos && paren > 0) fn = fn.substr(0, paren);
        const std::size_t scope = fn.rfind("::");
        if (scope != std::string::npos && scope + 2 < fn.size()) fn = fn.substr(scope + 2);
        for (auto& ch : fn) if (ch == ' ' || ch == '<' || ch == '>' || ch == ',') ch = '_';
        return file + ":" + fn;
    }
    return "";
}

static void collect_tsan_reports(const Scenario& sc, std::vector<Violation>& violations, std::map<std::string, std::uint64_t>& probes) {
    if (!__tsan_get_current_fiber) return;
    // the sanitizer runtimes share the log_path flag; whichever *_OPTIONS variable is parsed last names the file
    if (g_tsan_log_path.empty()) g_tsan_log_path = g_verif_dir + "/.build/logs/" + sc.id + ".tsan." + std::to_string(getpid());
    std::ifstream in(g_tsan_log_path, std::ios::binary);
    if (!in) {
        const std::string alt = g_verif_dir + "/.build/logs/" + sc.id + ".ubsan." + std::to_string(getpid());
        in.open(alt, std::ios::binary);
        if (!in) return;
        g_tsan_log_path = alt;
    }
    in.seekg(0, std::ios::end);
    const std::size_t size = static_cast<std::size_t>(in.tellg());
    if (size <= g_tsan_log_off) return;
    std::string text(size - g_tsan_log_off, '\0');
    in.seekg(static_cast<std::streamoff>(g_tsan_log_off));
    in.read(text.data(), static_cast<std::streamsize>(text.size()));
    g_tsan_log_off = size;
    std::set<std::string> seen;
    std::size_t pos = 0;
    while ((pos = text.find("WARNING: ThreadSanitizer: ", pos)) != std::string::npos) {
        std::size_t end = text.find("WARNING: ThreadSanitizer: ", pos + 10);
        if (end == std::string::npos) end = text.size();
        const std::string rep = text.substr(pos, end - pos);
        pos = end;
        const std::string kind = rep.substr(26, rep.find(" (pid", 26) - 26);
        if (kind != "data race") { ++probes["tsan_other_report_" + kind.substr(0, 30)]; continue; }
        if (rep.find("Location is TLS") != std::string::npos || rep.find("thread-local") != std::string::npos) { ++probes["tsan_report_on_thread_local_ignored"]; continue; }  // fibers share the OS thread's TLS: artefact of the simulation
        // the two access stacks: from "  <Access> of size" to the next blank line
        std::vector<std::string> stacks;
        std::size_t p2 = 0;
        while (stacks.size() < 2) {
            const std::size_t a = rep.find(" of size ", p2);
            if (a == std::string::npos) break;
            const std::size_t ls = rep.rfind('\n', a);
            const std::size_t le = rep.find("\n\n", a);
            stacks.push_back(rep.substr(ls == std::string::npos ? 0 : ls + 1, (le == std::string::npos ? rep.size() : le) - (ls == std::string::npos ? 0 : ls + 1)));
            p2 = le == std::string::npos ? rep.size() : le;
        }
        if (stacks.size() < 2) { ++probes["tsan_report_unparsed"]; continue; }
        std::string f1 = repo_frame(stacks[0]), f2 = repo_frame(stacks[1]);
        if (f1.empty() || f2.empty()) { ++probes["tsan_report_without_two_repository_stacks"]; continue; }
        if (f2 < f1) std::swap(f1, f2);
        const std::string key = sc.id + ".race." + f1 + "~" + f2;
        if (!seen.insert(key).second) continue;
        std::string first_lines = rep.substr(0, 1800);
        violations.push_back({key, "ThreadSanitizer: unsynchronised conflicting accesses: " + f1 + " / " + f2 + " | " + first_lines});
    }
}

static Outcome execute(const Scenario& sc, const Plan& plan, std::uint64_t sched_seed, bool trace) {
    Ctx ctx;
    ctx.plan = &plan;
    ctx.replaying = trace;
    sk::Knobs kn = sc.kernel_knobs ? sc.kernel_knobs(plan) : sk::Knobs{};
    kn.trace = trace;
    Outcome out;
    std::vector<std::string> tail;
    out.st = sk::run(sched_seed, kn, [&] {
        sc.exec(plan, ctx);
    });
    // the trace buffer survives until the next run starts, also when the kernel aborted this one
    if (trace) tail = sk::trace_tail(getenv("VERIF_TRACE_LINES") ? static_cast<std::size_t>(atoi(getenv("VERIF_TRACE_LINES"))) : 400);
    if (!out.st.fatal.empty()) {
        // kernel-level abort: deadlock / livelock / self-deadlock. Always a violation candidate.
        std::string key = out.st.deadlock ? "kernel.deadlock" : (out.st.step_limit ? "kernel.step_limit" : "kernel.abort");
        ctx.violations.push_back({key, out.st.fatal});
    }
    collect_tsan_reports(sc, ctx.violations, ctx.probes);
    out.violations = ctx.violations;
    out.probes = ctx.probes;
    out.faults = ctx.faults;
    out.states = ctx.states;
    out.nontrivial = ctx.nontrivial;
    out.trace = tail;
    // kernel-level fault counters that actually fired
    auto add = [&](const char* n, std::uint64_t v) { if (v) { out.faults[n] += v; } };
    add("thread_descheduled", out.st.descheduled); add("thread_descheduled_after_unlock", out.st.descheduled_after_unlock); add("short_read", out.st.short_reads); add("short_write", out.st.short_writes); add("eagain", out.st.eagain);
    add("conn_reset", out.st.resets); add("conn_refused", out.st.refused); add("recv_timeout", out.st.rcv_timeouts);
    add("sigpipe_or_epipe", out.st.sigpipes); add("accept_fault", out.st.accept_faults); add("dgram_lost", out.st.dgram_lost);
    add("dgram_dup", out.st.dgram_dup); add("file_fault", out.st.file_faults); add("process_crash", out.st.crashes);
    add("clock_step", out.st.clock_steps);
    if (out.st.resets || out.st.refused || out.st.accept_faults || out.st.file_faults || out.st.crashes || out.st.dgram_lost || out.st.clock_steps)
        out.nontrivial = true;
    return out;
}

// ------------------------------------------------------------------ known findings
struct Known { std::string property, key, what; bool fixed = false; };
static std::vector<Known> load_known() {
    std::vector<Known> v;
    std::ifstream in(g_verif_dir + "/known_findings.jsonl");
    std::string line;
    while (std::getline(in, line)) {
        if (line.empty() || line[0] == '#') continue;
        try {
            Json j = Json::parse(line);
            Known k;
            k.property = j.str("property");
            k.key = j.str("key");
            k.what = j.str("what");
            k.fixed = j.find("fixed") != nullptr;
            v.push_back(k);
        } catch (...) {}
    }
    return v;
}
static const Known* find_known(const std::vector<Known>& ks, const std::string& prop, const std::string& key) {
    for (auto& k : ks) if (!k.fixed && k.property == prop && k.key == key) return &k;
    return nullptr;
}

// ------------------------------------------------------------------ seeds and plans
static std::uint64_t run_seed(std::uint64_t verif_seed, const std::string& prop, std::uint64_t idx) {
    return sk::mix64(sk::mix64(verif_seed, std::hash<std::string>{}(prop)), idx);
}

struct Case { Plan plan; std::uint64_t sched_seed; };

static Case make_case(const Scenario& sc, std::uint64_t verif_seed, std::uint64_t idx, Tier tier, const std::vector<Plan>& enumerated) {
    const std::uint64_t rs = run_seed(verif_seed, sc.id, idx);
    Case c;
    c.sched_seed = sk::mix64(rs, 0x5c4ed);
    if (idx < enumerated.size()) { c.plan = enumerated[idx]; return c; }
    sk::Rng r(sk::mix64(rs, 0x91a4));
    c.plan = sc.gen(r, tier);
    return c;
}

// ------------------------------------------------------------------ minimisation (greedy + ddmin over ops)
static bool fails_with(const Scenario& sc, const Plan& p, std::uint64_t seed, const std::string& key) {
    Outcome o = execute(sc, p, seed, false);
    for (auto& v : o.violations) if (v.key == key) return true;
    return false;
}

static Plan minimise(const Scenario& sc, Plan plan, std::uint64_t seed, const std::string& key, int* reruns_out) {
    int reruns = 0;
    const double t0 = real_now();
    auto budget_ok = [&] { return reruns < 400 && real_now() - t0 < 45; };
    // ddmin over ops
    std::size_t chunk = plan.ops.size() / 2;
    while (chunk >= 1 && budget_ok()) {
        bool removed_any = false;
        for (std::size_t start = 0; start < plan.ops.size() && budget_ok();) {
            Plan cand = plan;
            const std::size_t end = std::min(plan.ops.size(), start + chunk);
            cand.ops.erase(cand.ops.begin() + static_cast<long>(start), cand.ops.begin() + static_cast<long>(end));
            ++reruns;
            if (!cand.ops.empty() && fails_with(sc, cand, seed, key)) { plan = cand; removed_any = true; }
            else start += chunk;
        }
        if (!removed_any) chunk /= 2;
    }
    // knobs toward calm scheduling/network: fewer preemptions, no short I/O, no latency
    for (const char* k : {"preempt", "short_io", "lat_max_us", "jitter"}) {
        if (!budget_ok()) break;
        auto it = plan.knobs.find(k);
        if (it == plan.knobs.end() || it->second == 0) continue;
        Plan cand = plan;
        cand.knobs[k] = 0;
        ++reruns;
        if (fails_with(sc, cand, seed, key)) plan = cand;
    }
    // shrink numeric arguments toward small values
    for (std::size_t i = 0; i < plan.ops.size() && budget_ok(); ++i) {
        for (std::size_t j = 0; j < plan.ops[i].a.size() && budget_ok(); ++j) {
            const std::int64_t v = plan.ops[i].a[j];
            for (std::int64_t tryv : {std::int64_t{0}, std::int64_t{1}, v / 2}) {
                if (tryv == v || (v >= 0 && tryv > v)) continue;
                Plan cand = plan;
                cand.ops[i].a[j] = tryv;
                ++reruns;
                if (fails_with(sc, cand, seed, key)) { plan = cand; break; }
                if (!budget_ok()) break;
            }
        }
    }
    if (reruns_out) *reruns_out = reruns;
    return plan;
}

// ------------------------------------------------------------------ replay files
static std::string write_replay(const Scenario& sc, std::uint64_t verif_seed, std::uint64_t idx, const Case& c, const Plan& minimal,
                                const Violation& v, const Outcome& o, int reruns, const std::string& kind) {
    const std::string dir = g_verif_dir + "/replays";
    mkdir(dir.c_str(), 0755);
    std::string safe_key = v.key;
    for (auto& ch : safe_key) if (!isalnum(static_cast<unsigned char>(ch)) && ch != '.' && ch != '-') ch = '_';
    if (safe_key.size() > 60) safe_key.resize(60);
    const std::string path = dir + "/" + sc.id + "-" + safe_key + "-s" + std::to_string(verif_seed) + "-r" + std::to_string(idx) + ".json";
    Json j = Json::object();
    j["property"] = sc.id;
    j["world"] = sc.world;
    j["kind"] = kind;
    j["verif_seed"] = Json(static_cast<long long>(verif_seed));
    j["run"] = Json(static_cast<long long>(idx));
    j["sched_seed"] = std::to_string(c.sched_seed);
    j["plan"] = minimal.to_json();
    j["plan_brief"] = minimal.brief();
    j["original_ops"] = Json(static_cast<long long>(c.plan.ops.size()));
    j["minimised_ops"] = Json(static_cast<long long>(minimal.ops.size()));
    j["minimiser_reruns"] = reruns;
    Json vj = Json::object();
    vj["key"] = v.key;
    vj["msg"] = v.msg;
    j["violation"] = vj;
    j["log_hash"] = std::to_string(o.st.log_hash);
    j["sim_time_s"] = Json(static_cast<double>(o.st.sim_ns) / 1e9);
    j["steps"] = Json(static_cast<long long>(o.st.steps));
    Json tr = Json::array();
    for (auto& l : o.trace) tr.push(l);
    j["trace_tail"] = tr;
    std::ofstream out(path);
    out << j.dump() << "\n";
    return path;
}

// ------------------------------------------------------------------ worker
static int g_proto_fd = 3;
static void emit(const std::string& line) {
    std::string l = line + "\n";
    size_t off = 0;
    while (off < l.size()) {
        const ssize_t n = write(g_proto_fd, l.data() + off, l.size() - off);
        if (n <= 0) { if (errno == EINTR) continue; _exit(90); }
        off += static_cast<size_t>(n);
    }
}

static std::string kv_dump(const std::map<std::string, std::uint64_t>& m) {
    std::string s;
    for (auto& [k, v] : m) { if (!s.empty()) s += ","; s += k + "=" + std::to_string(v); }
    return s.empty() ? "-" : s;
}

struct Options {
    std::string prop;
    Tier tier = Tier::Quick;
    std::uint64_t seed = 1;
    int workers = 16;
    std::uint64_t runs = 0;
    double secs = 0;
    std::string replay, expect_key;
    int worker = -1;
    std::int64_t single = -1;
    std::uint64_t start = 0;
    std::string evidence;
    int gate_every = 8;
    bool no_minimise = false;
    std::string hash_file;   // parent: write "<run index> <event-log hash>" per executed run (cross-process determinism check)
};

static int worker_main(const Scenario& sc, const Options& opt) {
    // stdout/stderr of repository code are noise here
    const int devnull = open("/dev/null", O_WRONLY);
    if (!getenv("VERIF_KEEP_STDERR")) { dup2(devnull, 1); dup2(devnull, 2); }
    const auto known = load_known();
    std::vector<Plan> enumerated;
    if (sc.enumerate) enumerated = sc.enumerate(opt.tier);
    // liveness signal for the parent's watchdog while a long run (or the minimiser) makes kernel progress
    static double last_beat = 0;
    sk::set_heartbeat([] { const double t = real_now(); if (t - last_beat > 2.0) { last_beat = t; emit("H"); } });
    const double deadline = real_now() + opt.secs;
    std::set<std::string> minimised_keys;
    std::uint64_t executed = 0;
    std::uint64_t first = opt.start + static_cast<std::uint64_t>(opt.worker), stride = static_cast<std::uint64_t>(opt.workers), limit = opt.runs;
    if (opt.single >= 0) { first = static_cast<std::uint64_t>(opt.single); limit = first + 1; stride = 1; }
    for (std::uint64_t idx = first; idx < limit; idx += stride) {
        if (real_now() > deadline && executed > 0 && idx >= enumerated.size()) break;
        emit("S " + std::to_string(idx));
        Case c = make_case(sc, opt.seed, idx, opt.tier, enumerated);
        if ((executed < 2 && opt.worker == 0) || opt.single >= 0) emit("P " + c.plan.to_json().dump());
        Outcome o = execute(sc, c.plan, c.sched_seed, false);
        ++executed;
        std::string states;
        for (auto h : o.states) { if (!states.empty()) states += ","; states += std::to_string(h & 0xffffffffffffULL); }
        emit(fmt("R %llu %llu %llu %llu %d %llu %llu %lld %zu ", (unsigned long long)idx, (unsigned long long)o.st.log_hash,
                 (unsigned long long)c.plan.hash(), (unsigned long long)o.st.sched_hash, o.nontrivial ? 1 : 0,
                 (unsigned long long)o.st.steps, (unsigned long long)o.st.switches, (long long)o.st.sim_ns, c.plan.ops.size()) +
             kv_dump(o.probes) + " " + kv_dump(o.faults) + " " + (states.empty() ? "-" : states));
        // determinism gate on a sample of runs and on every violating run
        const bool gate = (opt.gate_every > 0 && (idx / static_cast<std::uint64_t>(opt.workers)) % static_cast<std::uint64_t>(opt.gate_every) == 0) || !o.violations.empty();
        if (gate) {
            Outcome o2 = execute(sc, c.plan, c.sched_seed, false);
            // ThreadSanitizer reports each race once per process, so a re-execution in this process cannot repeat
            // ".race." findings; they are confirmed by the fresh-process replay instead.
            auto without_races = [](const std::vector<Violation>& v) { std::vector<std::string> k; for (auto& x : v) if (x.key.find(".race.") == std::string::npos) k.push_back(x.key); return k; };
            bool same = o2.st.log_hash == o.st.log_hash && without_races(o2.violations) == without_races(o.violations);
            emit(fmt("G %llu %d", (unsigned long long)idx, same ? 1 : 0));
            if (!same) { emit(fmt("X %llu nondeterministic run (hash %llu vs %llu)", (unsigned long long)idx, (unsigned long long)o.st.log_hash, (unsigned long long)o2.st.log_hash)); continue; }
        }
        for (auto& v : o.violations) {
            if (find_known(known, sc.id, v.key)) { emit("K " + std::to_string(idx) + " " + v.key); continue; }
            const bool race_key = v.key.find(".race.") != std::string::npos;
            std::size_t reduced_so_far = 0;
            for (auto& mk : minimised_keys) if (mk.find(".race.") == std::string::npos) ++reduced_so_far;
            if (minimised_keys.count(v.key) || (!race_key && reduced_so_far >= 3)) { emit("W " + std::to_string(idx) + " " + v.key); continue; }
            minimised_keys.insert(v.key);
            { std::string m0 = v.msg; for (auto& ch : m0) if (ch == '\n') ch = ' '; emit("M " + std::to_string(idx) + " " + v.key + " " + m0); }
            int reruns = 0;
            const bool is_race = v.key.find(".race.") != std::string::npos;
            Plan minimal = (opt.no_minimise || is_race) ? c.plan : minimise(sc, c.plan, c.sched_seed, v.key, &reruns);
            Outcome traced = is_race ? o : execute(sc, minimal, c.sched_seed, true);
            Violation vv = v;
            for (auto& tv : traced.violations) if (tv.key == v.key) vv = tv;
            const std::string path = write_replay(sc, opt.seed, idx, c, minimal, vv, traced, reruns, "violation");
            std::string msg = vv.msg;
            for (auto& ch : msg) if (ch == '\n') ch = ' ';
            emit("V " + std::to_string(idx) + " " + v.key + " " + path + " " + msg);
        }
    }
    emit("D " + std::to_string(executed));
    return 0;
}

// ------------------------------------------------------------------ replay mode
static int replay_main(const Scenario& sc, const Options& opt) {
    std::ifstream in(opt.replay);
    std::stringstream ss;
    ss << in.rdbuf();
    Json j;
    try { j = Json::parse(ss.str()); } catch (const std::exception& e) { fprintf(stderr, "cannot parse replay: %s\n", e.what()); return 2; }
    const Json* pj = j.find("plan");
    if (!pj) { fprintf(stderr, "replay file has no plan\n"); return 2; }
    Plan plan = Plan::from_json(*pj);
    const std::uint64_t seed = strtoull(j.str("sched_seed").c_str(), nullptr, 10);
    std::string want = opt.expect_key;
    if (want.empty()) if (const Json* v = j.find("violation")) want = v->str("key");
    // silence repository chatter but keep our own stdout
    const int keep = dup(1);
    const int devnull = open("/dev/null", O_WRONLY);
    if (!getenv("VERIF_KEEP_STDERR")) { dup2(devnull, 1); dup2(devnull, 2); }
    Outcome o = execute(sc, plan, seed, true);
    dup2(keep, 1);
    FILE* out = fdopen(keep, "w");
    fprintf(out, "replay %s: property=%s ops=%zu sched_seed=%llu log_hash=%llu sim_t=%.3fs steps=%llu\n", opt.replay.c_str(), sc.id.c_str(),
            plan.ops.size(), (unsigned long long)seed, (unsigned long long)o.st.log_hash, o.st.sim_ns / 1e9, (unsigned long long)o.st.steps);
    fprintf(out, "plan: %s\n", plan.brief().c_str());
    if (getenv("VERIF_TRACE")) for (auto& l : o.trace) fprintf(out, "  %s\n", l.c_str());
    bool hit = false;
    const auto known = load_known();
    for (auto& v : o.violations) {
        fprintf(out, "violation key=%s msg=%s\n", v.key.c_str(), v.msg.c_str());
        if (want.empty() || v.key == want) hit = true;
    }
    if (hit) {
        if (find_known(known, sc.id, want) && !want.empty()) {
            fprintf(out, "KNOWN-FINDING: property=%s %s\n", sc.id.c_str(), want.c_str());
            fflush(out);
            return 0;
        }
        fprintf(out, "VIOLATION property=%s replay=%s\n", sc.id.c_str(), opt.replay.c_str());
        fflush(out);
        return 1;
    }
    fprintf(out, "no violation reproduced%s\n", want.empty() ? "" : (" (expected key " + want + ")").c_str());
    fflush(out);
    return 0;
}

// ------------------------------------------------------------------ parent
struct WorkerProc {
    pid_t pid = -1;
    int fd = -1;
    std::string buf;
    std::int64_t current = -1;  // run being executed
    std::uint64_t next_start = 0;
    std::int64_t minimising = -1;          // run whose violation the worker is reducing right now
    std::string minimising_key, minimising_msg;
    bool done = false;
    int index = 0;
    int restarts = 0;
    double last_activity = 0;
    bool hung = false;
};

static std::string self_exe() {
    char buf[4096];
    const ssize_t n = readlink("/proc/self/exe", buf, sizeof buf - 1);
    buf[n > 0 ? n : 0] = 0;
    return buf;
}

static std::string san_log_base(const std::string& prop) { return g_verif_dir + "/.build/logs/" + prop; }

static pid_t spawn_child(const std::vector<std::string>& args, int* read_fd, const std::string& prop, bool quiet = false) {
    int p[2];
    if (pipe(p) != 0) return -1;
    // keep the parent's ends away from descriptor 3, which is the child's protocol channel
    for (int i = 0; i < 2; ++i) {
        if (p[i] < 10) { const int n = fcntl(p[i], F_DUPFD_CLOEXEC, 10); close(p[i]); p[i] = n; }
        else fcntl(p[i], F_SETFD, FD_CLOEXEC);
    }
    posix_spawn_file_actions_t fa;
    posix_spawn_file_actions_init(&fa);
    if (p[0] != 3) posix_spawn_file_actions_addclose(&fa, p[0]);
    if (p[1] != 3) posix_spawn_file_actions_adddup2(&fa, p[1], 3);
    if (quiet) {
        posix_spawn_file_actions_addopen(&fa, 1, "/dev/null", O_WRONLY, 0);
        posix_spawn_file_actions_addopen(&fa, 2, "/dev/null", O_WRONLY, 0);
    }
    std::vector<char*> argv;
    for (auto& a : args) argv.push_back(const_cast<char*>(a.c_str()));
    argv.push_back(nullptr);
    std::vector<std::string> envs;
    for (char** e = environ; *e; ++e) {
        if (!strncmp(*e, "ASAN_OPTIONS=", 13) || !strncmp(*e, "UBSAN_OPTIONS=", 14) || !strncmp(*e, "TSAN_OPTIONS=", 13)) continue;
        envs.push_back(*e);
    }
    const std::string lp = san_log_base(prop);
    envs.push_back("ASAN_OPTIONS=exitcode=77:detect_leaks=0:abort_on_error=0:handle_segv=1:detect_stack_use_after_return=0:allocator_may_return_null=1:max_allocation_size_mb=1024:quarantine_size_mb=4:thread_local_quarantine_size_kb=64:log_path=" + lp + ".asan");
    envs.push_back("UBSAN_OPTIONS=halt_on_error=1:exitcode=77:print_stacktrace=1:log_path=" + lp + ".ubsan");
    envs.push_back("TSAN_OPTIONS=exitcode=0:halt_on_error=0:report_signal_unsafe=0:report_thread_leaks=0:log_path=" + lp + ".tsan:second_deadlock_stack=1");
    std::vector<char*> envp;
    for (auto& e : envs) envp.push_back(const_cast<char*>(e.c_str()));
    envp.push_back(nullptr);
    pid_t pid = -1;
    const int rc = posix_spawn(&pid, args[0].c_str(), &fa, nullptr, argv.data(), envp.data());
    posix_spawn_file_actions_destroy(&fa);
    close(p[1]);
    if (rc != 0) { close(p[0]); return -1; }
    *read_fd = p[0];
    return pid;
}

static void parse_kv(const std::string& s, std::map<std::string, std::uint64_t>& into) {
    if (s == "-") return;
    std::size_t pos = 0;
    while (pos < s.size()) {
        const std::size_t comma = s.find(',', pos);
        const std::string item = s.substr(pos, comma == std::string::npos ? std::string::npos : comma - pos);
        const std::size_t eq = item.find('=');
        if (eq != std::string::npos) into[item.substr(0, eq)] += strtoull(item.c_str() + eq + 1, nullptr, 10);
        if (comma == std::string::npos) break;
        pos = comma + 1;
    }
}

static std::string read_file_tail(const std::string& path, std::size_t max) {
    std::ifstream in(path);
    std::stringstream ss;
    ss << in.rdbuf();
    std::string s = ss.str();
    if (s.size() > max) s = s.substr(0, max);
    return s;
}

static std::string sanitizer_key(const std::string& prop, pid_t pid, std::string* detail) {
    for (const char* ext : {".asan.", ".ubsan.", ".tsan."}) {
        const std::string path = san_log_base(prop) + ext + std::to_string(pid);
        std::string text = read_file_tail(path, 20000);
        if (text.empty()) continue;
        if (detail) *detail = text.substr(0, 3000);
        std::string key;
        std::size_t p = text.find("SUMMARY: ");
        if (p != std::string::npos) {
            std::string line = text.substr(p + 9, text.find('\n', p) - p - 9);
            // "AddressSanitizer: heap-buffer-overflow /path/file.cpp:123:4 in func"
            std::stringstream ls(line);
            std::string tool, kind, loc, in_, fn;
            ls >> tool >> kind >> loc >> in_;
            std::getline(ls, fn);
            while (!fn.empty() && fn[0] == ' ') fn.erase(0, 1);
            const std::size_t slash = loc.rfind('/');
            if (slash != std::string::npos) loc = loc.substr(slash + 1);
            const std::size_t colon2 = loc.find(':', loc.find(':') == std::string::npos ? 0 : loc.find(':') + 1);
            if (colon2 != std::string::npos) loc = loc.substr(0, colon2);
            // prefer the innermost frame that lies in the repository (the SUMMARY names an interceptor such as memcpy otherwise)
            if (loc.find(".cpp") == std::string::npos && loc.find(".hpp") == std::string::npos) {
                const std::size_t rp = text.find(std::string(REPO_ROOT) + "/");
                if (rp != std::string::npos && rp < p) {
                    std::string rloc = text.substr(rp, text.find_first_of(" \n", rp) - rp);
                    const std::size_t rs = rloc.rfind('/');
                    if (rs != std::string::npos) rloc = rloc.substr(rs + 1);
                    const std::size_t c2 = rloc.find(':', rloc.find(':') == std::string::npos ? 0 : rloc.find(':') + 1);
                    if (c2 != std::string::npos) rloc = rloc.substr(0, c2);
                    loc = rloc;
                }
            }
            key = "sanitizer." + kind + "@" + loc;
        } else if ((p = text.find("runtime error: ")) != std::string::npos) {
            const std::size_t ls = text.rfind('\n', p);
            std::string loc = text.substr(ls == std::string::npos ? 0 : ls + 1, p - (ls == std::string::npos ? 0 : ls + 1));
            const std::size_t slash = loc.rfind('/');
            if (slash != std::string::npos) loc = loc.substr(slash + 1);
            const std::size_t colon2 = loc.find(':', loc.find(':') == std::string::npos ? 0 : loc.find(':') + 1);
            if (colon2 != std::string::npos) loc = loc.substr(0, colon2);
            key = "sanitizer.ubsan@" + loc;
        }
        unlink(path.c_str());
        if (!key.empty()) return key;
    }
    return "";
}

struct Agg {
    std::uint64_t evaluations = 0, gate_runs = 0, gate_mismatch = 0, harness_faults = 0;
    std::set<std::uint64_t> plan_hashes, nontrivial_hashes, sched_hashes, states;
    std::map<std::string, std::uint64_t> probes, faults;
    std::uint64_t steps = 0, switches = 0, ops = 0;
    std::int64_t sim_ns = 0, sim_ns_max = 0;
    std::vector<Json> samples;
    std::map<std::string, std::uint64_t> known_hits, unknown_hits;
    struct Viol { std::uint64_t idx; std::string key, path, msg; };
    std::vector<Viol> viols;
    std::vector<std::string> notes;
    std::uint64_t crashes = 0;
};

static int parent_main(const Scenario& sc, const Options& opt) {
    const double t0 = real_now();
    mkdir((g_verif_dir + "/.build").c_str(), 0755);
    mkdir((g_verif_dir + "/.build/logs").c_str(), 0755);
    mkdir((g_verif_dir + "/evidence").c_str(), 0755);
    // stale sanitizer logs of earlier batches of this property
    if (DIR* dir = opendir((g_verif_dir + "/.build/logs").c_str())) {
        const std::string prefix = sc.id + ".";
        while (auto* e = readdir(dir)) if (std::string(e->d_name).rfind(prefix, 0) == 0) unlink((g_verif_dir + "/.build/logs/" + e->d_name).c_str());
        closedir(dir);
    }
    const auto known = load_known();
    Agg agg;
    const std::string exe = self_exe();
    const double hang_secs = getenv("VERIF_HANG_SECS") ? atof(getenv("VERIF_HANG_SECS")) : 180.0;  // generous: on an overloaded machine a healthy run has been seen to need > 75 s between heartbeats
    std::vector<Plan> enumerated;
    if (sc.enumerate) enumerated = sc.enumerate(opt.tier);

    auto base_args = [&](int w, std::uint64_t start) {
        std::vector<std::string> a{exe, sc.id, "--tier", opt.tier == Tier::Quick ? "quick" : "thorough", "--seed", std::to_string(opt.seed),
                                   "--workers", std::to_string(opt.workers), "--runs", std::to_string(opt.runs), "--secs",
                                   std::to_string(std::max(1.0, opt.secs - (real_now() - t0))), "--worker", std::to_string(w), "--start", std::to_string(start),
                                   "--gate-every", std::to_string(opt.gate_every)};
        if (opt.no_minimise) a.push_back("--no-minimise");
        return a;
    };

    std::vector<WorkerProc> ws(static_cast<std::size_t>(opt.workers));
    for (int w = 0; w < opt.workers; ++w) {
        ws[static_cast<std::size_t>(w)].index = w;
        ws[static_cast<std::size_t>(w)].pid = spawn_child(base_args(w, 0), &ws[static_cast<std::size_t>(w)].fd, sc.id);
        if (ws[static_cast<std::size_t>(w)].pid < 0) { fprintf(stderr, "cannot spawn worker\n"); return 2; }
    }

    FILE* hash_out = opt.hash_file.empty() ? nullptr : fopen(opt.hash_file.c_str(), "w");
    auto handle_line = [&](WorkerProc& w, const std::string& line) {
        if (line.size() < 2) return;
        std::stringstream ls(line.substr(2));
        switch (line[0]) {
            case 'S': { std::uint64_t idx; ls >> idx; w.current = static_cast<std::int64_t>(idx); break; }
            case 'P': { if (agg.samples.size() < 3) { try { agg.samples.push_back(Json::parse(line.substr(2))); } catch (...) {} } break; }
            case 'R': {
                std::uint64_t idx, lh, ph, sh, steps, sw; int nt; long long sim; std::size_t nops; std::string probes, faults, states;
                ls >> idx >> lh >> ph >> sh >> nt >> steps >> sw >> sim >> nops >> probes >> faults >> states;
                ++agg.evaluations;
                if (hash_out) fprintf(hash_out, "%llu %llu\n", (unsigned long long)idx, (unsigned long long)lh);
                agg.plan_hashes.insert(ph);
                if (nt) agg.nontrivial_hashes.insert(ph);
                agg.sched_hashes.insert(sh);
                agg.steps += steps; agg.switches += sw; agg.sim_ns += sim; agg.sim_ns_max = std::max<std::int64_t>(agg.sim_ns_max, sim);
                agg.ops += nops;
                parse_kv(probes, agg.probes);
                parse_kv(faults, agg.faults);
                if (states != "-") {
                    std::size_t pos = 0;
                    while (pos < states.size() && agg.states.size() < 2000000) {
                        const std::size_t comma = states.find(',', pos);
                        agg.states.insert(strtoull(states.c_str() + pos, nullptr, 10));
                        if (comma == std::string::npos) break;
                        pos = comma + 1;
                    }
                }
                w.current = -1;
                w.next_start = idx + 1;
                break;
            }
            case 'G': { std::uint64_t idx; int same; ls >> idx >> same; ++agg.gate_runs; if (!same) ++agg.gate_mismatch; break; }
            case 'X': { ++agg.harness_faults; agg.notes.push_back("harness: " + line.substr(2)); break; }
            case 'K': { std::uint64_t idx; std::string key; ls >> idx >> key; ++agg.known_hits[key]; break; }
            case 'W': { std::uint64_t idx; std::string key; ls >> idx >> key; ++agg.unknown_hits[key]; break; }
            case 'M': { std::uint64_t idx; ls >> idx >> w.minimising_key; std::getline(ls, w.minimising_msg); w.minimising = static_cast<std::int64_t>(idx); break; }
            case 'V': {
                w.minimising = -1;
                Agg::Viol v; ls >> v.idx >> v.key >> v.path; std::getline(ls, v.msg);
                ++agg.unknown_hits[v.key];
                agg.viols.push_back(v);
                break;
            }
            case 'D': w.done = true; break;
            default: break;
        }
    };

    int live = opt.workers;
    while (live > 0) {
        std::vector<pollfd> pfds;
        std::vector<WorkerProc*> map;
        for (auto& w : ws) if (w.fd >= 0) { pfds.push_back({w.fd, POLLIN, 0}); map.push_back(&w); }
        if (pfds.empty()) break;
        poll(pfds.data(), pfds.size(), 1000);
        // watchdog: repository code spinning without ever reaching the simulated kernel cannot be bounded by the
        // step limit; a worker that reports nothing for hang_secs of wall time is killed and the run counted as a hang
        for (auto* wp : map) {
            if (wp->last_activity == 0) wp->last_activity = real_now();
            if (!wp->hung && real_now() - wp->last_activity > hang_secs) { wp->hung = true; kill(wp->pid, SIGKILL); }
        }
        for (std::size_t i = 0; i < pfds.size(); ++i) {
            if (!(pfds[i].revents & (POLLIN | POLLHUP | POLLERR))) continue;
            WorkerProc& w = *map[i];
            char buf[65536];
            const ssize_t n = read(w.fd, buf, sizeof buf);
            if (n > 0) {
                w.last_activity = real_now();
                w.buf.append(buf, static_cast<std::size_t>(n));
                std::size_t nl;
                while ((nl = w.buf.find('\n')) != std::string::npos) {
                    handle_line(w, w.buf.substr(0, nl));
                    w.buf.erase(0, nl + 1);
                }
                continue;
            }
            // EOF: worker exited
            close(w.fd);
            w.fd = -1;
            int status = 0;
            waitpid(w.pid, &status, 0);
            if (w.done) { --live; continue; }
            // died mid-run
            ++agg.crashes;
            std::string detail;
            std::string key = sanitizer_key(sc.id, w.pid, &detail);
            const std::string how = WIFSIGNALED(status) ? "signal " + std::to_string(WTERMSIG(status)) : "exit " + std::to_string(WEXITSTATUS(status));
            if (key.empty()) key = "crash." + how;
            if (w.hung) { key = "hang.no_progress_in_repository_code"; detail = "the run made no progress for " + std::to_string(static_cast<int>(hang_secs)) + " s of wall time (busy loop outside the simulated kernel); worker killed"; }
            for (auto& ch : key) if (ch == ' ') ch = '_';
            std::int64_t idx = w.current;
            if (idx < 0 && w.minimising >= 0) {
                // A reduced variant of a violating plan killed the worker (a different failure class reached while
                // shrinking). The violation itself stands: report it with the unreduced plan and carry on.
                const std::uint64_t mi = static_cast<std::uint64_t>(w.minimising);
                Case c = make_case(sc, opt.seed, mi, opt.tier, enumerated);
                Violation v{w.minimising_key, w.minimising_msg};
                Outcome dummy;
                const std::string path = write_replay(sc, opt.seed, mi, c, c.plan, v, dummy, 0, "violation");
                ++agg.unknown_hits[v.key];
                agg.viols.push_back({mi, v.key, path, v.msg.substr(0, 300)});
                agg.notes.push_back("worker " + std::to_string(w.index) + " died while reducing run " + std::to_string(mi) + " (" + (key.empty() ? how : key) + "); violation reported with the unreduced plan");
                w.minimising = -1;
                idx = static_cast<std::int64_t>(mi);
                if (w.restarts < 50 && real_now() - t0 < opt.secs) {
                    ++w.restarts;
                    w.current = -1; w.done = false; w.hung = false; w.last_activity = real_now();
                    auto args = base_args(w.index, mi + static_cast<std::uint64_t>(opt.workers) - static_cast<std::uint64_t>(w.index));
                    if (!opt.no_minimise) args.push_back("--no-minimise");  // do not walk into the same death again
                    w.pid = spawn_child(args, &w.fd, sc.id);
                    if (w.pid < 0) --live;
                } else {
                    --live;
                }
                continue;
            }
            if (idx < 0) {
                agg.notes.push_back("worker " + std::to_string(w.index) + " died outside a run (" + how + ")");
                ++agg.harness_faults;
                --live;
                continue;
            }
            // confirm in a fresh process that the same run dies the same way
            bool confirmed = false;
            {
                auto args = base_args(w.index, static_cast<std::uint64_t>(idx));
                args.push_back("--single");
                args.push_back(std::to_string(idx));
                int fd2 = -1;
                pid_t p2 = spawn_child(args, &fd2, sc.id);
                if (p2 > 0) {
                    char tmp[4096];
                    const double c0 = real_now();
                    bool hung2 = false;
                    for (;;) {
                        pollfd pf{fd2, POLLIN, 0};
                        poll(&pf, 1, 1000);
                        if (pf.revents & (POLLIN | POLLHUP | POLLERR)) { if (read(fd2, tmp, sizeof tmp) <= 0) break; }
                        if (real_now() - c0 > hang_secs) { hung2 = true; kill(p2, SIGKILL); break; }
                    }
                    close(fd2);
                    int st2 = 0;
                    waitpid(p2, &st2, 0);
                    std::string d2;
                    std::string key2 = sanitizer_key(sc.id, p2, &d2);
                    if (hung2) key2 = "hang.no_progress_in_repository_code";
                    const std::string how2 = WIFSIGNALED(st2) ? "signal " + std::to_string(WTERMSIG(st2)) : "exit " + std::to_string(WEXITSTATUS(st2));
                    if (key2.empty()) key2 = "crash." + how2;
                    for (auto& ch : key2) if (ch == ' ') ch = '_';
                    const bool died = WIFSIGNALED(st2) || WEXITSTATUS(st2) != 0;
                    confirmed = died && key2 == key;
                    if (!confirmed) agg.notes.push_back("crash of run " + std::to_string(idx) + " (" + key + ") did not reproduce in a fresh process (" + key2 + ")");
                }
            }
            if (confirmed) {
                Case c = make_case(sc, opt.seed, static_cast<std::uint64_t>(idx), opt.tier, enumerated);
                Violation v{key, "process died during run (" + how + "): " + detail.substr(0, 1500)};
                Outcome dummy;
                const std::string path = write_replay(sc, opt.seed, static_cast<std::uint64_t>(idx), c, c.plan, v, dummy, 0, "crash");
                if (find_known(known, sc.id, key)) ++agg.known_hits[key];
                else {
                    ++agg.unknown_hits[key];
                    bool dup = false;
                    for (auto& e : agg.viols) if (e.key == key) dup = true;
                    if (!dup) agg.viols.push_back({static_cast<std::uint64_t>(idx), key, path, v.msg.substr(0, 300)});
                }
            } else {
                ++agg.harness_faults;
            }
            // restart the worker after the fatal run
            if (w.restarts < 50 && real_now() - t0 < opt.secs) {
                ++w.restarts;
                const std::uint64_t next = static_cast<std::uint64_t>(idx) + static_cast<std::uint64_t>(opt.workers) - static_cast<std::uint64_t>(w.index);
                // next index for this worker: idx + workers (start is added to worker offset)
                (void)next;
                w.current = -1;
                w.done = false;
                w.hung = false;
                w.last_activity = real_now();
                w.pid = spawn_child(base_args(w.index, static_cast<std::uint64_t>(idx) + static_cast<std::uint64_t>(opt.workers) - static_cast<std::uint64_t>(w.index)), &w.fd, sc.id);
                if (w.pid < 0) --live;
            } else {
                --live;
            }
        }
    }

    if (hash_out) fclose(hash_out);
    // fresh-process replay of every reported violation
    int exit_code = 0;
    std::vector<std::string> out_lines;
    std::set<std::string> reported;
    for (auto& v : agg.viols) {
        if (reported.count(v.key)) continue;
        reported.insert(v.key);
        const bool is_crash = v.key.rfind("sanitizer.", 0) == 0 || v.key.rfind("crash.", 0) == 0 || v.key.rfind("hang.", 0) == 0;
        if (is_crash) {
            // A death of the simulated system inside repository code that reproduced in a fresh process (sanitizer report,
            // fatal signal) is a violation of whatever property was being exercised: no property here holds on an execution
            // in which the node dies. Only a wall-clock hang is left to the properties that are about liveness.
            const bool hang = v.key.rfind("hang.", 0) == 0;
            if (!sc.crash_is_violation && hang) {
                agg.notes.push_back("process death outside this property's scope: " + v.key + " (replay " + v.path + ")");
                // reported, but not as a violation of this property (memory safety / crashes are C26/C33/C35/C36)
                out_lines.push_back("OUT-OF-SCOPE-CRASH property=" + sc.id + " key=" + v.key + " replay=" + v.path);
                continue;
            }
            out_lines.push_back("VIOLATION property=" + sc.id + " replay=" + v.path + "  # " + v.key);
            exit_code = std::max(exit_code, 1);
            continue;
        }
        int fd = -1;
        pid_t p = spawn_child({exe, sc.id, "--replay", v.path, "--expect", v.key}, &fd, sc.id, true);
        int st = 0;
        if (p > 0) { char tmp[4096]; while (read(fd, tmp, sizeof tmp) > 0) {} close(fd); waitpid(p, &st, 0); }
        if (p > 0 && WIFEXITED(st) && WEXITSTATUS(st) == 1) {
            out_lines.push_back("VIOLATION property=" + sc.id + " replay=" + v.path + "  # " + v.key + ":" + v.msg.substr(0, 300));
            exit_code = std::max(exit_code, 1);
        } else {
            agg.notes.push_back("violation " + v.key + " did not reproduce from its replay file in a fresh process: harness fault");
            ++agg.harness_faults;
        }
    }
    for (auto& [key, n] : agg.known_hits) {
        const Known* k = find_known(known, sc.id, key);
        out_lines.push_back("KNOWN-FINDING: property=" + sc.id + " " + key + " (" + std::to_string(n) + " runs) " + (k ? k->what : ""));
    }
    // harness faults (a death that did not reproduce, a gate mismatch) make a run without any confirmed violation untrustworthy: exit 2.
    // A violation that did reproduce from its replay file in a fresh process stands on its own: exit 1 (the notes still list the faults).
    if ((agg.gate_mismatch || agg.harness_faults) && exit_code == 0) exit_code = 2;
    if (agg.evaluations == 0) exit_code = std::max(exit_code, 2);

    // evidence
    const double wall = real_now() - t0;
    Json ev = Json::object();
    ev["property_id"] = sc.id;
    ev["tier"] = opt.tier == Tier::Quick ? "quick" : "thorough";
    ev["seed"] = Json(static_cast<long long>(opt.seed));
    ev["level"] = sc.level;
    Json cov = Json::object();
    cov["evaluations"] = Json(static_cast<long long>(agg.evaluations));
    cov["distinct_nontrivial"] = Json(static_cast<long long>(agg.nontrivial_hashes.size()));
    cov["rule"] = sc.rule;
    Json samples = Json::array();
    for (auto& s : agg.samples) samples.push(s);
    cov["samples"] = samples;
    cov["distinct_plans"] = Json(static_cast<long long>(agg.plan_hashes.size()));
    cov["distinct_schedules"] = Json(static_cast<long long>(agg.sched_hashes.size()));
    cov["distinct_schedule_measure"] = "hash of the first 256 scheduling decisions (process, #runnable, fiber role)";
    cov["distinct_abstract_states"] = Json(static_cast<long long>(agg.states.size()));
    cov["enumerated_cases"] = Json(static_cast<long long>(enumerated.size()));
    cov["runs_per_hour"] = Json(wall > 0 ? static_cast<double>(agg.evaluations) * 3600.0 / wall : 0.0);
    cov["simulated_seconds_total"] = Json(static_cast<double>(agg.sim_ns) / 1e9);
    cov["simulated_seconds_max_run"] = Json(static_cast<double>(agg.sim_ns_max) / 1e9);
    cov["scheduling_steps"] = Json(static_cast<long long>(agg.steps));
    cov["context_switches"] = Json(static_cast<long long>(agg.switches));
    cov["driver_operations"] = Json(static_cast<long long>(agg.ops));
    Json fj = Json::object();
    for (auto& [k, v] : agg.faults) fj[k] = Json(static_cast<long long>(v));
    cov["faults_fired"] = fj;
    Json pj = Json::object();
    for (auto& [k, v] : agg.probes) pj[k] = Json(static_cast<long long>(v));
    cov["probes"] = pj;
    Json dg = Json::object();
    dg["runs_executed_twice"] = Json(static_cast<long long>(agg.gate_runs));
    dg["hash_mismatches"] = Json(static_cast<long long>(agg.gate_mismatch));
    cov["determinism_gate"] = dg;
    Json comps = Json::object();
    Json rc = Json::array(); for (auto& c : sc.real_components) rc.push(c);
    Json stc = Json::array(); for (auto& c : sc.stub_components) stc.push(c);
    comps["real"] = rc; comps["stub"] = stc;
    cov["components"] = comps;
    cov["world"] = sc.world;
    cov["technique"] = sc.technique;
    cov["workers"] = opt.workers;
    cov["worker_deaths"] = Json(static_cast<long long>(agg.crashes));
    Json kf = Json::object();
    for (auto& [k, v] : agg.known_hits) kf[k] = Json(static_cast<long long>(v));
    cov["known_findings_seen"] = kf;
    Json uf = Json::object();
    for (auto& [k, v] : agg.unknown_hits) uf[k] = Json(static_cast<long long>(v));
    cov["violations_seen"] = uf;
    Json notes = Json::array(); for (auto& n : agg.notes) notes.push(n);
    cov["notes"] = notes;
    cov["exhaustive"] = false;
    ev["coverage"] = cov;
    Json as = Json::array(); for (auto& a : sc.assumptions) as.push(a);
    ev["assumptions"] = as;
    ev["wall_s"] = Json(wall);
    ev["violations"] = Json(static_cast<long long>(reported.size()));
    const std::string evpath = opt.evidence.empty() ? g_verif_dir + "/evidence/" + sc.id + ".json" : opt.evidence;
    { std::ofstream out(evpath); out << ev.dump() << "\n"; }

    printf("%s %s: %llu runs (%zu distinct plans, %zu non-trivial, %zu schedules) in %.1fs, sim %.0fs, gate %llu/%llu ok, worker deaths %llu\n",
           sc.id.c_str(), opt.tier == Tier::Quick ? "quick" : "thorough", (unsigned long long)agg.evaluations, agg.plan_hashes.size(),
           agg.nontrivial_hashes.size(), agg.sched_hashes.size(), wall, agg.sim_ns / 1e9,
           (unsigned long long)(agg.gate_runs - agg.gate_mismatch), (unsigned long long)agg.gate_runs, (unsigned long long)agg.crashes);
    std::string probe_line = "probes:";
    for (auto& [k, v] : agg.probes) probe_line += " " + k + "=" + std::to_string(v);
    printf("%s\n", probe_line.c_str());
    std::string fault_line = "faults fired:";
    for (auto& [k, v] : agg.faults) fault_line += " " + k + "=" + std::to_string(v);
    printf("%s\n", fault_line.c_str());
    for (auto& n : agg.notes) printf("note: %s\n", n.c_str());
    for (auto& l : out_lines) printf("%s\n", l.c_str());
    if (exit_code == 0) printf("OK property=%s\n", sc.id.c_str());
    else if (exit_code >= 2) printf("HARNESS-FAULT property=%s (exit %d)\n", sc.id.c_str(), exit_code);
    fflush(stdout);
    return exit_code;
}

namespace hz { int conformance_main(); }

// ------------------------------------------------------------------ main
static void on_terminate() {
    const char msg[] = "simcheck: std::terminate called\n";
    if (write(2, msg, sizeof msg - 1) < 0) {}
    _exit(134);
}

int main(int argc, char** argv) {
    std::set_terminate(on_terminate);
    signal(SIGPIPE, SIG_IGN);
    Options opt;
    if (const char* e = getenv("VERIF_DIR")) g_verif_dir = e;
    if (const char* e = getenv("VERIF_SEED")) opt.seed = strtoull(e, nullptr, 10);
    if (const char* e = getenv("VERIF_TIER")) opt.tier = !strcmp(e, "thorough") ? Tier::Thorough : Tier::Quick;
    if (const char* e = getenv("VERIF_WORKERS")) opt.workers = atoi(e);
    bool runs_set = false, secs_set = false, tier_set = false;
    for (int i = 1; i < argc; ++i) {
        const std::string a = argv[i];
        auto next = [&]() -> std::string { return i + 1 < argc ? argv[++i] : ""; };
        if (a == "--tier") { opt.tier = next() == "thorough" ? Tier::Thorough : Tier::Quick; tier_set = true; }
        else if (a == "--seed") opt.seed = strtoull(next().c_str(), nullptr, 10);
        else if (a == "--workers") opt.workers = atoi(next().c_str());
        else if (a == "--runs") { opt.runs = strtoull(next().c_str(), nullptr, 10); runs_set = true; }
        else if (a == "--secs") { opt.secs = atof(next().c_str()); secs_set = true; }
        else if (a == "--replay") opt.replay = next();
        else if (a == "--expect") opt.expect_key = next();
        else if (a == "--worker") opt.worker = atoi(next().c_str());
        else if (a == "--single") opt.single = atoll(next().c_str());
        else if (a == "--start") opt.start = strtoull(next().c_str(), nullptr, 10);
        else if (a == "--evidence") opt.evidence = next();
        else if (a == "--gate-every") opt.gate_every = atoi(next().c_str());
        else if (a == "--no-minimise") opt.no_minimise = true;
        else if (a == "--hash-file") opt.hash_file = next();
        else if (a == "--list") { for (auto& s : scenarios()) printf("%s %s\n", s.id.c_str(), s.world.c_str()); return 0; }
        else if (a[0] != '-') opt.prop = a;
    }
    (void)tier_set;
    // A replay started by hand under ThreadSanitizer needs the same sanitizer environment the parent gives its
    // children (reports are read back from the log file): set it and start over once.
    if (!opt.replay.empty() && __tsan_get_current_fiber && !getenv("VERIF_SAN_ENV")) {
        const std::string lp = g_verif_dir + "/.build/logs/" + opt.prop;
        mkdir((g_verif_dir + "/.build").c_str(), 0755);
        mkdir((g_verif_dir + "/.build/logs").c_str(), 0755);
        setenv("TSAN_OPTIONS", ("exitcode=0:halt_on_error=0:report_signal_unsafe=0:report_thread_leaks=0:log_path=" + lp + ".tsan").c_str(), 1);
        unsetenv("UBSAN_OPTIONS");
        setenv("VERIF_SAN_ENV", "1", 1);
        execv("/proc/self/exe", argv);
    }
    if (opt.prop == "conformance") return hz::conformance_main();
    const Scenario* sc = nullptr;
    for (auto& s : scenarios()) if (s.id == opt.prop) sc = &s;
    if (!sc) { fprintf(stderr, "unknown property '%s' (use --list)\n", opt.prop.c_str()); return 2; }
    if (!runs_set) opt.runs = opt.tier == Tier::Quick ? sc->quick_runs : sc->thorough_runs;
    if (!secs_set) opt.secs = opt.tier == Tier::Quick ? sc->quick_secs : sc->thorough_secs;
    if (opt.workers < 1) opt.workers = 1;
    if (!opt.replay.empty()) return replay_main(*sc, opt);
    if (opt.worker >= 0) return worker_main(*sc, opt);
    return parent_main(*sc, opt);
}

// sanitizer defaults when run by hand (workers get explicit options from the parent)
extern "C" __attribute__((used)) const char* __asan_default_options() { return "exitcode=77:detect_leaks=0:detect_stack_use_after_return=0:allocator_may_return_null=1"; }
extern "C" __attribute__((used)) const char* __ubsan_default_options() { return "halt_on_error=1:exitcode=77:print_stacktrace=1"; }
extern "C" __attribute__((used)) const char* __tsan_default_options() { return "exitcode=0:halt_on_error=0:report_signal_unsafe=0"; }
