// Minimal JSON value (parse + dump) for plans, replay files, evidence and known findings.
#pragma once

#include <cstdint>
#include <cstdio>
#include <cstdlib>
#include <cstring>
#include <map>
#include <stdexcept>
#include <string>
#include <vector>

namespace hj {

struct Json {
    enum T { Null, Bool, Int, Dbl, Str, Arr, Obj } t = Null;
    bool b = false;
    std::int64_t i = 0;
    double d = 0;
    std::string s;
    std::vector<Json> a;
    std::vector<std::pair<std::string, Json>> o;  // insertion ordered

    Json() = default;
    Json(bool v) : t(Bool), b(v) {}
    Json(int v) : t(Int), i(v) {}
    Json(unsigned v) : t(Int), i(v) {}
    Json(long v) : t(Int), i(v) {}
    Json(long long v) : t(Int), i(v) {}
    Json(unsigned long v) : t(Int), i(static_cast<std::int64_t>(v)) {}
    Json(unsigned long long v) : t(Int), i(static_cast<std::int64_t>(v)) {}
    Json(double v) : t(Dbl), d(v) {}
    Json(const char* v) : t(Str), s(v) {}
    Json(const std::string& v) : t(Str), s(v) {}
    static Json array() { Json j; j.t = Arr; return j; }
    static Json object() { Json j; j.t = Obj; return j; }

    Json& operator[](const std::string& k) {
        if (t == Null) t = Obj;
        for (auto& kv : o) if (kv.first == k) return kv.second;
        o.emplace_back(k, Json());
        return o.back().second;
    }
    const Json* find(const std::string& k) const {
        for (auto& kv : o) if (kv.first == k) return &kv.second;
        return nullptr;
    }
    std::int64_t num(const std::string& k, std::int64_t def = 0) const {
        const Json* j = find(k);
        if (!j) return def;
        if (j->t == Int) return j->i;
        if (j->t == Dbl) return static_cast<std::int64_t>(j->d);
        if (j->t == Bool) return j->b;
        return def;
    }
    std::string str(const std::string& k, const std::string& def = "") const {
        const Json* j = find(k);
        return j && j->t == Str ? j->s : def;
    }
    void push(Json v) { if (t == Null) t = Arr; a.push_back(std::move(v)); }

    static void esc(const std::string& in, std::string& out) {
        out += '"';
        for (unsigned char c : in) {
            switch (c) {
                case '"': out += "\\\""; break;
                case '\\': out += "\\\\"; break;
                case '\n': out += "\\n"; break;
                case '\r': out += "\\r"; break;
                case '\t': out += "\\t"; break;
                default:
                    if (c < 0x20 || c >= 0x7f) { char b[8]; snprintf(b, sizeof b, "\\u%04x", c); out += b; }
                    else out += static_cast<char>(c);
            }
        }
        out += '"';
    }
    void dump(std::string& out) const {
        switch (t) {
            case Null: out += "null"; break;
            case Bool: out += b ? "true" : "false"; break;
            case Int: out += std::to_string(i); break;
            case Dbl: { char buf[64]; snprintf(buf, sizeof buf, "%.6g", d); out += buf; break; }
            case Str: esc(s, out); break;
            case Arr: {
                out += '[';
                for (std::size_t k = 0; k < a.size(); ++k) { if (k) out += ','; a[k].dump(out); }
                out += ']';
                break;
            }
            case Obj: {
                out += '{';
                for (std::size_t k = 0; k < o.size(); ++k) { if (k) out += ','; esc(o[k].first, out); out += ':'; o[k].second.dump(out); }
                out += '}';
                break;
            }
        }
    }
    std::string dump() const { std::string s2; dump(s2); return s2; }

    // ---- parser
    struct P {
        const char* p; const char* e;
        void ws() { while (p < e && (*p == ' ' || *p == '\n' || *p == '\t' || *p == '\r')) ++p; }
        [[noreturn]] void bad(const char* m) { throw std::runtime_error(std::string("json: ") + m); }
        Json val() {
            ws();
            if (p >= e) bad("eof");
            if (*p == '{') {
                ++p; Json j = Json::object(); ws();
                if (p < e && *p == '}') { ++p; return j; }
                for (;;) {
                    ws(); if (p >= e || *p != '"') bad("key");
                    std::string k = strv(); ws();
                    if (p >= e || *p != ':') bad("colon");
                    ++p; j.o.emplace_back(k, val()); ws();
                    if (p < e && *p == ',') { ++p; continue; }
                    if (p < e && *p == '}') { ++p; return j; }
                    bad("obj");
                }
            }
            if (*p == '[') {
                ++p; Json j = Json::array(); ws();
                if (p < e && *p == ']') { ++p; return j; }
                for (;;) {
                    j.a.push_back(val()); ws();
                    if (p < e && *p == ',') { ++p; continue; }
                    if (p < e && *p == ']') { ++p; return j; }
                    bad("arr");
                }
            }
            if (*p == '"') return Json(strv());
            if (!strncmp(p, "true", 4)) { p += 4; return Json(true); }
            if (!strncmp(p, "false", 5)) { p += 5; return Json(false); }
            if (!strncmp(p, "null", 4)) { p += 4; return Json(); }
            const char* s0 = p;
            bool dbl = false;
            if (*p == '-') ++p;
            while (p < e && ((*p >= '0' && *p <= '9') || *p == '.' || *p == 'e' || *p == 'E' || *p == '+' || *p == '-')) {
                if (*p == '.' || *p == 'e' || *p == 'E') dbl = true;
                ++p;
            }
            if (p == s0) bad("value");
            std::string n(s0, p);
            if (dbl) return Json(strtod(n.c_str(), nullptr));
            return Json(static_cast<long long>(strtoll(n.c_str(), nullptr, 10)));
        }
        std::string strv() {
            ++p; std::string out;
            while (p < e && *p != '"') {
                if (*p == '\\') {
                    ++p; if (p >= e) bad("esc");
                    switch (*p) {
                        case 'n': out += '\n'; break; case 'r': out += '\r'; break; case 't': out += '\t'; break;
                        case 'b': out += '\b'; break; case 'f': out += '\f'; break;
                        case 'u': {
                            if (e - p < 5) bad("u");
                            unsigned v = static_cast<unsigned>(strtoul(std::string(p + 1, p + 5).c_str(), nullptr, 16));
                            p += 4;
                            if (v < 0x100) out += static_cast<char>(v);
                            else if (v < 0x800) { out += static_cast<char>(0xC0 | (v >> 6)); out += static_cast<char>(0x80 | (v & 0x3F)); }
                            else { out += static_cast<char>(0xE0 | (v >> 12)); out += static_cast<char>(0x80 | ((v >> 6) & 0x3F)); out += static_cast<char>(0x80 | (v & 0x3F)); }
                            break;
                        }
                        default: out += *p;
                    }
                    ++p;
                } else out += *p++;
            }
            if (p >= e) bad("str");
            ++p;
            return out;
        }
    };
    static Json parse(const std::string& text) {
        P ps{text.data(), text.data() + text.size()};
        return ps.val();
    }
};

}  // namespace hj
