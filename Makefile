# Builds simcheck-<variant> from /repo's current working tree + simkernel + harness + worlds.
# Variants: asan (default, ASan+UBSan), tsan (repo sources instrumented only), plain.
REPO    ?= /repo
VARIANT ?= asan
B       := .build/$(VARIANT)
CXX     := clang++
COMMON  := -std=c++20 -g -O1 -DNDEBUG -D_FILE_OFFSET_BITS=64 -fno-omit-frame-pointer -pthread -w
INC     := -I$(REPO)/include

ifeq ($(VARIANT),asan)
SAN_REPO := -fsanitize=address,undefined -fno-sanitize-recover=undefined -fno-sanitize=vptr
SAN_HARN := $(SAN_REPO)
SAN_LINK := $(SAN_REPO)
else ifeq ($(VARIANT),tsan)
SAN_REPO := -fsanitize=thread
SAN_HARN :=
SAN_LINK := -fsanitize=thread
else
SAN_REPO :=
SAN_HARN :=
SAN_LINK :=
endif

REPO_SRCS := $(shell find $(REPO)/src -name '*.cpp' ! -path '*/relay/main.cpp' ! -path '$(REPO)/src/main.cpp' | sort)
REPO_OBJS := $(patsubst $(REPO)/src/%.cpp,$(B)/repo/%.o,$(REPO_SRCS))
SK_SRCS   := $(wildcard simkernel/*.cpp)
SK_OBJS   := $(patsubst simkernel/%.cpp,$(B)/sk/%.o,$(SK_SRCS))
H_SRCS    := $(wildcard harness/*.cpp)
H_OBJS    := $(patsubst harness/%.cpp,$(B)/harness/%.o,$(H_SRCS))
W_SRCS    := $(wildcard worlds/*.cpp)
W_OBJS    := $(patsubst worlds/%.cpp,$(B)/worlds/%.o,$(W_SRCS))
OBJS      := $(REPO_OBJS) $(SK_OBJS) $(H_OBJS) $(W_OBJS)
BIN       := $(B)/simcheck

all: $(BIN)

$(BIN): $(OBJS)
	@echo "LINK $@"
	@$(CXX) $(SAN_LINK) -o $@ $(OBJS) -lcurl -ldl -lpthread

# UpdateCheck.cpp does not compile with clang 14 (vector of incomplete type); it is outside
# every claimed property (C38 n/a), so it is built with g++ and without instrumentation.
$(B)/repo/core/UpdateCheck.o: $(REPO)/src/core/UpdateCheck.cpp
	@mkdir -p $(dir $@)
	@echo "CXX(g++) $<"
	@g++ $(COMMON) $(INC) -MMD -MP -c $< -o $@

$(B)/repo/%.o: $(REPO)/src/%.cpp
	@mkdir -p $(dir $@)
	@echo "CXX $<"
	@$(CXX) $(COMMON) $(SAN_REPO) $(INC) -MMD -MP -c $< -o $@

$(B)/sk/%.o: simkernel/%.cpp
	@mkdir -p $(dir $@)
	@echo "CXX $<"
	@$(CXX) $(filter-out -D_FILE_OFFSET_BITS=64,$(COMMON)) -O2 -MMD -MP -c $< -o $@

$(B)/harness/%.o: harness/%.cpp
	@mkdir -p $(dir $@)
	@echo "CXX $<"
	@$(CXX) $(COMMON) $(SAN_HARN) -DREPO_ROOT='"$(REPO)"' -MMD -MP -c $< -o $@

# worlds see private members of repository classes (layout is unaffected); the wrapper that
# includes src/main.cpp is a repository translation unit and gets the repository flags.
$(B)/worlds/%.o: worlds/%.cpp
	@mkdir -p $(dir $@)
	@echo "CXX $<"
	@$(CXX) $(COMMON) $(if $(findstring eph_main_wrap,$<),$(SAN_REPO),$(SAN_HARN)) $(INC) -I$(REPO)/src -I. -DREPO_ROOT='"$(REPO)"' -fno-access-control -MMD -MP -c $< -o $@

clean:
	rm -rf .build

-include $(shell find $(B) -name '*.d' 2>/dev/null)

.PHONY: all clean
