// W2 — C33: STUN responses are parsed exactly and safely.
// The real NatTraversalManager::coordinate (resolver, UDP socket, 1.5 s receive timeout, parser in
// the anonymous namespace) runs in a simulated process against scripted STUN servers on the
// simulated UDP network. Each query is answered from the plan: correct Binding Success responses
// (MAPPED / XOR-MAPPED, IPv4 / IPv6, unknown attributes, padding) and mutants (wrong transaction id,
// other message types, lying lengths, short attributes, wrong families, truncation, garbage, late,
// duplicated, oversized). An independent RFC 5389 routine applied to the datagram the client
// consumed decides what the result must be. The receive buffer's unused tail is ASan-poisoned while
// the parser runs, so a read past the datagram is a sanitizer report.
#include "worlds/net_common.hpp"

#include "ephemeralnet/network/NatTraversal.hpp"

#include <arpa/inet.h>

using namespace wl;

namespace {

constexpr std::uint32_t kCookie = 0x2112A442u;

struct RefResult { bool ok = false; std::string address; std::uint16_t port = 0; };

// Reference acceptance (DESIGN A.9). strict: an attribute must fit inside the declared message
// length; otherwise it only has to fit inside the datagram.
RefResult ref_parse(const std::vector<std::uint8_t>& d, const std::array<std::uint8_t, 12>& tx, bool strict) {
    RefResult r;
    if (d.size() < 20) return r;
    const unsigned type = (d[0] << 8) | d[1];
    const std::size_t msg_len = (d[2] << 8) | d[3];
    if (type != 0x0101) return r;
    if (20 + msg_len > d.size()) return r;
    for (int i = 0; i < 12; ++i) if (d[8 + static_cast<std::size_t>(i)] != tx[static_cast<std::size_t>(i)]) return r;
    const std::size_t end = 20 + msg_len;
    std::size_t off = 20;
    while (off + 4 <= end) {
        const unsigned at = (d[off] << 8) | d[off + 1];
        const std::size_t al = (d[off + 2] << 8) | d[off + 3];
        if (strict ? off + 4 + al > end : (al > end - off || off + 4 + al > d.size())) break;
        const std::uint8_t* v = d.data() + off + 4;
        if ((at == 0x0001 || at == 0x0020) && al >= 4) {
            const bool x = at == 0x0020;
            const unsigned fam = v[1];
            std::uint16_t port = static_cast<std::uint16_t>((v[2] << 8) | v[3]);
            if (x) port ^= static_cast<std::uint16_t>(kCookie >> 16);
            if (fam == 1 && al >= 8) {
                std::uint8_t a[4] = {v[4], v[5], v[6], v[7]};
                if (x) { a[0] ^= 0x21; a[1] ^= 0x12; a[2] ^= 0xA4; a[3] ^= 0x42; }
                char buf[INET_ADDRSTRLEN]{};
                inet_ntop(AF_INET, a, buf, sizeof buf);
                r.ok = true; r.address = buf; r.port = port;
                return r;
            }
            if (fam == 2 && al >= 20) {
                std::uint8_t a[16];
                std::memcpy(a, v + 4, 16);
                if (x) { a[0] ^= 0x21; a[1] ^= 0x12; a[2] ^= 0xA4; a[3] ^= 0x42; for (int i = 0; i < 12; ++i) a[4 + i] ^= tx[static_cast<std::size_t>(i)]; }
                char buf[INET6_ADDRSTRLEN]{};
                inet_ntop(AF_INET6, a, buf, sizeof buf);
                r.ok = true; r.address = buf; r.port = port;
                return r;
            }
        }
        off += 4 + ((al + 3) & ~std::size_t{3});
    }
    return r;
}

void put16(std::vector<std::uint8_t>& d, unsigned v) { d.push_back(static_cast<std::uint8_t>(v >> 8)); d.push_back(static_cast<std::uint8_t>(v)); }

// builds the answer to one Binding Request from the op's parameters
std::vector<std::uint8_t> build_response(const Op& op, const std::array<std::uint8_t, 12>& tx) {
    sk::Rng g(static_cast<std::uint64_t>(op.at(6)) * 7919 + 13);
    const int type_sel = static_cast<int>(op.at(0)), tx_sel = static_cast<int>(op.at(1)), len_sel = static_cast<int>(op.at(2)), trunc_sel = static_cast<int>(op.at(3));
    std::vector<std::uint8_t> attrs;
    const int n_attrs = static_cast<int>(op.at(7));
    for (int i = 0; i < n_attrs; ++i) {
        const int kind = static_cast<int>(g.below(12));
        std::uint8_t addr[16];
        for (auto& b : addr) b = static_cast<std::uint8_t>(g.below(256));
        if (g.chance(1, 4)) { const std::uint8_t special[][4] = {{127, 0, 0, 1}, {10, 1, 2, 3}, {0, 0, 0, 0}, {255, 255, 255, 255}, {192, 168, 1, 1}, {100, 64, 0, 9}}; std::memcpy(addr, special[g.below(6)], 4); }
        if (g.chance(1, 6)) { std::memset(addr, 0, 16); if (g.chance(1, 2)) { addr[10] = addr[11] = 0xff; addr[12] = 10; addr[15] = 1; } else addr[15] = 1; }
        const unsigned port = g.chance(1, 8) ? 0 : static_cast<unsigned>(g.below(65536));
        auto emit_addr = [&](unsigned atype, unsigned family, std::size_t addr_len, std::size_t declared_len, bool pad_garbage) {
            const bool x = atype == 0x0020;
            put16(attrs, atype);
            put16(attrs, static_cast<unsigned>(declared_len));
            std::vector<std::uint8_t> v;
            v.push_back(static_cast<std::uint8_t>(g.below(2) ? 0 : g.below(256)));
            v.push_back(static_cast<std::uint8_t>(family));
            put16(v, x ? port ^ (kCookie >> 16) : port);
            for (std::size_t k = 0; k < addr_len; ++k) {
                std::uint8_t b = addr[k];
                if (x) { const std::uint8_t c[4] = {0x21, 0x12, 0xA4, 0x42}; b ^= k < 4 ? c[k] : tx[k - 4]; }
                v.push_back(b);
            }
            v.resize(declared_len, 0xEE);
            attrs.insert(attrs.end(), v.begin(), v.end());
            while (attrs.size() % 4) attrs.push_back(pad_garbage ? 0xDD : 0);
        };
        switch (kind) {
            case 0: emit_addr(0x0001, 1, 4, 8, false); break;
            case 1: emit_addr(0x0020, 1, 4, 8, false); break;
            case 2: emit_addr(0x0001, 2, 16, 20, false); break;
            case 3: emit_addr(0x0020, 2, 16, 20, false); break;
            case 4: emit_addr(g.chance(1, 2) ? 0x0001 : 0x0020, static_cast<unsigned>(g.pick<std::int64_t>({0, 3, 4, 255})), 4, 8, false); break;   // wrong family
            case 5: emit_addr(g.chance(1, 2) ? 0x0001 : 0x0020, 1, 0, static_cast<std::size_t>(g.range(0, 7)), true); break;                      // too short for IPv4
            case 6: emit_addr(g.chance(1, 2) ? 0x0001 : 0x0020, 2, 4, static_cast<std::size_t>(g.range(8, 19)), true); break;                     // too short for IPv6
            case 7: emit_addr(0x0020, 1, 4, 12, true); break;                                                                                        // longer than needed
            case 8: { put16(attrs, 0x8022); const std::size_t l = g.below(25); put16(attrs, static_cast<unsigned>(l)); for (std::size_t k = 0; k < l; ++k) attrs.push_back(static_cast<std::uint8_t>('a' + k % 26)); while (attrs.size() % 4) attrs.push_back(0); break; }
            case 9: { put16(attrs, static_cast<unsigned>(g.below(65536))); put16(attrs, 0); break; }                                                  // empty unknown attribute
            case 10: { put16(attrs, 0x0020); put16(attrs, static_cast<unsigned>(g.pick<std::int64_t>({0xffff, 0x8000, 600, 513}))); for (int k = 0; k < 8; ++k) attrs.push_back(static_cast<std::uint8_t>(g.below(256))); break; }  // length far beyond
            default: { put16(attrs, 0x0001); put16(attrs, 8); attrs.push_back(0); attrs.push_back(1); break; }                                       // header promises 8, only 2 follow (end of message)
        }
    }
    std::vector<std::uint8_t> d;
    const unsigned types[] = {0x0101, 0x0111, 0x0001, 0x0100, 0x0102, 0x0000, 0x8101, 0x0103};
    put16(d, types[type_sel % 8]);
    std::size_t msg_len = attrs.size();
    switch (len_sel) {
        case 1: msg_len += 4; break;
        case 2: msg_len = msg_len >= 4 ? msg_len - 4 : 0; break;
        case 3: msg_len += 1; break;
        case 4: msg_len = 0; break;
        case 5: msg_len = 0xffff; break;
        case 6: msg_len = msg_len >= 1 ? msg_len - 1 : 0; break;
        case 7: msg_len += 8; break;
        default: break;
    }
    put16(d, static_cast<unsigned>(msg_len & 0xffff));
    const std::uint8_t cookie[4] = {0x21, 0x12, 0xA4, 0x42};
    for (auto c : cookie) d.push_back(tx_sel == 5 ? static_cast<std::uint8_t>(c ^ 0xff) : c);
    auto t = tx;
    switch (tx_sel) {
        case 1: t[g.below(12)] ^= static_cast<std::uint8_t>(1u << g.below(8)); break;
        case 2: t.fill(0); break;
        case 3: std::reverse(t.begin(), t.end()); break;
        case 4: t[11] ^= 0x80; break;
        default: break;
    }
    d.insert(d.end(), t.begin(), t.end());
    d.insert(d.end(), attrs.begin(), attrs.end());
    switch (trunc_sel) {
        case 1: d.resize(g.below(d.size() + 1)); break;                                   // cut anywhere
        case 2: { const std::size_t extra = g.below(40); for (std::size_t k = 0; k < extra; ++k) d.push_back(static_cast<std::uint8_t>(g.below(256))); break; }  // trailing bytes
        case 3: d.resize(g.below(20)); break;                                              // shorter than a header
        case 4: while (d.size() < 600) d.push_back(static_cast<std::uint8_t>(g.below(256))); break;  // larger than the 512-byte receive buffer
        case 5: d.resize(d.size() >= 2 ? d.size() - static_cast<std::size_t>(g.range(1, 2)) : 0); break;  // last bytes missing
        case 6: { d.clear(); const std::size_t n = g.below(513); for (std::size_t k = 0; k < n; ++k) d.push_back(static_cast<std::uint8_t>(g.below(256))); break; }  // pure garbage
        default: break;
    }
    return d;
}

Plan gen_c33(sk::Rng& r, Tier) {
    Plan p;
    p.knobs["seed"] = static_cast<std::int64_t>(r.below(1u << 30));
    p.knobs["v4_a"] = r.range(0, 2); p.knobs["v6_a"] = r.range(0, 1);
    p.knobs["v4_b"] = r.range(0, 2); p.knobs["v6_b"] = r.range(0, 1);
    p.knobs["local_port"] = r.pick<std::int64_t>({1, 45000, 3478});
    const int n = static_cast<int>(r.range(1, 6));
    for (int i = 0; i < n; ++i) {
        Op op;
        op.k = "answer";
        const bool mostly_valid = r.chance(1, 2);
        op.a = {mostly_valid || r.chance(1, 2) ? 0 : static_cast<std::int64_t>(r.below(8)),          // message type
                mostly_valid || r.chance(1, 2) ? 0 : static_cast<std::int64_t>(r.below(6)),          // transaction id
                mostly_valid || r.chance(1, 2) ? 0 : static_cast<std::int64_t>(r.below(8)),          // declared message length
                mostly_valid || r.chance(2, 3) ? (r.chance(1, 4) ? 2 : 0) : static_cast<std::int64_t>(r.below(7)),  // datagram shaping
                r.pick<std::int64_t>({0, 0, 0, 200, 1000, 2600, -1}),                                 // delay ms; 2600 = after the timeout; -1 = no answer
                r.chance(1, 5) ? r.range(1, 2) : 0,                                                  // a second datagram behind the first (1 = copy, 2 = valid one with another address)
                static_cast<std::int64_t>(r.below(1u << 30)),
                r.range(0, 4)};
        p.ops.push_back(op);
    }
    return p;
}

void exec_c33(const Plan& p, Ctx& ctx) {
    struct Query { std::array<std::uint8_t, 12> tx{}; std::vector<std::uint8_t> consumed; bool any = false; bool well_formed_request = false; std::string server; };
    auto queries = std::make_shared<std::vector<Query>>();
    const auto ops = p.ops;
    auto handler_for = [&](const std::string& server) {
        return [queries, ops, server](const std::vector<std::uint8_t>& req, const std::string&) {
            std::vector<std::pair<std::int64_t, std::vector<std::uint8_t>>> out;
            Query q;
            q.server = server;
            q.well_formed_request = req.size() == 20 && req[0] == 0 && req[1] == 1 && req[2] == 0 && req[3] == 0 && req[4] == 0x21 && req[5] == 0x12 && req[6] == 0xA4 && req[7] == 0x42;
            if (req.size() >= 20) std::copy(req.begin() + 8, req.begin() + 20, q.tx.begin());
            const std::size_t idx = queries->size();
            if (idx < ops.size()) {
                const Op& op = ops[idx];
                const std::int64_t delay_ms = op.at(4);
                if (delay_ms >= 0) {
                    auto d = build_response(op, q.tx);
                    if (delay_ms < 1400) { q.any = true; q.consumed = d; if (q.consumed.size() > 512) q.consumed.resize(512); }
                    out.push_back({delay_ms * kMs, d});
                    if (op.at(5) == 1) out.push_back({delay_ms * kMs + 20 * kMs, d});
                    if (op.at(5) == 2) {
                        Op good = op; good.a = {0, 0, 0, 0, 0, 0, op.at(6) + 1, 1};
                        out.push_back({delay_ms * kMs + 20 * kMs, build_response(good, q.tx)});
                    }
                }
            }
            queries->push_back(std::move(q));
            return out;
        };
    };
    // resolver: each of the two built-in STUN host names resolves to 0..3 simulated servers
    auto serve = [&](const std::string& name, int v4, int v6, int base) {
        std::vector<std::string> addrs;
        for (int i = 0; i < v4; ++i) addrs.push_back("10.9." + std::to_string(base) + "." + std::to_string(1 + i));
        for (int i = 0; i < v6; ++i) addrs.push_back("2001:db8:" + std::to_string(base) + "::" + std::to_string(1 + i));
        for (auto& a : addrs) sk::udp_serve(a, 3478, handler_for(a));
        if (!addrs.empty()) sk::dns_set(name, addrs);
    };
    serve("stun.shardian.com", static_cast<int>(p.knob("v4_a", 1)), static_cast<int>(p.knob("v6_a", 0)), 1);
    serve("turn.shardian.com", static_cast<int>(p.knob("v4_b", 1)), static_cast<int>(p.knob("v6_b", 0)), 2);

    en::Config cfg = base_config(static_cast<std::uint32_t>(p.knob("seed", 1)));
    cfg.nat_stun_enabled = true;
    const auto local_port = static_cast<std::uint16_t>(p.knob("local_port", 45000));
    en::network::NatTraversalResult result;
    Actor node;
    node.start("stun-client", sk::ip(10, 0, 3, 1));
    node.call([&] {
        en::network::NatTraversalManager manager(cfg);
        result = manager.coordinate("0.0.0.0", local_port);
    });
    node.shutdown();
    ctx.ops_done = static_cast<int>(queries->size());

    // ---- oracle over the datagrams the client consumed, in query order
    RefResult expected;
    bool ambiguous = false;
    std::size_t answered = 0;
    for (std::size_t i = 0; i < queries->size(); ++i) {
        const auto& q = (*queries)[i];
        if (!q.well_formed_request) ctx.probe("odd_request");
        if (!q.any) { ctx.probe("query_unanswered_or_late"); continue; }
        ++answered;
        const auto strict = ref_parse(q.consumed, q.tx, true), lenient = ref_parse(q.consumed, q.tx, false);
        if (strict.ok != lenient.ok || strict.address != lenient.address || strict.port != lenient.port) { ambiguous = true; ctx.probe("attribute_overruns_declared_length"); break; }
        if (strict.ok) { expected = strict; ctx.probe("acceptable_response"); break; }
        ctx.probe("rejectable_response");
        if (i < p.ops.size()) {
            const auto& op = p.ops[i];
            if (op.at(1) != 0) ctx.boundary("wrong_transaction_id");
            if (op.at(0) % 8 != 0) ctx.boundary("not_binding_success");
            if (op.at(2) != 0 || op.at(3) != 0) ctx.boundary("lying_or_truncated");
        }
    }
    if (answered == 0) ctx.probe("nothing_consumed");
    ctx.state(queries->size() * 4 + (expected.ok ? 1 : 0) + (ambiguous ? 2 : 0));
    if (ambiguous) return;
    if (expected.ok) {
        if (!result.stun_succeeded)
            ctx.violate("C33.valid_response_rejected", fmt("a well-formed Binding Success response with matching transaction id carrying %s:%u was not accepted", expected.address.c_str(), expected.port));
        else if (result.external_address != expected.address)
            ctx.violate("C33.address_decoded_wrong", "the response carries " + expected.address + " but the node reports " + result.external_address);
        else {
            // the port is only observable through the diagnostic line (emitted when it is non-zero and differs from the listener's)
            std::string reported;
            for (auto& dline : result.diagnostics) { const auto pos = dline.find("STUN reported external port "); if (pos != std::string::npos) reported = dline.substr(pos + 28, dline.find(' ', pos + 28) - (pos + 28)); }
            const bool expect_line = expected.port != 0 && expected.port != local_port;
            if (expect_line && reported != std::to_string(expected.port)) ctx.violate("C33.port_decoded_wrong", fmt("the response carries port %u but the node reports '%s'", expected.port, reported.c_str()));
            if (!expect_line && !reported.empty()) ctx.violate("C33.port_decoded_wrong", fmt("the response carries port %u (listener %u) but the node reports '%s'", expected.port, local_port, reported.c_str()));
        }
    } else {
        if (result.stun_succeeded)
            ctx.violate("C33.invalid_response_accepted", "no consumed datagram was an acceptable Binding Success response, yet the node reports STUN success with " + result.external_address);
        else if (result.external_address != "0.0.0.0")
            ctx.violate("C33.address_without_success", "STUN failed but the external address became " + result.external_address);
    }
}

sk::Knobs c33_knobs(const Plan&) {
    sk::Knobs k;
    k.lat_max_ns = 2'000'000;
    k.max_steps = 400000;
    return k;
}

Scenario make_c33() {
    Scenario s;
    s.id = "C33"; s.world = "W2"; s.level = "exploration";
    s.technique = "deterministic simulation: the real NatTraversalManager (resolver, UDP socket, receive timeout, anonymous-namespace STUN parser) queries scripted STUN servers on the simulated UDP network; responses are generated per query from the plan (valid MAPPED/XOR-MAPPED IPv4/IPv6 and mutants of type, transaction id, lengths, families, truncation, garbage, late, duplicated, oversized); an independent RFC 5389 routine applied to the consumed datagrams decides the required result; ASan poisons the unused tail of the receive buffer";
    s.real_components = {"NatTraversalManager::coordinate / perform_stun_query", "parse_stun_response (anonymous namespace, reached through the socket path: no hook)"};
    s.stub_components = {"DNS resolver, UDP sockets and clock are simulated; STUN servers are scripted"};
    s.assumptions = {"an attribute that overruns the declared message length but stays inside the datagram is not judged (strict and lenient readings of 'well-formed' differ)",
                     "the decoded port is observable only through the diagnostic line, which exists when the port is non-zero and differs from the listener port"};
    s.rule = "plan = resolver layout (0..3 servers per host name, IPv4/IPv6), identity seed (server order, transaction ids), 1..6 answers (type, transaction id, declared length, shaping, delay, duplicate, attributes); non-trivial = at least one consumed datagram must be rejected; distinct = plan hash";
    s.gen = gen_c33; s.exec = exec_c33; s.kernel_knobs = c33_knobs;
    s.crash_is_violation = true;  // "never reads outside the datagram": a sanitizer report in the parser is the violation itself
    s.quick_runs = 20000; s.thorough_runs = 2000000; s.quick_secs = 45; s.thorough_secs = 900;
    return s;
}
Registrar reg_c33(make_c33);

}  // namespace
