// World W4 — daemon world: the real `eph serve` main (Node + ControlServer + serve loop + signal
// plumbing) as one simulated process, real `eph <command>` mains as further simulated processes,
// scripted control clients and byzantine endpoints. See DESIGN §4.
#pragma once

#include "worlds/net_common.hpp"

#include "ephemeralnet/daemon/ControlPlane.hpp"
#include "ephemeralnet/protocol/Manifest.hpp"
#include "ephemeralnet/protocol/Message.hpp"
#include "ephemeralnet/security/StoreProof.hpp"

#include <sstream>

namespace verif_w4 {
int run_cli(const std::vector<std::string>& args);
void reset_main_globals();
bool serve_loop_running();
// the Node (and its mutex) that the simulated daemon process `pid` serves; nullptr when it is not (or no longer) serving
ephemeralnet::Node* daemon_node(int pid);
std::mutex* daemon_node_mutex(int pid);
void reset_daemon_registry();
std::optional<std::vector<std::uint8_t>> cli_decrypt(const ephemeralnet::protocol::Manifest& manifest, const ephemeralnet::protocol::ChunkPayload& payload);
}  // namespace verif_w4

namespace wl {

// ---- per-process capture of std::cout / std::cerr / std::clog (C++ streams of the whole worker are
// routed through one streambuf that files every character under the simulated process that wrote it)
std::string& proc_stdout(int pid);
std::string& proc_stderr(int pid);
void capture_reset();

// ---- raw control-plane exchange (scripted client): what went over the wire, parsed independently
struct CtlReply {
    bool connected = false;
    bool got_status = false;
    bool ok = false;
    std::string raw;                                        // every byte received
    std::vector<std::pair<std::string, std::string>> lines; // header lines in order (key, value), as sent
    std::vector<std::uint8_t> payload;
    bool payload_complete = false;
    std::string field(const std::string& k) const { for (auto& kv : lines) if (kv.first == k) return kv.second; return ""; }
    bool has(const std::string& k) const { for (auto& kv : lines) if (kv.first == k) return true; return false; }
};

// Sends `request` (already formatted header block incl. the empty line, then optional body) from the calling
// fiber's process and reads until the server closes or `timeout_ms` passes. If withhold_body is set the body
// is never sent (the server must answer from the headers alone).
CtlReply ctl_exchange(const std::string& host, std::uint16_t port, const std::string& headers, const std::vector<std::uint8_t>& body,
                      bool withhold_body = false, std::int64_t timeout_ms = 20000, int fragments = 1);

std::string ctl_headers(const std::vector<std::pair<std::string, std::string>>& fields);

// reference store PoW (from the property text C19/C28): sha256(chunk_id || be64(size) || be32(len(name)) || name || be64(nonce))
std::array<std::uint8_t, 32> store_pow_digest(const std::vector<std::uint8_t>& payload, const std::string& name, std::uint64_t nonce);
bool ref_store_pow_ok(const std::vector<std::uint8_t>& payload, const std::string& sanitized_name, std::uint64_t nonce, int difficulty);
std::uint64_t ref_solve_store_pow(const std::vector<std::uint8_t>& payload, const std::string& sanitized_name, int difficulty, bool valid = true);

// ---- the real daemon
struct Daemon {
    int pid = -1;
    std::uint32_t host = sk::ip(10, 0, 8, 1);
    std::uint16_t control_port = 47777, transport_port = 45000;
    std::string storage_dir;
    std::optional<std::string> token;
    std::vector<std::string> extra_args;
    bool expose = true;  // bind the control plane on 0.0.0.0 so that other simulated hosts can reach it

    std::vector<std::string> base_args() const {
        std::vector<std::string> a{"eph", "--yes", "--control-port", std::to_string(control_port), "--transport-port", std::to_string(transport_port),
                                   "--storage-dir", storage_dir, "--identity-seed", "4242"};
        if (expose) a.push_back("--control-expose");
        if (token) { a.push_back("--control-token"); a.push_back(*token); }
        for (auto& e : extra_args) a.push_back(e);
        return a;
    }
    // runs f(node) on a fiber of the daemon's own process, under the daemon's node mutex (like a control command would)
    template <class F> bool with_node(F&& f) {
        auto* node = verif_w4::daemon_node(pid);
        auto* mutex = verif_w4::daemon_node_mutex(pid);
        if (!node || !mutex || !sk::alive(pid)) return false;
        std::scoped_lock lock(*mutex);
        f(*node);
        return true;
    }
    void start() {
        verif_w4::reset_main_globals();
        storage_dir = sk::scratch_dir() + "/daemon-storage";
        auto args = base_args();
        args.push_back("serve");
        pid = sk::spawn("daemon", host, [args] { return verif_w4::run_cli(args); }, 64u << 20);
    }
    // bounded wait until the control plane answers PING
    bool wait_ready(std::int64_t timeout_ms = 30000) {
        const std::int64_t deadline = sk::now_ns() + timeout_ms * kMs;
        while (sk::now_ns() < deadline && sk::alive(pid)) {
            auto r = ctl_exchange(ip_text(host), control_port, ctl_headers({{"COMMAND", "PING"}}), {}, false, 3000);
            if (r.got_status && r.ok) return true;
            sk::sleep_ns(200 * kMs);
        }
        return false;
    }
    bool ping(std::int64_t timeout_ms = 15000) {
        auto r = ctl_exchange(ip_text(host), control_port, ctl_headers({{"COMMAND", "PING"}}), {}, false, timeout_ms);
        return r.got_status && r.ok;
    }
    // orderly stop through the signal path (what Ctrl+C / SIGTERM does)
    void stop() {
        if (pid < 0 || !sk::alive(pid)) return;
        sk::deliver_signal(pid, SIGTERM);
        sk::wait_exit(pid, 120 * kSec);
    }
};

// run `eph <args...>` as its own simulated process on `host`; returns exit code, output in proc_stdout(pid)
struct CliRun { int pid = -1; int exit_code = -1; bool finished = false; sk::ExitKind kind = sk::ExitKind::Running; std::string out, err; };
CliRun run_eph(std::uint32_t host, const std::vector<std::string>& args, std::int64_t timeout_ns = 600 * kSec);

sk::Knobs w4_knobs(const Plan& p);
void gen_w4_knobs(Plan& p, sk::Rng& r);

}  // namespace wl
