// W2 — C23: upload concurrency limits hold and slots are always released.
// A real serving Node holds chunks; scripted peers with sessions send REQUESTs (also repeated ones
// for the same chunk while a transfer is outstanding), acknowledge some transfers and let others
// time out; the node ticks on its own.
#include "worlds/w2_rig.hpp"
#include "worlds/swarm_variant.hpp"

using namespace wl;

namespace {

Plan gen_c23(sk::Rng& r, Tier) {
    Plan p;
    gen_rig_knobs(p, r);
    p.knobs["parallel"] = r.pick<std::int64_t>({0, 1, 2, 3, 4});
    p.knobs["per_peer"] = r.pick<std::int64_t>({0, 1, 1, 2, 3});
    p.knobs["timeout"] = r.pick<std::int64_t>({2, 5, 30});
    p.knobs["peers"] = r.range(1, 3);
    p.knobs["tick_ms"] = r.pick<std::int64_t>({300, 1000});
    const int n = static_cast<int>(r.range(4, 26));
    for (int i = 0; i < n; ++i) {
        Op op;
        const auto c = r.below(100);
        if (c < 55) { op.k = "request"; op.a = {static_cast<std::int64_t>(r.below(3)), r.pick<std::int64_t>({0, 0, 1, 1, 2, 3, 4, 5, 6})}; }   // peer, chunk (0..4 held, 5 unknown, 6 expired)
        else if (c < 80) { op.k = "ack"; op.a = {static_cast<std::int64_t>(r.below(3)), static_cast<std::int64_t>(r.below(5)), static_cast<std::int64_t>(r.below(2))}; }
        else if (c < 85) { op.k = "drop"; op.a = {static_cast<std::int64_t>(r.below(3)), static_cast<std::int64_t>(r.below(2))}; }   // the peer's connection goes away (close / reset) with whatever it had asked for
        else { op.k = "wait"; op.a = {r.pick<std::int64_t>({50, 400, 1100, 2500, 6000, 31000})}; }
        p.ops.push_back(op);
    }
    if (p.knobs["peers"] >= 2 && r.chance(1, 4)) {
        // a request is still queued behind the global limit when its peer goes away; the slot frees later and the node tries to serve it
        p.knobs["parallel"] = 1;
        const std::int64_t t = p.knobs["timeout"] * 1000;
        auto push = [&](const char* k, std::vector<std::int64_t> a) { Op o; o.k = k; o.a = std::move(a); p.ops.push_back(o); };
        push("wait", {t + 3000});
        push("request", {0, 0}); push("request", {1, 1}); push("drop", {1, static_cast<std::int64_t>(r.below(2))});
        push("wait", {t + 2500}); push("wait", {7000}); push("wait", {1000});
    }
    if (r.chance(1, 3)) {
        // staggered transfers: a second upload starts shortly before the first one times out, then the peer asks for more
        const std::int64_t peer = static_cast<std::int64_t>(r.below(3)), t = p.knobs["timeout"] * 1000;
        std::vector<Op> tail;
        auto req = [&](std::int64_t k) { Op o; o.k = "request"; o.a = {peer, k}; tail.push_back(o); };
        auto wait = [&](std::int64_t ms) { Op o; o.k = "wait"; o.a = {ms}; tail.push_back(o); };
        wait(t + 3000);
        req(0); wait(t * 2 / 3); req(1); wait(t / 2 + 300);
        req(2); req(3); req(4); req(0);
        p.ops.insert(p.ops.end(), tail.begin(), tail.end());
    }
    return p;
}

void exec_c23(const Plan& p, Ctx& ctx) {
    const std::size_t parallel = static_cast<std::size_t>(p.knob("parallel", 3)), per_peer = static_cast<std::size_t>(p.knob("per_peer", 1));
    const std::int64_t timeout_s = p.knob("timeout", 30);
    en::Config c = base_config(71);
    c.upload_max_parallel_transfers = static_cast<std::uint16_t>(parallel);
    c.upload_max_transfers_per_peer = static_cast<std::uint16_t>(per_peer);
    c.upload_transfer_timeout = seconds(timeout_s);
    c.upload_reconsider_interval = seconds(1);
    c.min_manifest_ttl = seconds(1); c.max_manifest_ttl = seconds(7200);
    c.key_rotation_interval = seconds(3600); c.cleanup_interval = seconds(100000);
    Rig rig;
    rig.start_node(c, p.knob("tick_ms", 1000));
    const int npeers = static_cast<int>(p.knob("peers", 2));
    for (int i = 0; i < npeers; ++i) if (rig.add_peer(static_cast<std::uint8_t>(0x71 + i)) < 0) { ctx.violate("C23.setup_failed", "scripted handshake failed"); rig.stop(); return; }
    auto chunk_id = [](int k) { return make_id(static_cast<std::uint8_t>(0x20 + k), 0x81); };
    rig.node.run([&](en::Node& n) {
        for (int k = 0; k < 5; ++k) n.store_chunk(chunk_id(k), make_payload(200 + static_cast<std::size_t>(k) * 50, 700 + static_cast<std::uint64_t>(k)), seconds(3600));
        n.store_chunk(chunk_id(6), make_payload(64, 777), seconds(1));
    });
    sk::sleep_ns(1500 * kMs);  // chunk 6 is expired from here on

    // per peer: transfers the peer has received and not yet acknowledged, with the time the CHUNK frame was seen
    struct Transfer { int chunk; std::int64_t seen_at; };
    std::vector<std::vector<Transfer>> outstanding(static_cast<std::size_t>(npeers));
    std::vector<std::size_t> consumed(static_cast<std::size_t>(npeers), 0);
    std::vector<int> naks_expected(static_cast<std::size_t>(npeers), 0), naks_seen(static_cast<std::size_t>(npeers), 0);

    auto absorb = [&](int pi) {
        rig.drain(pi);
        RigPeer& peer = *rig.peers[static_cast<std::size_t>(pi)];
        for (; consumed[static_cast<std::size_t>(pi)] < peer.received.size(); ++consumed[static_cast<std::size_t>(pi)]) {
            const auto& m = peer.received[consumed[static_cast<std::size_t>(pi)]];
            if (auto* ch = std::get_if<pr::ChunkPayload>(&m.payload)) {
                int k = -1;
                for (int q = 0; q < 7; ++q) if (ch->chunk_id == chunk_id(q)) k = q;
                if (k == 5 || k == 6) ctx.violate("C23.unservable_chunk_served", fmt("a CHUNK frame was sent for %s chunk", k == 5 ? "an unknown" : "an expired"));
                outstanding[static_cast<std::size_t>(pi)].push_back({k, peer.received_at[consumed[static_cast<std::size_t>(pi)]]});
                ctx.probe("chunk_frames_received");
            } else if (auto* a = std::get_if<pr::AcknowledgePayload>(&m.payload)) {
                if (!a->accepted) ++naks_seen[static_cast<std::size_t>(pi)];
            }
        }
    };

    std::int64_t dropped_at[3] = {-1, -1, -1};  // when the peer's connection last went away: CHUNK frames then in flight were never seen by the driver
    auto check_limits = [&](const char* when) {
        std::size_t active = 0, peak = 0;
        std::map<std::string, std::size_t> per;
        rig.node.run([&](en::Node& n) {
            std::unique_lock<std::recursive_mutex> lock(n.scheduler_mutex_);
            active = n.active_uploads_.size();
            per = {n.active_uploads_per_peer_.begin(), n.active_uploads_per_peer_.end()};
            // what counts is the number of transfers really in flight per peer, not only the node's own counter
            std::map<std::string, std::size_t> real;
            for (const auto& entry : n.active_uploads_) ++real[en::peer_id_to_string(entry.second.peer_id)];
            for (auto& [k, v] : real) if (v > per[k]) { per[k] = v; ctx.probe("slot_counter_below_transfers_in_flight"); }
            peak = n.peak_active_uploads_.load();
        });
        if (parallel != 0 && (active > parallel || peak > parallel))
            ctx.violate("C23.global_limit", fmt("%zu uploads active (peak %zu) with a global limit of %zu (%s)", active, peak, parallel, when));
        for (int pi = 0; pi < npeers; ++pi) {
            const auto key = en::peer_id_to_string(rig.peers[static_cast<std::size_t>(pi)]->ident.id);
            const std::size_t cnt = per.count(key) ? per[key] : 0;
            if (per_peer != 0 && cnt > per_peer) ctx.violate("C23.per_peer_limit", fmt("peer %d has %zu uploads in flight with a per-peer limit of %zu (%s)", pi, cnt, per_peer, when));
            // the driver's own ledger from frames it saw: transfers neither acknowledged nor old enough to have timed out
            absorb(pi);
            auto& out = outstanding[static_cast<std::size_t>(pi)];
            if (per_peer != 0 && out.size() > per_peer) {
                // more CHUNK frames outstanding at the peer than the limit allows (none acknowledged, none timed out yet)
                std::size_t fresh = 0;
                // `seen_at` is when the frame reached the peer, the node's timeout runs from the dispatch, one network delay earlier:
                // a transfer counts as certainly alive only while it is younger than the timeout minus that delay
                const std::int64_t slack = p.knob("lat_max_us", 1000) * 1000 * 2 + 20 * kMs;
                for (auto& t : out) if (sk::now_ns() - t.seen_at < timeout_s * kSec - slack) ++fresh;
                if (fresh > per_peer) ctx.violate("C23.per_peer_limit_on_wire", fmt("peer %d holds %zu unacknowledged transfers younger than the timeout; per-peer limit %zu (%s)", pi, fresh, per_peer, when));
            }
            // slots released: nothing outstanding that could still be alive => counter must be zero
            bool any_alive = false;
            for (auto& t : out) if (sk::now_ns() - t.seen_at < (timeout_s + 3) * kSec + 2 * p.knob("tick_ms", 1000) * kMs) any_alive = true;
            // a transfer dispatched just before the peer went away may be counted although its frame was never seen here
            if (dropped_at[pi] >= 0 && sk::now_ns() - dropped_at[pi] < (timeout_s + 3) * kSec + 2 * p.knob("tick_ms", 1000) * kMs) any_alive = true;
            if (!any_alive && cnt != 0) {
                // give the node one more tick: pruning happens on tick
                sk::sleep_ns(2 * p.knob("tick_ms", 1000) * kMs + kSec);
                std::size_t again = 0;
                rig.node.run([&](en::Node& n) { std::unique_lock<std::recursive_mutex> lock(n.scheduler_mutex_); auto it = n.active_uploads_per_peer_.find(key); again = it == n.active_uploads_per_peer_.end() ? 0 : it->second; });
                absorb(pi);
                bool alive2 = dropped_at[pi] >= 0 && sk::now_ns() - dropped_at[pi] < (timeout_s + 3) * kSec + 2 * p.knob("tick_ms", 1000) * kMs;
                for (auto& t : out) if (sk::now_ns() - t.seen_at < (timeout_s + 3) * kSec + 2 * p.knob("tick_ms", 1000) * kMs) alive2 = true;
                if (!alive2 && again != 0)
                    ctx.violate("C23.slot_leak", fmt("peer %d: every transfer was acknowledged or timed out, yet its in-use slot count is %zu (%s)", pi, again, when));
                any_alive = alive2;  // a CHUNK frame that was still in flight may have arrived meanwhile
            }
            if (!any_alive) out.clear();
        }
        ctx.state(active * 16 + per.size());
    };

    for (auto& op : p.ops) {
        ++ctx.ops_done;
        if (op.k == "drop") {
            const int di = static_cast<int>(op.at(0)) % npeers;
            RigPeer& dp = *rig.peers[static_cast<std::size_t>(di)];
            if (!dp.up) continue;
            absorb(di);
            dp.actor.call([&] { if (op.at(1)) { linger lg{1, 0}; ::setsockopt(dp.conn.fd, SOL_SOCKET, SO_LINGER, &lg, sizeof lg); } dp.conn.close_now(); });
            dp.up = false;
            dropped_at[di] = sk::now_ns();
            ctx.fault(op.at(1) ? "peer_connection_reset" : "peer_connection_closed");
            sk::sleep_ns(50 * kMs);
            check_limits("after a peer went away");
            continue;
        }
        if (op.k == "wait") { sk::sleep_ns(op.at(0) * kMs); for (int pi = 0; pi < npeers; ++pi) rig.drain(pi); check_limits("after wait"); continue; }
        const int pi = static_cast<int>(op.at(0)) % npeers;
        RigPeer& peer = *rig.peers[static_cast<std::size_t>(pi)];
        if (!peer.up) {  // a peer that went away comes back with a new session before it asks or acknowledges again
            if (!rig.reconnect(pi)) { ctx.probe("reconnect_failed"); continue; }
            ctx.boundary("peer_reconnected_after_going_away");
        }
        if (op.k == "request") {
            const int k = static_cast<int>(op.at(1));
            absorb(pi);
            for (auto& t : outstanding[static_cast<std::size_t>(pi)]) if (t.chunk == k) { ctx.boundary("repeated_request_while_outstanding"); if (per_peer != 1) ctx.boundary("repeated_request_with_per_peer_limit_above_1"); break; }
            pr::Message m{};
            m.type = pr::MessageType::Request;
            m.payload = pr::RequestPayload{chunk_id(k), peer.ident.id};
            if (k >= 5) ++naks_expected[static_cast<std::size_t>(pi)];
            if (!rig.send(pi, m) || !rig.barrier(pi)) { ctx.violate("C23.session_lost", "session of a requesting peer broke: " + peer.conn.last_error); break; }
            absorb(pi);
            if (k >= 5 && naks_seen[static_cast<std::size_t>(pi)] < naks_expected[static_cast<std::size_t>(pi)])
                ctx.violate("C23.no_negative_ack", fmt("request for %s chunk was not answered with a negative acknowledgement", k == 5 ? "an unknown" : "an expired"));
            check_limits("after request");
        } else if (op.k == "ack") {
            const int k = static_cast<int>(op.at(1));
            absorb(pi);
            auto& out = outstanding[static_cast<std::size_t>(pi)];
            auto it = std::find_if(out.begin(), out.end(), [&](const Transfer& t) { return t.chunk == k; });
            if (it == out.end()) continue;
            pr::Message m{};
            m.type = pr::MessageType::Acknowledge;
            m.payload = pr::AcknowledgePayload{chunk_id(k), peer.ident.id, op.at(2) != 0};
            if (!rig.send(pi, m) || !rig.barrier(pi)) { ctx.violate("C23.session_lost", "session of an acknowledging peer broke"); break; }
            // one acknowledgement releases the transfer of that chunk (the node keys transfers by peer and chunk)
            out.erase(std::remove_if(out.begin(), out.end(), [&](const Transfer& t) { return t.chunk == k; }), out.end());
            ctx.probe("acks_sent");
            check_limits("after ack");
        }
    }
    // settle: past every timeout, everything must be released
    sk::sleep_ns((timeout_s + 5) * kSec + 3 * p.knob("tick_ms", 1000) * kMs);
    for (int pi = 0; pi < npeers; ++pi) { rig.drain(pi); absorb(pi); }
    check_limits("final");
    std::size_t left = 0;
    rig.node.run([&](en::Node& n) { std::unique_lock<std::recursive_mutex> lock(n.scheduler_mutex_); left = n.active_uploads_per_peer_.size() + n.active_uploads_.size(); });
    (void)left;
    rig.stop();
}

Scenario make_c23() {
    Scenario s;
    s.id = "C23"; s.world = "W2"; s.level = "exploration";
    s.technique = "deterministic simulation: scripted peers with real sessions issue REQUEST/ACK sequences (incl. repeated requests for a chunk in flight, unknown and expired chunks) against a real serving Node that ticks on its own; limits are checked on the node's counters and on the driver's own ledger of CHUNK frames, slot release after every acknowledgement and timeout";
    s.real_components = {"Node (handle_request, process_pending_uploads, dispatch_upload, note_upload_start/end, prune_stale_uploads, handle_acknowledge, tick)", "SessionManager", "ChunkStore", "Message codec"};
    s.stub_components = {"OS: threads -> fibers, sockets -> simulated TCP, clock, entropy", "requesting peers are scripted processes"};
    s.assumptions = {"a transfer counts as possibly alive until upload_transfer_timeout + 3 s + two tick periods after the peer saw its CHUNK frame (pruning happens on ticks)"};
    s.rule = "plan = global limit 0..4, per-peer limit 0..3, transfer timeout {2,5,30 s}, 1..3 peers, tick period, network knobs + 4..26 ops (request for held/unknown/expired chunk, positive/negative ack, waits up to past the timeout, a peer's connection closed or reset with requests queued or transfers in flight, the peer coming back with a new session); in a quarter of the runs with two peers a request is still queued behind a global limit of 1 when its peer goes away and the slot frees later; non-trivial = a request repeated for a chunk whose transfer is still outstanding; distinct = plan hash";
    s.gen = gen_c23; s.exec = exec_c23; s.kernel_knobs = rig_knobs;
    s.quick_runs = 2500; s.thorough_runs = 100000; s.quick_secs = 50; s.thorough_secs = 900;
    add_swarm_variant(s, 15);
    return s;
}
Registrar reg_c23(make_c23);

}  // namespace
