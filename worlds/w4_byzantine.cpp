// W4 — C35: no remote input can crash the node or the daemon.
// The real `eph serve` main runs as a simulated process with its real signal dispositions. Byzantine
// transport peers (pre-handshake bytes, malformed handshakes, validly signed messages with adversarial
// manifests / shard sets / lengths, disconnects and resets at awkward moments) and byzantine control
// clients (arbitrary header bytes, lying lengths, forged manifests, early close) interleave with honest
// ones. Oracle: the daemon process never ends (uncaught exception = std::terminate, SIGPIPE, abort),
// no sanitizer report, and after the attackers are gone an honest PING, LIST and transport handshake
// complete within 60 simulated seconds.
#include "worlds/w4_common.hpp"

#include "ephemeralnet/crypto/CryptoManager.hpp"
#include "ephemeralnet/crypto/Shamir.hpp"
#include "ephemeralnet/protocol/Manifest.hpp"

using namespace wl;

namespace {

namespace pr = ephemeralnet::protocol;

constexpr int kManifestForgeries = 13;
const char* forgery_name[] = {"valid", "duplicate_shard_index", "zero_shard_index", "threshold_above_shards", "threshold_zero", "255_shards", "expiry_far_future",
                              "expiry_past", "total_below_shards", "huge_metadata", "identical_shards", "single_zero_index_shard", "all_indices_255"};

// a manifest for `plain` whose structure is adversarial in the way `kind` says (still encodable)
pr::Manifest forge_manifest(const pr::Manifest& base, int kind, sk::Rng& g) {
    pr::Manifest m = base;
    auto shard = [&](std::uint8_t index) { pr::KeyShard s{}; s.index = index; for (auto& b : s.value) b = static_cast<std::uint8_t>(g.below(256)); return s; };
    switch (kind) {
        case 1: if (m.shards.size() >= 2) m.shards[1].index = m.shards[0].index; else { m.shards = {shard(1), shard(1)}; m.threshold = 2; m.total_shares = 2; } break;
        case 2: if (!m.shards.empty()) m.shards[0].index = 0; break;
        case 3: m.threshold = static_cast<std::uint8_t>(m.shards.size() + 1); break;
        case 4: m.threshold = 0; break;
        case 5: m.shards.clear(); for (int i = 1; i <= 255; ++i) m.shards.push_back(shard(static_cast<std::uint8_t>(i))); m.threshold = 255; m.total_shares = 255; break;
        case 6: m.expires_at = std::chrono::system_clock::time_point::max(); break;
        case 7: m.expires_at = std::chrono::system_clock::time_point{} + std::chrono::seconds(5); break;
        case 8: m.total_shares = 1; break;
        case 9: m.metadata["filename"] = std::string(60000, 'A'); break;
        case 10: m.shards = {shard(7), shard(7), shard(7)}; m.shards[1] = m.shards[0]; m.shards[2] = m.shards[0]; m.threshold = 3; m.total_shares = 3; break;
        case 11: m.shards = {shard(0)}; m.threshold = 1; m.total_shares = 1; break;
        case 12: m.shards = {shard(255), shard(255)}; m.threshold = 2; m.total_shares = 2; break;
        default: break;
    }
    return m;
}

// endpoints a peer may announce for itself: they are stored as contacts and parsed later, when the node next plans a
// swarm (a further announce, a local store) or retries a fetch
const char* kNastyEndpoints[] = {"198.51.100.7:99999999999999999999999999", "198.51.100.7:18446744073709551616", "198.51.100.7:", ":4000", ":", "198.51.100.7:-1", "198.51.100.7:0", "198.51.100.7:65536",
                                 "198.51.100.7:+80", "198.51.100.7: 80", "[::1]:80", "198.51.100.7:80:80", "198.51.100.7:0x50", "198.51.100.7:4294967296", "\x01\x02:7", "198.51.100.7:80\n", "host:\xd9\xa3\xd9\xa3"};
constexpr std::size_t kNastyEndpointCount = sizeof kNastyEndpoints / sizeof kNastyEndpoints[0];

// A validly encoded ANNOUNCE or CHUNK whose length fields lie: each u32 that holds the true length of a variable part is found in
// the encoding by its value (layout-independent) and rewritten - one field huge, or two fields changed by opposite amounts so that
// their sum is unchanged modulo 2^32 (the sum-wrap an unchecked 32-bit addition falls for), or off by a few bytes.
std::vector<std::uint8_t> encoding_with_lying_lengths(sk::Rng& g, const en::PeerId& self) {
    pr::Message m{};
    m.version = static_cast<std::uint8_t>(g.pick<std::int64_t>({1, 2, 3, 4, 4}));
    std::vector<std::uint32_t> truths;
    if (g.chance(3, 4)) {
        m.type = pr::MessageType::Announce;
        pr::AnnouncePayload an{};
        an.chunk_id = make_id(static_cast<std::uint8_t>(g.below(256)), 0x3a); an.peer_id = self;
        an.endpoint = std::string(17, 'e'); an.manifest_uri = std::string(35, 'm'); an.assigned_shards = std::vector<std::uint8_t>(5, 3); an.ttl = std::chrono::seconds(600);
        m.payload = an;
        truths = {17, 35, 5};
    } else {
        m.type = pr::MessageType::Chunk;
        pr::ChunkPayload cp{};
        cp.chunk_id = make_id(static_cast<std::uint8_t>(g.below(256)), 0x3b); cp.data.assign(41, 0x44); cp.ttl = std::chrono::seconds(600);
        m.payload = cp;
        truths = {41};
    }
    auto bytes = pr::encode(m);
    auto find_u32 = [&](std::uint32_t v) -> std::ptrdiff_t {
        for (std::size_t i = 0; i + 4 <= bytes.size(); ++i) if (bytes[i] == (v >> 24) && bytes[i + 1] == ((v >> 16) & 255) && bytes[i + 2] == ((v >> 8) & 255) && bytes[i + 3] == (v & 255)) return static_cast<std::ptrdiff_t>(i);
        return -1;
    };
    auto put_u32 = [&](std::ptrdiff_t at, std::uint32_t v) { if (at < 0) return; bytes[static_cast<std::size_t>(at)] = static_cast<std::uint8_t>(v >> 24); bytes[static_cast<std::size_t>(at) + 1] = static_cast<std::uint8_t>(v >> 16); bytes[static_cast<std::size_t>(at) + 2] = static_cast<std::uint8_t>(v >> 8); bytes[static_cast<std::size_t>(at) + 3] = static_cast<std::uint8_t>(v); };
    std::vector<std::ptrdiff_t> at;
    for (auto t : truths) at.push_back(find_u32(t));
    const std::size_t a = g.below(truths.size()), b = (a + 1 + g.below(std::max<std::size_t>(truths.size() - 1, 1))) % truths.size();
    switch (g.below(6)) {
        case 0: put_u32(at[a], static_cast<std::uint32_t>(g.pick<std::int64_t>({0xffffffffLL, 0x80000000LL, 0x7fffffffLL, 0xfffffff0LL}))); break;
        case 1: put_u32(at[a], truths[a] + static_cast<std::uint32_t>(g.pick<std::int64_t>({1, 2, 31, 4096}))); break;
        case 2: put_u32(at[a], truths[a] - std::min<std::uint32_t>(truths[a], static_cast<std::uint32_t>(g.range(1, 5)))); break;
        default: {
            // opposite changes: the sum of the declared lengths is what it was, modulo 2^32
            const std::uint32_t k = static_cast<std::uint32_t>(g.pick<std::int64_t>({1, 8, 16, 25, 4096}));
            if (truths.size() > 1) { put_u32(at[a], truths[a] - k); put_u32(at[b], truths[b] + k); }   // a wraps below zero when k > its true length
            else put_u32(at[a], truths[a] - k);
            break;
        }
    }
    return bytes;
}

Plan gen_c35(sk::Rng& r, Tier) {
    Plan p;
    gen_w4_knobs(p, r);
    p.knobs["deschedule"] = r.pick<std::int64_t>({0, 0, 30, 200});   // long preemptions of arbitrary threads
    p.knobs["token"] = r.chance(1, 4);
    p.knobs["stored_size"] = r.pick<std::int64_t>({900, 900, 900, 150000, 600000});  // the chunk the daemon holds; the larger ones exceed what the socket buffers absorb
    const int n = static_cast<int>(r.range(3, 10));
    for (int i = 0; i < n; ++i) {
        Op op;
        const auto c = r.below(100);
        if (c < 12) { op.k = "t_pre_bytes"; op.a = {r.pick<std::int64_t>({0, 1, 31, 32, 33, 35, 36, 40, 700}), static_cast<std::int64_t>(r.below(3)), static_cast<std::int64_t>(r.below(1u << 30))}; }
        else if (c < 22) { op.k = "t_pre_len"; op.a = {r.pick<std::int64_t>({0, 1, 3, 19, 0x7fffffff, 0xffffffffLL, 65536, 1048576, 1048577, 16 << 20}), r.pick<std::int64_t>({0, 1, 19, 200}), static_cast<std::int64_t>(r.below(3))}; }
        else if (c < 32) { op.k = "t_hs_shape"; op.a = {r.chance(1, 4) ? 7 : static_cast<std::int64_t>(r.below(7)), static_cast<std::int64_t>(r.below(3)), static_cast<std::int64_t>(r.below(1u << 30))}; }
        else if (c < 62) {
            op.k = "t_session";  // three signed/unsigned actions on an established session, then how the peer leaves
            op.a = {static_cast<std::int64_t>(r.below(16)), static_cast<std::int64_t>(r.below(16)), static_cast<std::int64_t>(r.below(16)),
                    static_cast<std::int64_t>(r.below(kManifestForgeries)), static_cast<std::int64_t>(r.below(3)), static_cast<std::int64_t>(r.below(1u << 30)), r.pick<std::int64_t>({1, 2, 3, 4, 4, 17})};
            // actions 14/15: ask for the held chunk and stop draining the socket (entirely / to a trickle); mostly the peer then just stays
            if ((op.a[0] >= 14 || op.a[1] >= 14 || op.a[2] >= 14) && r.chance(2, 3)) op.a[4] = 2;
        }
        else if (c < 70) { op.k = "t_poison"; op.a = {static_cast<std::int64_t>(r.below(17)), r.chance(3, 4) ? 0 : static_cast<std::int64_t>(r.below(kManifestForgeries)), static_cast<std::int64_t>(r.below(3)), static_cast<std::int64_t>(r.below(1u << 30)), static_cast<std::int64_t>(r.below(2))}; }
        else if (c < 82) { op.k = "c_raw"; op.a = {static_cast<std::int64_t>(r.below(24)), static_cast<std::int64_t>(r.below(4)), static_cast<std::int64_t>(r.below(1u << 30))}; }
        else if (c < 90) { op.k = "c_fetch_forged"; op.a = {static_cast<std::int64_t>(r.below(kManifestForgeries)), static_cast<std::int64_t>(r.below(2)), static_cast<std::int64_t>(r.below(1u << 30)), static_cast<std::int64_t>(r.below(3))}; }
        else { op.k = "honest"; op.a = {static_cast<std::int64_t>(r.below(4))}; }
        p.ops.push_back(op);
    }
    return p;
}

struct Env {
    Daemon d;
    std::string host;
    en::PeerId daemon_id{};
    std::uint32_t daemon_pub = 0;
    int hs_bits = 0;
    int announce_bits = 0;
    pr::Manifest stored;                // manifest of a chunk the daemon really holds
    std::vector<std::uint8_t> stored_plain;
    std::optional<std::string> token;
    int next_peer = 1;
};

void leave(PeerConn& c, int how) {
    if (c.fd < 0) return;
    if (how == 0) { c.close_now(); return; }                                                  // orderly close
    if (how == 1) { linger lg{1, 0}; ::setsockopt(c.fd, SOL_SOCKET, SO_LINGER, &lg, sizeof lg); ::close(c.fd); c.fd = -1; c.reap_reader(); return; }  // reset
    // how == 2: stay connected and silent; the descriptor is closed when the scripted process ends
}

bool honest_handshake(Env& e, Actor& a, int tag, std::int64_t timeout_ms) {
    bool ok = false;
    a.call([&] {
        PeerConn c;
        const PeerIdentity me = PeerIdentity::make(static_cast<std::uint8_t>(0xE0 + tag % 16), 7000003u + static_cast<std::uint32_t>(tag) * 104729u);
        ok = scripted_handshake(c, me, e.daemon_id, e.daemon_pub, e.hs_bits, e.host, e.d.transport_port, timeout_ms);
        c.close_now();
    });
    return ok;
}

void exec_c35(const Plan& p, Ctx& ctx) {
    capture_reset();
    Env e;
    e.d.extra_args = {"--min-ttl", "5", "--max-ttl", "7200", "--default-ttl", "900"};
    if (p.knob("token", 0)) { e.token = "tok-35"; e.d.token = e.token; }
    e.d.start();
    if (!e.d.wait_ready()) { ctx.violate("C35.setup_failed", "daemon did not answer PING: " + sk::info(e.d.pid).exit_detail); e.d.stop(); return; }
    e.host = ip_text(e.d.host);
    const en::Config defaults{};
    e.hs_bits = defaults.handshake_pow_difficulty;
    e.announce_bits = defaults.announce_pow_difficulty;
    Actor honest;
    honest.start("honest", sk::ip(10, 0, 9, 1));
    // set-up: an honest STORE (the daemon then holds a chunk; its manifest tells us the daemon's identity)
    {
        const auto pl = make_payload(static_cast<std::size_t>(p.knob("stored_size", 900)), 35001);
        e.stored_plain.assign(pl.begin(), pl.end());
        std::vector<std::pair<std::string, std::string>> f{{"COMMAND", "STORE"}, {"TTL", "900"}, {"STORE-POW", std::to_string(ref_solve_store_pow(e.stored_plain, "", 6))}, {"PAYLOAD-LENGTH", std::to_string(e.stored_plain.size())}};
        if (e.token) f.push_back({"TOKEN", *e.token});
        CtlReply rep;
        honest.call([&] { rep = ctl_exchange(e.host, e.d.control_port, ctl_headers(f), e.stored_plain); });
        if (!rep.ok) { ctx.violate("C35.setup_failed", "honest STORE failed: " + rep.field("CODE")); honest.shutdown(); e.d.stop(); return; }
        try { e.stored = pr::decode_manifest(rep.field("MANIFEST")); } catch (...) { ctx.violate("C35.setup_failed", "manifest of the honest STORE does not decode"); honest.shutdown(); e.d.stop(); return; }
        const auto pid = en::peer_id_from_string(e.stored.metadata["publisher_peer"]);
        if (!pid) { ctx.violate("C35.setup_failed", "no publisher identity in the manifest"); honest.shutdown(); e.d.stop(); return; }
        e.daemon_id = *pid;
        e.daemon_pub = static_cast<std::uint32_t>(std::stoul(e.stored.metadata["publisher_public"]));
        e.hs_bits = e.stored.security.token_challenge_bits;
    }
    // a manifest for a chunk the daemon does not hold (issued by another node)
    pr::Manifest foreign;
    std::vector<std::uint8_t> foreign_cipher;
    {
        en::Node other(make_id(0x35, 0x01), base_config(3535));
        const auto pl = make_payload(300, 35002);
        en::ChunkData data(pl.begin(), pl.end());
        en::ChunkId id{};
        const auto dg = en::crypto::Sha256::digest(std::span<const std::uint8_t>(data));
        std::copy(dg.begin(), dg.end(), id.begin());
        foreign = other.store_chunk(id, data, std::chrono::seconds(900));
        if (auto rec = other.export_chunk_record(id)) foreign_cipher = rec->data;
    }

    std::vector<std::unique_ptr<Actor>> attackers;
    auto attacker = [&]() -> Actor& {
        attackers.push_back(std::make_unique<Actor>());
        attackers.back()->start("byz" + std::to_string(attackers.size()), sk::ip(10, 0, 9, static_cast<std::uint8_t>(10 + attackers.size())));
        return *attackers.back();
    };
    auto daemon_gone = [&](const std::string& after) {
        if (sk::alive(e.d.pid)) return false;
        const auto info = sk::info(e.d.pid);
        const char* how = info.exit == sk::ExitKind::SigPipe ? "sigpipe" : info.exit == sk::ExitKind::Terminate ? "terminate" : info.exit == sk::ExitKind::Exception ? "exception" : "exit";
        const char* surface = after.rfind("c_", 0) == 0 ? "control_request" : after.rfind("t_", 0) == 0 ? "transport_peer" : "afterwards";
        ctx.violate(std::string("C35.daemon_died.") + how + "." + surface, "the daemon process ended after " + after + ": " + info.exit_detail.substr(0, 400));
        return true;
    };

    bool dead = false;
    int opn = 0;
    int stalled_control = 0, stalled_transport = 0;  // byzantine connections left open and silent so far
    // an honest request made while silent attackers are still connected may have to wait for the daemon to give up on them
    // ... and a peer that asked for the held chunk and reads a trickle (or nothing) may keep the sender, and with it the node, for as long as
    // the repaired send allows one frame: 5 s without progress, or 5 s + size / 16 KiB/s in all, plus one more stall period for the call in flight
    int hard_of_hearing_peers = 0;
    auto honest_bound_ms = [&] { return 60000 + 16000 * stalled_control + 3000 * stalled_transport + hard_of_hearing_peers * (10000 + static_cast<int>(e.stored_plain.size() / 16384) * 1000); };
    for (auto& op : p.ops) {
        ++ctx.ops_done;
        ++opn;
        if (dead) break;
        std::string label = op.k;
        if (op.k == "honest") {
            const int what = static_cast<int>(op.at(0));
            const std::int64_t give_up = sk::now_ns() + honest_bound_ms() * kMs;
            if (stalled_control + stalled_transport > 0) ctx.boundary("honest_request_while_silent_attackers_connected");
            if (what == 0) { bool ok = false; honest.call([&] { while (!ok && sk::now_ns() < give_up && sk::alive(e.d.pid)) ok = e.d.ping(10000); }); if (!ok && sk::alive(e.d.pid)) ctx.violate("C35.honest_ping_unanswered", fmt("an honest PING between attacks got no answer within %d s (%d silent control, %d silent transport connections open)", honest_bound_ms() / 1000, stalled_control, stalled_transport)); }
            else if (what == 1) { bool ok = false; for (int i = 0; !ok && sk::now_ns() < give_up && sk::alive(e.d.pid); ++i) ok = honest_handshake(e, honest, opn * 8 + i, 10000); if (!ok && sk::alive(e.d.pid)) ctx.violate("C35.honest_handshake_refused", fmt("no honest transport handshake succeeded within %d s between attacks (%d silent transport connections open)", honest_bound_ms() / 1000, stalled_transport)); }
            else if (what == 3) {
                // an honest local store: plans a swarm over whatever contacts the node has learned
                const auto pl = make_payload(300, 35500 + static_cast<std::uint64_t>(opn));
                std::vector<std::uint8_t> body(pl.begin(), pl.end());
                std::vector<std::pair<std::string, std::string>> f{{"COMMAND", "STORE"}, {"TTL", "900"}, {"STORE-POW", std::to_string(ref_solve_store_pow(body, "", 6))}, {"PAYLOAD-LENGTH", std::to_string(body.size())}};
                if (e.token) f.push_back({"TOKEN", *e.token});
                CtlReply rep;
                honest.call([&] { rep = ctl_exchange(e.host, e.d.control_port, ctl_headers(f), body, false, 15000); });
                ctx.probe(rep.ok ? "honest_store_ok" : "honest_store_refused");
            }
            else { CtlReply rep; honest.call([&] { while (!rep.got_status && sk::now_ns() < give_up && sk::alive(e.d.pid)) rep = ctl_exchange(e.host, e.d.control_port, ctl_headers({{"COMMAND", "LIST"}}), {}, false, 10000); }); if (!rep.got_status && sk::alive(e.d.pid)) ctx.violate("C35.honest_list_unanswered", fmt("an honest LIST between attacks got no answer within %d s", honest_bound_ms() / 1000)); }
        } else if (op.k == "t_pre_bytes" || op.k == "t_pre_len" || op.k == "t_hs_shape") {
            if ((op.k == "t_pre_len" ? op.at(2) : op.at(1)) == 2) ++stalled_transport;
            Actor& a = attacker();
            a.call([&] {
                PeerConn c;
                if (!c.open(e.host, e.d.transport_port)) return;
                c.set_timeout(3000);
                sk::Rng g(static_cast<std::uint64_t>(op.at(2)) + 77);
                const PeerIdentity me = PeerIdentity::make(static_cast<std::uint8_t>(0x40 + opn), 900001u + static_cast<std::uint32_t>(opn) * 7919u);
                if (op.k == "t_pre_bytes") {
                    std::vector<std::uint8_t> junk(static_cast<std::size_t>(op.at(0)));
                    for (auto& b : junk) b = static_cast<std::uint8_t>(g.below(256));
                    if (!junk.empty()) c.send_all(junk.data(), junk.size());
                    leave(c, static_cast<int>(op.at(1)));
                } else if (op.k == "t_pre_len") {
                    c.send_identity(me.id);
                    const std::uint32_t len = static_cast<std::uint32_t>(op.at(0));
                    const std::uint8_t l4[4] = {static_cast<std::uint8_t>(len >> 24), static_cast<std::uint8_t>(len >> 16), static_cast<std::uint8_t>(len >> 8), static_cast<std::uint8_t>(len)};
                    c.send_all(l4, 4);
                    std::vector<std::uint8_t> follow(static_cast<std::size_t>(op.at(1)), 0x5a);
                    if (!follow.empty()) c.send_all(follow.data(), follow.size());
                    leave(c, static_cast<int>(op.at(2)));
                } else {
                    c.send_identity(me.id);
                    pr::Message m{};
                    std::vector<std::uint8_t> frame;
                    switch (op.at(0)) {
                        case 0: { m.type = pr::MessageType::Announce; pr::AnnouncePayload an{}; an.peer_id = me.id; an.endpoint = "x:1"; an.manifest_uri = "eph://junk"; m.payload = an; frame = pr::encode(m); break; }
                        case 1: { frame.resize(10 + g.below(90)); for (auto& b : frame) b = static_cast<std::uint8_t>(g.below(256)); break; }
                        case 2: { m.type = pr::MessageType::TransportHandshake; m.payload = pr::TransportHandshakePayload{static_cast<std::uint32_t>(g.pick<std::int64_t>({0, 1, 0x7fffffff, 0x80000000LL, 0xffffffffLL})), 1, pr::kCurrentMessageVersion}; frame = pr::encode(m); break; }
                        case 3: { m.type = pr::MessageType::TransportHandshake; m.payload = pr::TransportHandshakePayload{me.pub, ref_find_invalid_handshake_nonce(me.id, e.daemon_id, me.pub, std::max(e.hs_bits, 1)), pr::kCurrentMessageVersion}; frame = pr::encode(m); break; }
                        case 4: break;  // empty frame
                        case 7: { frame = encoding_with_lying_lengths(g, me.id); ctx.boundary("pre_handshake_frame_with_lying_lengths"); break; }
                        case 5: { m.type = pr::MessageType::TransportHandshake; m.version = static_cast<std::uint8_t>(g.pick<std::int64_t>({0, 9, 255})); m.payload = pr::TransportHandshakePayload{me.pub, 1, static_cast<std::uint8_t>(g.below(256))}; frame = pr::encode(m); break; }
                        default: { m.type = pr::MessageType::TransportHandshake; m.payload = pr::TransportHandshakePayload{me.pub, 1, pr::kCurrentMessageVersion}; frame = pr::encode(m); if (frame.size() > 3) frame.resize(frame.size() - 1 - g.below(3)); break; }  // truncated payload
                    }
                    c.send_handshake_raw(frame);
                    if (op.at(1) != 2) { std::uint8_t tmp[64]; (void)c.recv_all(tmp, 1); }
                    leave(c, static_cast<int>(op.at(1)));
                }
            });
        } else if (op.k == "t_session") {
            Actor& a = attacker();
            const int forgery = static_cast<int>(op.at(3));
            label = std::string("t_session.") + forgery_name[forgery];
            ctx.probe(std::string("forgery_") + forgery_name[forgery]);
            bool hard_of_hearing = false;  // the peer asked for the chunk and stays connected without (properly) reading
            a.call([&] {
                PeerConn c;
                const PeerIdentity me = PeerIdentity::make(static_cast<std::uint8_t>(0x60 + opn), 1300021u + static_cast<std::uint32_t>(opn) * 15485863u);
                if (!scripted_handshake(c, me, e.daemon_id, e.daemon_pub, e.hs_bits, e.host, e.d.transport_port, 8000)) { ctx.probe("byz_handshake_failed"); c.close_now(); return; }
                ctx.probe("byz_session_established");
                sk::Rng g(static_cast<std::uint64_t>(op.at(5)) + 5);
                const pr::Manifest forged_foreign = forge_manifest(foreign, forgery, g);
                const pr::Manifest forged_stored = forge_manifest(e.stored, forgery, g);
                std::string uri_foreign, uri_stored;
                try { uri_foreign = pr::encode_manifest(forged_foreign); } catch (...) {}
                try { uri_stored = pr::encode_manifest(forged_stored); } catch (...) {}
                const auto version = static_cast<std::uint8_t>(op.at(6));
                auto send = [&](pr::Message m) { m.version = version; return c.send_signed(m); };
                auto announce = [&](const pr::Manifest& man, const std::string& uri, std::int64_t ttl, const std::string& endpoint, std::vector<std::uint8_t> shards) {
                    pr::Message m{};
                    m.type = pr::MessageType::Announce;
                    pr::AnnouncePayload an{};
                    an.chunk_id = man.chunk_id; an.peer_id = me.id; an.endpoint = endpoint; an.ttl = std::chrono::seconds(ttl); an.manifest_uri = uri; an.assigned_shards = std::move(shards);
                    ref_solve_announce_pow(an, e.announce_bits);
                    m.payload = an;
                    return send(m);
                };
                // endpoints a peer may announce for itself: they are stored as contacts and parsed later, when the node
                // next plans a swarm (a further announce, a local store) or retries a fetch
                auto nasty_endpoint = [&]() -> std::string { return kNastyEndpoints[g.below(kNastyEndpointCount)]; };
                auto own_endpoint = [&] { return g.chance(1, 2) ? nasty_endpoint() : ip_text(a.host) + ":46000"; };
                for (int step = 0; step < 3; ++step) {
                    const int act = static_cast<int>(op.at(static_cast<std::size_t>(step)));
                    bool ok = true;
                    switch (act) {
                        case 12: sk::sleep_ns((en::Config{}.announce_min_interval.count() + 1) * kSec); break;  // let a further announce of this peer pass the throttle
                        case 0: ok = announce(forged_foreign, uri_foreign, 600, own_endpoint(), {1, 2}); break;
                        case 1: { pr::Message m{}; m.type = pr::MessageType::Chunk; pr::ChunkPayload cp{}; cp.chunk_id = foreign.chunk_id; cp.data = foreign_cipher; if (g.chance(1, 3)) cp.data.resize(cp.data.size() / 2); cp.ttl = std::chrono::seconds(600); m.payload = cp; ok = send(m); break; }
                        case 2: ok = announce(forged_stored, uri_stored, 600, own_endpoint(), {}); break;
                        case 3: { pr::Message m{}; m.type = pr::MessageType::Chunk; pr::ChunkPayload cp{}; cp.chunk_id = e.stored.chunk_id; cp.data.assign(g.below(2000), 0x33); cp.ttl = std::chrono::seconds(static_cast<std::int64_t>(g.pick<std::int64_t>({0, 1, 600, 4000000000LL}))); m.payload = cp; ok = send(m); break; }
                        case 4: { pr::Message m{}; m.type = pr::MessageType::Request; m.payload = pr::RequestPayload{make_id(static_cast<std::uint8_t>(g.below(256)), 0x35), me.id}; ok = send(m); break; }
                        case 5: { pr::Message m{}; m.type = pr::MessageType::Request; m.payload = pr::RequestPayload{e.stored.chunk_id, me.id}; ok = send(m); if (g.chance(1, 2)) { leave(c, 1); return; } break; }  // ask for a held chunk and reset before it arrives
                        case 6: { std::vector<std::uint8_t> junk(g.below(300)); for (auto& b : junk) b = static_cast<std::uint8_t>(g.below(256)); ok = c.send_plain(junk); break; }  // sealed frame, garbage plaintext
                        case 7: { std::uint8_t hdr[16] = {}; const std::uint32_t len = static_cast<std::uint32_t>(g.pick<std::int64_t>({0, 0xffffffffLL, 0x7fffffff, 1048577, 70000})); hdr[12] = len >> 24; hdr[13] = len >> 16; hdr[14] = len >> 8; hdr[15] = len; ok = c.send_all(hdr, 16); std::uint8_t some[40] = {}; c.send_all(some, sizeof some); break; }  // length field lies
                        case 8: { pr::Message m{}; m.type = pr::MessageType::Acknowledge; m.payload = pr::AcknowledgePayload{make_id(static_cast<std::uint8_t>(g.below(256)), 0x36), me.id, g.chance(1, 2)}; ok = send(m); break; }
                        case 9: { pr::Message m{}; m.type = g.chance(1, 2) ? pr::MessageType::TransportHandshake : pr::MessageType::HandshakeAck; if (m.type == pr::MessageType::TransportHandshake) m.payload = pr::TransportHandshakePayload{me.pub, 1, 4}; else m.payload = pr::HandshakeAckPayload{true, 4, me.pub}; ok = send(m); break; }
                        case 14: case 15: {
                            // asks for the chunk the daemon holds and does not drain its socket: the daemon's blocking send must not hold the node
                            if (act == 14) { c.rx->deaf = true; ctx.boundary("peer_requests_chunk_and_stops_reading"); }
                            else { c.rx->drip_bytes = static_cast<std::size_t>(g.pick<std::int64_t>({1, 64, 1024})); c.rx->drip_ns = g.pick<std::int64_t>({500, 2000, 4000}) * kMs; ctx.boundary("peer_requests_chunk_and_reads_a_trickle"); }
                            pr::Message m{}; m.type = pr::MessageType::Request; m.payload = pr::RequestPayload{e.stored.chunk_id, me.id}; ok = send(m);
                            if (ok) hard_of_hearing = true;
                            break;
                        }
                        case 13: {
                            // a correctly signed message (exact MAC over exactly these bytes) whose inner length fields lie
                            auto body = encoding_with_lying_lengths(g, me.id);
                            const auto mac = en::crypto::HmacSha256::compute(std::span<const std::uint8_t>(c.key), std::span<const std::uint8_t>(body));
                            body.insert(body.end(), mac.begin(), mac.end());
                            ok = c.send_plain(body);
                            ctx.boundary("signed_message_with_lying_lengths");
                            break;
                        }
                        case 10: ok = announce(forged_foreign, uri_foreign, g.pick<std::int64_t>({0, -5, 4000000000LL, 1}), std::string(g.pick<std::int64_t>({0, 70000}), 'h'), std::vector<std::uint8_t>(static_cast<std::size_t>(g.pick<std::int64_t>({0, 255, 300})), 9)); break;
                        default: { pr::Message m{}; m.type = pr::MessageType::Announce; pr::AnnouncePayload an{}; an.chunk_id = foreign.chunk_id; an.peer_id = me.id; an.endpoint = "1.2.3.4:5"; an.ttl = std::chrono::seconds(600);
                                   const char* uris[] = {"eph://", "eph://!!!!", "eph://AAAA", "notaneph", ""}; an.manifest_uri = uris[g.below(5)]; if (g.chance(1, 3)) an.manifest_uri = "eph://" + std::string(100000, 'A'); ref_solve_announce_pow(an, e.announce_bits); m.payload = an; ok = send(m); break; }
                    }
                    if (!ok) { ctx.probe("byz_send_failed"); break; }
                    sk::sleep_ns(static_cast<std::int64_t>(g.below(300)) * kMs);
                }
                sk::sleep_ns(500 * kMs);
                leave(c, static_cast<int>(op.at(4)));
                if (op.at(4) != 2) hard_of_hearing = false;
            });
            if (hard_of_hearing && sk::alive(e.d.pid)) {
                // the peer is still there, not reading. Everyone else must be served within the bound all the same.
                ++stalled_transport;
                ++hard_of_hearing_peers;
                const std::int64_t t0 = sk::now_ns(), give_up = t0 + honest_bound_ms() * kMs;
                bool ok = false;
                for (int i = 0; !ok && sk::now_ns() < give_up && sk::alive(e.d.pid); ++i) ok = honest_handshake(e, honest, 200 + opn * 8 + i % 8, 10000);
                CtlReply rep;
                if (ok) honest.call([&] { while (!rep.got_status && sk::now_ns() < give_up && sk::alive(e.d.pid)) rep = ctl_exchange(e.host, e.d.control_port, ctl_headers({{"COMMAND", "LIST"}}), {}, false, 10000); });
                if ((!ok || !rep.got_status) && sk::alive(e.d.pid))
                    ctx.violate("C35.peer_that_does_not_read_stops_service", fmt("a peer asked for the %zu-byte chunk the daemon holds and stopped draining its socket; %.0f s later %s", e.stored_plain.size(), (sk::now_ns() - t0) / 1e9,
                                                                                 ok ? "an honest LIST is still unanswered" : "no honest handshake has been answered"));
                ok = ok && rep.got_status;
                if (ok) ctx.probe(sk::now_ns() - t0 < 2 * kSec ? "served_at_once_beside_a_non_reading_peer" : "served_after_a_wait_beside_a_non_reading_peer");
            }
        } else if (op.k == "t_poison") {
            // two-step attack: get a contact with an awkward endpoint accepted, then make the node use it
            Actor& a = attacker();
            const int forgery = static_cast<int>(op.at(1));
            const int trigger = static_cast<int>(op.at(2));
            label = std::string("t_poison.") + forgery_name[forgery];
            a.call([&] {
                PeerConn c;
                const PeerIdentity me = PeerIdentity::make(static_cast<std::uint8_t>(0x70 + opn), 1700021u + static_cast<std::uint32_t>(opn) * 32452843u);
                if (!scripted_handshake(c, me, e.daemon_id, e.daemon_pub, e.hs_bits, e.host, e.d.transport_port, 8000)) { ctx.probe("byz_handshake_failed"); c.close_now(); return; }
                sk::Rng g(static_cast<std::uint64_t>(op.at(3)) + 9);
                const pr::Manifest man = forge_manifest(foreign, forgery, g);
                std::string uri;
                try { uri = pr::encode_manifest(man); } catch (...) { c.close_now(); return; }
                auto announce = [&](const std::string& endpoint, std::vector<std::uint8_t> shards) {
                    pr::Message m{};
                    m.type = pr::MessageType::Announce;
                    pr::AnnouncePayload an{};
                    an.chunk_id = man.chunk_id; an.peer_id = me.id; an.endpoint = endpoint; an.ttl = std::chrono::seconds(600); an.manifest_uri = uri; an.assigned_shards = std::move(shards);
                    ref_solve_announce_pow(an, e.announce_bits);
                    m.payload = an;
                    return c.send_signed(m);
                };
                const std::string endpoint = kNastyEndpoints[static_cast<std::size_t>(op.at(0)) % kNastyEndpointCount];
                if (!announce(endpoint, op.at(4) && !man.shards.empty() ? std::vector<std::uint8_t>{man.shards[0].index} : std::vector<std::uint8_t>{})) { c.close_now(); return; }
                ctx.probe("poison_announce_sent");
                sk::sleep_ns((en::Config{}.announce_min_interval.count() + 1) * kSec);
                if (trigger != 1) { announce(endpoint, {}); ctx.probe("poison_second_announce"); sk::sleep_ns(kSec); }
                if (op.at(4)) { leave(c, 1); sk::sleep_ns(8 * kSec); }  // with a fetch assigned, dropping the session makes the retry path parse the stored endpoint
                else c.close_now();
            });
            if (trigger != 0 && sk::alive(e.d.pid)) {
                const auto pl = make_payload(300, 35700 + static_cast<std::uint64_t>(opn));
                std::vector<std::uint8_t> body(pl.begin(), pl.end());
                std::vector<std::pair<std::string, std::string>> f{{"COMMAND", "STORE"}, {"TTL", "900"}, {"STORE-POW", std::to_string(ref_solve_store_pow(body, "", 6))}, {"PAYLOAD-LENGTH", std::to_string(body.size())}};
                if (e.token) f.push_back({"TOKEN", *e.token});
                honest.call([&] { (void)ctl_exchange(e.host, e.d.control_port, ctl_headers(f), body, false, 15000); });
                ctx.probe("poison_store_trigger");
            }
        } else if (op.k == "c_raw" || op.k == "c_fetch_forged") {
            Actor& a = attacker();
            sk::Rng g(static_cast<std::uint64_t>(op.at(2)) + 11);
            std::string req;
            std::vector<std::uint8_t> body;
            bool withhold = false;
            const std::string tok = e.token ? "TOKEN:" + *e.token + "\n" : std::string{};
            if (op.k == "c_fetch_forged") {
                const int forgery = static_cast<int>(op.at(0));
                label = std::string("c_fetch_forged.") + forgery_name[forgery];
                const pr::Manifest man = forge_manifest(op.at(1) ? e.stored : foreign, forgery, g);
                std::string uri;
                try { uri = pr::encode_manifest(man); } catch (...) { uri = "eph://unencodable"; }
                const int mode = static_cast<int>(op.at(3));
                req = "COMMAND:FETCH\n" + tok + "MANIFEST:" + uri + "\n" + (mode == 0 ? "STREAM:client\n" : mode == 1 ? "OUT:\n" : "OUT:" + sk::scratch_dir() + "/byz-out/x.bin\n") + "\n";
            } else {
                const std::string big(20000, 'Z');
                switch (op.at(0)) {
                    case 0: req = "\n"; break;
                    case 1: req = "COMMAND\n\n"; break;
                    case 2: req = "TOKEN:x\n\n"; break;
                    case 3: req = "COMMAND:" + big + "\n\n"; break;
                    case 4: req = "COMMAND:STORE\n" + tok + "PAYLOAD-LENGTH:99999999999999999999\n\n"; break;
                    case 5: req = "COMMAND:STORE\n" + tok + "PAYLOAD-LENGTH:-1\n\n"; break;
                    case 6: req = "COMMAND:STORE\n" + tok + "PAYLOAD-LENGTH:1000\nTTL:900\n\n"; body.assign(10, 1); break;         // promises more than it sends, then closes
                    case 7: req = "COMMAND:STORE\n" + tok + "PAYLOAD-LENGTH:5\nTTL:abc\nSTORE-POW:zzz\n\n"; body.assign(5, 1); break;
                    case 8: req = "COMMAND:FETCH\n" + tok + "OUT:\n\n"; break;
                    case 9: req = "COMMAND:FETCH\n" + tok + "MANIFEST:eph://%%%%\nSTREAM:client\n\n"; break;
                    case 10: req = "COMMAND:FETCH\n" + tok + "MANIFEST:\nOUT:\n\n"; break;
                    case 11: req = std::string("COMMAND:PING") + std::string(1, '\0') + "\n\n"; break;
                    case 12: { req.resize(200 + g.below(3000)); for (auto& ch : req) ch = static_cast<char>(g.below(256)); break; }
                    case 13: req = "COMMAND:STATUS\n"; break;                                                                          // no terminator, then close
                    case 14: req = "COMMAND:LIST\r\n\r\n"; break;
                    case 15: req = ":::::\n:\n\n"; break;
                    case 16: req = "COMMAND:STORE\n" + tok + "PAYLOAD-LENGTH:0\nTTL:900\n\n"; break;
                    case 17: req = "COMMAND:STORE\n" + tok + "PAYLOAD-LENGTH:40000000\nTTL:900\n\n"; withhold = true; break;         // above the upload cap, nothing sent
                    case 18: req = "COMMAND:DIAGNOSTICS\n\n"; break;
                    case 19: req = "COMMAND:FETCH\n" + tok + "MANIFEST:" + pr::encode_manifest(e.stored) + "\nOUT:/proc/self/mem\n\n"; break;
                    case 20: req = "COMMAND:FETCH\n" + tok + "MANIFEST:" + pr::encode_manifest(e.stored) + "\nOUT:" + std::string(5000, '/') + "\n\n"; break;
                    case 21: { req = "COMMAND:STATUS\n"; for (int k = 0; k < 3000; ++k) req += "H" + std::to_string(k) + ":v\n"; req += "\n"; break; }
                    case 22: req = "COMMAND:METRICS\n\n"; break;
                    default: req = e.token ? "command:stop\n\n" : "command:nonsense\n\n"; break;  // without a configured token anyone may STOP: not an attack
                }
            }
            const int end = static_cast<int>(op.at(1));  // 0 read the reply, 1 close at once, 2 reset at once, 3 stay connected and silent
            if (end == 3) ++stalled_control;
            a.call([&] {
                if (end == 0) { (void)ctl_exchange(e.host, e.d.control_port, req, body, withhold, 15000, 1 + static_cast<int>(g.below(3))); return; }
                PeerConn c;
                if (!c.open(e.host, e.d.control_port)) return;
                c.send_all(req.data(), req.size());
                if (!body.empty() && !withhold) c.send_all(body.data(), body.size());
                leave(c, end == 1 ? 0 : end == 2 ? 1 : 2);
            });
        }
        ctx.boundary(op.k);
        sk::sleep_ns(300 * kMs);
        dead = daemon_gone(label);
        ctx.state(static_cast<std::uint64_t>(opn) * 32 + (dead ? 1 : 0));
    }

    // ---- bounded liveness once the attackers are gone
    for (auto& a : attackers) a->shutdown();
    if (!dead) {
        sk::sleep_ns(2 * kSec);
        if (!daemon_gone("the attackers disconnected")) {
            const std::int64_t t0 = sk::now_ns();
            bool ping = false;
            honest.call([&] { for (int i = 0; i < 6 && !ping; ++i) ping = e.d.ping(10000); });
            if (!ping && sk::alive(e.d.pid)) sk::trace_blocked();
            if (!ping && !daemon_gone("final PING")) ctx.violate("C35.control_plane_unresponsive", "no PING answer within 60 s after every byzantine client had disconnected");
            bool hs = false;
            for (int i = 0; i < 4 && !hs && sk::alive(e.d.pid); ++i) hs = honest_handshake(e, honest, 100 + i, 15000);
            if (!hs && !daemon_gone("final handshake")) ctx.violate("C35.transport_unresponsive", "no honest transport handshake succeeded within 60 s after every byzantine peer had disconnected");
            CtlReply list;
            honest.call([&] { list = ctl_exchange(e.host, e.d.control_port, ctl_headers({{"COMMAND", "LIST"}}), {}); });
            if (sk::alive(e.d.pid) && (!list.got_status || list.field("COUNT").empty())) ctx.violate("C35.list_unanswered", "LIST got no proper answer after the attacks");
            if (sk::alive(e.d.pid) && list.field("COUNT") == "0") ctx.violate("C35.stored_chunk_lost", "the chunk stored before the attacks is no longer listed");
            ctx.probe(sk::now_ns() - t0 < 10 * kSec ? "recovered_within_10s" : "recovered_later");
        }
    }
    honest.shutdown();
    e.d.stop();
    if (sk::alive(e.d.pid)) ctx.violate("C35.daemon_does_not_stop", "the daemon did not exit within 120 simulated seconds of SIGTERM");
}

Scenario make_c35() {
    Scenario s;
    s.id = "C35"; s.world = "W4"; s.level = "exploration";
    s.technique = "deterministic simulation: the real `eph serve` main (real signal dispositions, accept/reader/tick threads as fibers) under byzantine transport peers (pre-handshake bytes, malformed handshakes, validly signed messages with forged manifests / shard sets / lengths / TTLs, resets mid-request) and byzantine control clients (arbitrary header bytes, lying lengths, forged manifests, early close or reset), interleaved with honest clients; liveness of the process, sanitizer reports and bounded recovery (PING, LIST, handshake within 60 s) are the oracle";
    s.real_components = {"src/main.cpp serve path (real main())", "ControlServer", "Node (handle_transport_message, handle_announce, handle_chunk, receive_chunk, fetch_chunk)", "SessionManager accept/reader threads", "protocol and manifest codecs, Shamir, ChaCha20"};
    s.stub_components = {"OS seams (fibers, simulated TCP with RST/EPIPE/SIGPIPE semantics, clock, entropy, file seam)", "attackers and honest clients are scripted"};
    s.assumptions = {"while byzantine peers stay connected (silent, or not draining what they asked for) honest requests must be answered within 60 s + 16 s per silent control connection + 3 s per silent transport connection; the repaired sender gives up on a non-draining peer after 5 s without progress or when a frame is slower than 16 KiB/s, so every such peer still connected adds 10 s + size/16 KiB/s to the bound (the node sends under its scheduler mutex: a bounded delay for the others, not a stop)",
                     "the relay server and the STUN client are judged under C25/C26 and C33"};
    s.rule = "plan = network knobs, token on/off, 3..10 operations (pre-handshake bytes, lying length, handshake shapes, session scripts of three actions with one of 13 manifest forgeries and a leave mode — among the actions: ask for the 900/150000/600000-byte chunk the daemon holds and then read nothing, or a trickle of 1..1024 bytes every 0.5..4 s, staying connected; an honest handshake and LIST must then be answered within the bound —, raw control requests, forged FETCH, honest requests); non-trivial = any byzantine operation; distinct = plan hash";
    s.gen = gen_c35; s.exec = exec_c35;
    s.kernel_knobs = [](const Plan& p) { sk::Knobs k = w4_knobs(p); k.deschedule_per_65536 = static_cast<std::uint32_t>(p.knob("deschedule", 0)); return k; };
    s.crash_is_violation = true;
    s.quick_runs = 2500; s.thorough_runs = 200000; s.quick_secs = 48; s.thorough_secs = 1200;
    return s;
}
Registrar reg_c35(make_c35);

}  // namespace
