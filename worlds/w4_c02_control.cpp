#include "worlds/c02_control_variant.hpp"
#include "worlds/w4_common.hpp"

#include "ephemeralnet/protocol/Manifest.hpp"

using namespace wl;

namespace wl {

namespace {
std::string dec128(unsigned __int128 x) { std::string d; if (x == 0) d = "0"; while (x > 0) { d.insert(d.begin(), static_cast<char>('0' + static_cast<int>(x % 10))); x /= 10; } return d; }
}

Plan gen_c02_control(sk::Rng& r) {
    Plan p;
    gen_w4_knobs(p, r);
    p.knobs["c02_control"] = 1;
    const std::int64_t mn = r.pick<std::int64_t>({1, 5, 30, 60, 600});
    const std::int64_t mx = mn + r.pick<std::int64_t>({0, 1, 30, 3000, 80000});
    p.knobs["min_ttl"] = mn; p.knobs["max_ttl"] = std::min<std::int64_t>(mx, 86400);
    p.knobs["default_ttl"] = r.range(mn, p.knobs["max_ttl"]);
    const int n = static_cast<int>(r.range(2, 6));
    for (int i = 0; i < n; ++i) {
        Op op; op.k = "store";
        // kind of TTL header: 0 absent, 1 a value from the list (index), spelling 0 plain / 1 '-'(2^64-v) / 2 v+2^64
        op.a = {r.chance(1, 8) ? 0 : 1, static_cast<std::int64_t>(r.below(14)), r.chance(1, 5) ? r.range(1, 2) : 0};
        p.ops.push_back(op);
    }
    return p;
}

sk::Knobs c02_control_knobs(const Plan& p) { return w4_knobs(p); }

void exec_c02_control(const Plan& p, Ctx& ctx) {
    capture_reset();
    const std::int64_t mn = p.knob("min_ttl", 30), mx = p.knob("max_ttl", 600), df = p.knob("default_ttl", 60);
    Daemon d;
    d.extra_args = {"--min-ttl", std::to_string(mn), "--max-ttl", std::to_string(mx), "--default-ttl", std::to_string(df)};
    d.start();
    if (!d.wait_ready()) { ctx.violate("C02.setup_failed", "daemon did not answer PING: " + sk::info(d.pid).exit_detail); d.stop(); return; }
    Actor client;
    client.scripted = true;
    client.start("ctl-client", sk::ip(10, 0, 9, 1));
    const std::string host = ip_text(d.host);
    std::uint64_t uniq = 1;
    for (auto& op : p.ops) {
        ++ctx.ops_done;
        if (!sk::alive(d.pid)) { ctx.violate("C02.daemon_died", "the daemon process ended: " + sk::info(d.pid).exit_detail); break; }
        sk::sleep_ns(5100 * kMs);  // stay under the STORE rate limit (C28's subject)
        const unsigned __int128 two63 = static_cast<unsigned __int128>(1) << 63, two64 = static_cast<unsigned __int128>(1) << 64;
        const unsigned __int128 values[] = {0, 1, static_cast<unsigned __int128>(mn > 1 ? mn - 1 : 0), static_cast<unsigned __int128>(mn), static_cast<unsigned __int128>((mn + mx) / 2), static_cast<unsigned __int128>(mx),
                                            static_cast<unsigned __int128>(mx + 1), static_cast<unsigned __int128>(86400), static_cast<unsigned __int128>(86401), static_cast<unsigned __int128>(1) << 31, two63 - 1, two63, two64 - 1,
                                            static_cast<unsigned __int128>(mx) * 1000};
        const bool present = op.at(0) != 0;
        const unsigned __int128 v = values[static_cast<std::size_t>(op.at(1)) % 14];
        const std::int64_t spelling = op.at(2);
        std::string text = dec128(v);
        bool denotes_in_window = v >= static_cast<unsigned __int128>(mn) && v <= static_cast<unsigned __int128>(mx);
        if (present && spelling == 1 && v > 0 && v < two64) { text = "-" + dec128(two64 - v); denotes_in_window = false; ctx.boundary("ttl_header_that_wraps_modulo_2_64"); }   // a huge negative number
        if (present && spelling == 2) { text = dec128(two64 + v); denotes_in_window = false; ctx.boundary("ttl_header_that_wraps_modulo_2_64"); }                                  // v + 2^64
        const auto pl = make_payload(64 + uniq % 17, 202000 + uniq);
        ++uniq;
        std::vector<std::uint8_t> body(pl.begin(), pl.end());
        std::vector<std::pair<std::string, std::string>> f{{"COMMAND", "STORE"}};
        if (present) f.push_back({"TTL", text});
        f.push_back({"STORE-POW", std::to_string(ref_solve_store_pow(body, "", 6))});
        f.push_back({"PAYLOAD-LENGTH", std::to_string(body.size())});
        CtlReply rep;
        const std::int64_t t0 = sk::now_ns();
        client.call([&] { rep = ctl_exchange(host, d.control_port, ctl_headers(f), body, false, 15000, 1); });
        if (!rep.got_status) { ctx.probe("control_store_no_reply"); continue; }
        if (present && !denotes_in_window) ctx.boundary("control_ttl_outside_window");
        if (rep.ok) {
            ctx.probe("control_store_accepted");
            if (present && !denotes_in_window)
                ctx.violate("C02.control_ttl_outside_window_accepted", fmt("control STORE with TTL:%s was accepted; the daemon's window is [%lld, %lld] s", text.c_str(), (long long)mn, (long long)mx));
            // whatever was granted lies inside the window
            try {
                const auto m = en::protocol::decode_manifest(rep.field("MANIFEST"));
                const std::int64_t life_s = (wall_to_sim(m.expires_at) - t0) / kSec;
                if (life_s < mn - 1 || life_s > mx + 1)
                    ctx.violate("C02.control_granted_lifetime_outside_window", fmt("control STORE (TTL header %s) produced a manifest living %lld s; window [%lld, %lld] s", present ? text.c_str() : "absent", (long long)life_s, (long long)mn, (long long)mx));
            } catch (...) { ctx.probe("control_manifest_undecodable"); }
        } else {
            ctx.probe("control_store_refused_" + rep.field("CODE"));
        }
    }
    client.shutdown();
    d.stop();
}

}  // namespace wl
