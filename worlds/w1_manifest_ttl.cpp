// W1 — C03: state learned from a manifest never outlives that manifest.
// A consumer Node under the simulated clock receives manifests of a publisher Node whose expiry has been
// re-written (the manifest is not signed): already expired, below the minimum TTL, ordinary, beyond the
// maximum TTL, absurdly far in the future. They arrive through ingest, announce (with any advertised
// TTL and assigned shards), replica receipt and fetch, at any time; time advances and ticks run in
// between. After every step every piece of state derived for a chunk is compared with the latest
// instant any acceptable manifest delivered so far allows.
#include "worlds/common.hpp"
#include "worlds/swarm_variant.hpp"

using namespace wl;

namespace {

const en::PeerId kSelf = make_id(0xA3, 0x13);
const en::PeerId kPub = make_id(0xB3, 0x23);
en::ChunkId remote_id(int i) { return make_id(static_cast<std::uint8_t>(i + 31), 0x73); }

Plan gen_c03(sk::Rng& r, Tier) {
    Plan p;
    const std::int64_t mn = r.pick<std::int64_t>({1, 5, 30, 120});
    const std::int64_t mx = mn + r.pick<std::int64_t>({10, 100, 600, 3600});
    p.knobs["min_ttl"] = mn; p.knobs["max_ttl"] = mx;
    p.knobs["cleanup"] = r.pick<std::int64_t>({1, 5, 30});
    p.knobs["jitter"] = r.chance(1, 3);
    p.knobs["stalls"] = r.pick<std::int64_t>({0, 0, 6000, 20000});
    p.knobs["default_ttl"] = r.pick<std::int64_t>({mn, mx, mx, (mn + mx) / 2});  // what the store falls back to when it is handed no lifetime
    const int n = static_cast<int>(r.range(4, 30));
    for (int i = 0; i < n; ++i) {
        Op op;
        const auto c = r.below(100);
        // expiry of the delivered manifest relative to now, in ms: past, below min, around min, ordinary, around max, far future, overflow
        const std::int64_t rel = r.pick<std::int64_t>({-3600000, -1000, -1, 0, 1, 500, mn * 1000 - 1000, mn * 1000 - 1, mn * 1000, mn * 1000 + 999, mn * 1000 + 1000, (mn + mx) * 500, mx * 1000 - 1000, mx * 1000,
                                                     mx * 1000 + 1, mx * 1000 + 5000, mx * 4000, 86400000LL * 365, 86400000LL * 365 * 200, INT64_MAX});
        if (c < 22) { op.k = "ingest"; op.a = {static_cast<std::int64_t>(r.below(3)), rel}; }
        else if (c < 50) { op.k = "announce"; op.a = {static_cast<std::int64_t>(r.below(3)), rel, r.pick<std::int64_t>({0, 1, mn, mn + 5, mx, mx + 50, 4000000000LL, -7}), static_cast<std::int64_t>(r.below(3)), static_cast<std::int64_t>(r.below(3))}; }
        else if (c < 62) { op.k = "replica"; op.a = {static_cast<std::int64_t>(r.below(3)), rel}; }
        else if (c < 68) { op.k = "fetch"; op.a = {static_cast<std::int64_t>(r.below(3))}; }
        else if (c < 84) { op.k = "adv"; op.a = {r.pick<std::int64_t>({10, 999, 1000, 1001, mn * 1000, mn * 1000 + 1, 30000, mx * 1000 - 1, mx * 1000 + 1, mx * 3000})}; }
        else { op.k = "tick"; }
        // which publisher's manifest of that chunk id: the same id can be issued twice with different content and key material
        if (op.k == "ingest" || op.k == "announce" || op.k == "replica") { while (op.a.size() < 5) op.a.push_back(0); op.a.push_back(r.chance(1, 4) ? 1 : 0); }
        p.ops.push_back(op);
    }
    return p;
}

void exec_c03(const Plan& p, Ctx& ctx) {
    en::Config c = base_config(31);
    c.min_manifest_ttl = seconds(p.knob("min_ttl")); c.max_manifest_ttl = seconds(p.knob("max_ttl")); c.default_chunk_ttl = seconds(p.knob("default_ttl", p.knob("min_ttl")));
    c.cleanup_interval = seconds(p.knob("cleanup"));
    c.announce_min_interval = seconds(1); c.announce_burst_limit = 100000; c.announce_burst_window = seconds(1);
    c.fetch_retry_initial_backoff = seconds(1); c.fetch_retry_max_backoff = seconds(5);
    en::Config cp = c; cp.identity_seed = 32; cp.cleanup_interval = seconds(10000000); cp.max_manifest_ttl = seconds(86400 * 400); cp.min_manifest_ttl = seconds(1);
    auto node = std::make_unique<en::Node>(kSelf, c);
    auto pub = std::make_unique<en::Node>(kPub, cp);
    const std::int64_t mn = node->config().min_manifest_ttl.count(), mx = node->config().max_manifest_ttl.count();

    // the publisher's real manifests (valid shards and ciphertext); only expires_at is re-written per delivery
    // two variants per chunk id: a second publisher issues a manifest for the same id over other content (other key shares, nonce, hash)
    std::map<int, en::protocol::Manifest> base, base2;
    std::map<int, en::ChunkData> cipher, cipher2;
    en::Config cp2 = cp; cp2.identity_seed = 33;
    auto pub2 = std::make_unique<en::Node>(make_id(0xB3, 0x23), cp2);
    for (int i = 0; i < 3; ++i) {
        base[i] = pub->store_chunk(remote_id(i), make_payload(90 + static_cast<std::size_t>(i) * 7, 3000 + static_cast<std::uint64_t>(i)), seconds(86400 * 300));
        cipher[i] = pub->chunk_store_.get_record(remote_id(i))->data;
        base2[i] = pub2->store_chunk(remote_id(i), make_payload(77 + static_cast<std::size_t>(i) * 5, 3500 + static_cast<std::uint64_t>(i)), seconds(86400 * 300));
        cipher2[i] = pub2->chunk_store_.get_record(remote_id(i))->data;
    }
    // per chunk and variant: latest instant that variant's acceptable manifests allow state derived from THAT variant to live
    std::map<int, std::array<std::int64_t, 2>> vbound;
    for (int i = 0; i < 3; ++i) vbound[i] = {INT64_MIN, INT64_MIN};
    // per chunk: latest instant (simulated ns) any acceptable manifest delivered so far allows derived state to live
    std::map<int, std::int64_t> bound;
    for (int i = 0; i < 3; ++i) bound[i] = INT64_MIN;

    struct Snap {
        std::int64_t shard_exp = -1, chunk_exp = -1, manifest_exp = -1;
        int shard_variant = -1, chunk_variant = -1;   // whose key shares / whose ciphertext (0 first publisher, 1 second)
        std::vector<std::int64_t> holders;
        bool pending = false;
        bool operator==(const Snap&) const = default;
    };
    auto snapshot = [&](int i) {
        Snap s;
        const auto key = en::chunk_id_to_string(remote_id(i));
        if (auto it = node->dht_.shard_table_.find(key); it != node->dht_.shard_table_.end()) {
            s.shard_exp = steady_to_sim(it->second.expires_at);
            if (!it->second.shards.empty()) s.shard_variant = (!base2[i].shards.empty() && it->second.shards[0].value == base2[i].shards[0].value) ? 1 : 0;
        }
        if (auto it = node->dht_.table_.find(key); it != node->dht_.table_.end()) for (auto& h : it->second.holders) s.holders.push_back(steady_to_sim(h.expires_at));
        std::sort(s.holders.begin(), s.holders.end());
        if (auto it = node->chunk_store_.chunks_.find(key); it != node->chunk_store_.chunks_.end()) { s.chunk_exp = steady_to_sim(it->second.expires_at); s.chunk_variant = it->second.nonce == base2[i].nonce.bytes ? 1 : 0; }
        if (auto it = node->manifest_cache_.find(key); it != node->manifest_cache_.end()) s.manifest_exp = wall_to_sim(it->second.expires_at);
        s.pending = node->pending_chunk_fetches_.count(key) != 0;
        return s;
    };
    std::int64_t stall_slack[3] = {0, 0, 0};
    auto check_bounds = [&](const char* when) {
        const std::int64_t now = sk::now_ns();
        for (int i = 0; i < 3; ++i) {
            const Snap s = snapshot(i);
            const std::int64_t b = bound[i];
            // one second of slack: TTLs are whole seconds and the node reads the clock a little after the driver does
            // plus the time the importing thread of this chunk was kept off the processor inside receive_chunk (injected stalls): a
            // lifetime granted when the import began and applied when it ended is that much later, and no more
            const std::int64_t slack = kSec + stall_slack[i];
            auto late = [&](std::int64_t exp) { return exp >= 0 && (b == INT64_MIN || exp > b + slack); };
            const std::string about = fmt(" (chunk %d, %s; allowed until t=%.3f s, now t=%.3f s)", i, when, b == INT64_MIN ? -1.0 : b / 1e9, now / 1e9);
            if (late(s.shard_exp)) ctx.violate("C03.key_shares_outlive_manifest", fmt("cached key shares expire at t=%.3f s", s.shard_exp / 1e9) + about);
            if (late(s.chunk_exp)) ctx.violate("C03.replica_outlives_manifest", fmt("the replica copy expires at t=%.3f s", s.chunk_exp / 1e9) + about);
            // the same, per issuer: key shares (a copy) taken from one publisher's manifest may only live as long as THAT publisher's manifests allow
            auto late_for = [&](std::int64_t exp, int variant) { if (exp < 0 || variant < 0) return false; const std::int64_t vb = vbound[i][static_cast<std::size_t>(variant)]; return vb == INT64_MIN || exp > vb + slack; };
            if (late_for(s.shard_exp, s.shard_variant) && !late(s.shard_exp))
                ctx.violate("C03.key_shares_outlive_their_manifest", fmt("the cached key shares are those of publisher %d's manifest (allowed until t=%.3f s) but expire at t=%.3f s, a lifetime only the other publisher's manifest for this chunk id had", s.shard_variant + 1, vbound[i][static_cast<std::size_t>(s.shard_variant)] == INT64_MIN ? -1.0 : vbound[i][static_cast<std::size_t>(s.shard_variant)] / 1e9, s.shard_exp / 1e9) + about);
            if (late_for(s.chunk_exp, s.chunk_variant) && !late(s.chunk_exp))
                ctx.violate("C03.replica_outlives_its_manifest", fmt("the held copy is publisher %d's ciphertext (allowed until t=%.3f s) but expires at t=%.3f s", s.chunk_variant + 1, vbound[i][static_cast<std::size_t>(s.chunk_variant)] == INT64_MIN ? -1.0 : vbound[i][static_cast<std::size_t>(s.chunk_variant)] / 1e9, s.chunk_exp / 1e9) + about);
            for (auto h : s.holders) if (late(h)) { ctx.violate("C03.provider_contact_outlives_manifest", fmt("a provider contact expires at t=%.3f s", h / 1e9) + about); break; }
            if (late(s.manifest_exp) && s.manifest_exp > now + (mx + 1) * kSec) ctx.probe("cached_manifest_keeps_its_far_future_expiry");
        }
    };
    auto check_pending_after_tick = [&] {
        const std::int64_t now = sk::now_ns();
        for (int i = 0; i < 3; ++i)
            if (snapshot(i).pending && (bound[i] == INT64_MIN || now > bound[i] + kSec))
                ctx.violate("C03.pending_fetch_outlives_manifest", fmt("a pending fetch for chunk %d is still scheduled at t=%.3f s, after its manifest's expiry (t=%.3f s) and a tick", i, now / 1e9, bound[i] == INT64_MIN ? -1.0 : bound[i] / 1e9));
    };

    for (auto& op : p.ops) {
        ++ctx.ops_done;
        const std::int64_t now = sk::now_ns();
        if (op.k == "adv") { sk::sleep_ns(op.at(0) * kMs); check_bounds("after time advanced"); continue; }
        if (op.k == "tick") { node->tick(); check_bounds("after a tick"); check_pending_after_tick(); continue; }
        const int i = static_cast<int>(op.at(0)) % 3;
        if (op.k == "fetch") {
            (void)node->fetch_chunk(remote_id(i));
            check_bounds("after a local fetch");
            continue;
        }
        // deliver a manifest whose expiry is now + rel
        const std::int64_t rel_ms = std::max<std::int64_t>(op.at(1), -7000000000000LL);
        const int variant = op.at(5) ? 1 : 0;
        if (variant) ctx.boundary("manifest_of_a_second_publisher_for_the_same_chunk_id");
        auto m = variant ? base2[i] : base[i];
        std::int64_t exp_sim;
        if (rel_ms > 7000000000000LL) { m.expires_at = std::chrono::system_clock::time_point::max(); exp_sim = INT64_MAX; }
        else { exp_sim = now + rel_ms * kMs; m.expires_at = std::chrono::system_clock::time_point(std::chrono::duration_cast<std::chrono::system_clock::duration>(std::chrono::nanoseconds(sk::kWallEpochNs + exp_sim))); }
        std::string uri;
        try { uri = en::protocol::encode_manifest(m); } catch (...) { ctx.probe("manifest_not_encodable"); continue; }
        // what the codec carries is whole seconds: judge with the decoded value
        std::int64_t carried = exp_sim;
        try { const auto back = en::protocol::decode_manifest(uri); carried = back.expires_at == std::chrono::system_clock::time_point::max() ? INT64_MAX : wall_to_sim(back.expires_at); } catch (...) { ctx.probe("manifest_not_decodable"); continue; }
        const std::int64_t remaining = carried == INT64_MAX ? INT64_MAX : carried - now;
        // definitely unacceptable / definitely acceptable, with a guard band of 1.5 s around the edges (clock reads, whole seconds)
        const bool surely_rejected = remaining < mn * kSec - 1500 * kMs;
        const bool surely_fine = remaining >= mn * kSec + 1500 * kMs;
        if (!surely_rejected && !surely_fine) ctx.boundary("remaining_lifetime_at_min_ttl_edge");
        if (remaining > mx * kSec) ctx.boundary("expiry_beyond_max_ttl");
        if (remaining <= 0) ctx.boundary("already_expired");
        const Snap before = snapshot(i);
        if (!surely_rejected) {
            const std::int64_t cap = remaining > mx * kSec ? now + mx * kSec : carried;
            bound[i] = std::max(bound[i], cap);
            vbound[i][static_cast<std::size_t>(variant)] = std::max(vbound[i][static_cast<std::size_t>(variant)], cap);
        }
        if (op.k == "ingest") {
            const bool ok = node->ingest_manifest(uri);
            ctx.probe(ok ? "ingest_accepted" : "ingest_rejected");
            if (ok && surely_rejected) ctx.violate("C03.unacceptable_manifest_ingested", fmt("ingest_manifest accepted a manifest with %.3f s left (minimum TTL %lld s)", remaining / 1e9, (long long)mn));
        } else if (op.k == "announce") {
            en::protocol::AnnouncePayload a{};
            a.chunk_id = remote_id(i); a.peer_id = kPub; a.endpoint = op.at(4) == 0 ? "" : "10.0.0.9:4000"; a.ttl = seconds(op.at(2)); a.manifest_uri = uri;
            if (op.at(3) == 1 && !m.shards.empty()) a.assigned_shards = {m.shards[0].index};
            if (op.at(3) == 2 && m.shards.size() >= 2) a.assigned_shards = {m.shards[0].index, m.shards[1].index};
            node->handle_announce(a, kPub, en::protocol::kCurrentMessageVersion);
            ctx.probe("announce_delivered");
            sk::sleep_ns(1100 * kMs);  // stay outside the announce throttle (C21's subject)
        } else if (op.k == "replica") {
            // the importing thread may lose the processor for up to 0.3 s at any scheduling point inside the call (in a third of the runs):
            // the lifetime it grants must not depend on how long the import took
            if (p.knob("stalls", 0)) sk::set_deschedule(static_cast<std::uint32_t>(p.knob("stalls", 0)), 300 * kMs);
            const std::int64_t t0 = sk::now_ns();
            const auto got = node->receive_chunk(uri, variant ? cipher2[i] : cipher[i]);
            if (p.knob("stalls", 0)) { sk::set_deschedule(0, 0); if (sk::now_ns() > t0) { ctx.fault("import_stalled"); stall_slack[i] += sk::now_ns() - t0; } }
            ctx.probe(got ? "replica_accepted" : "replica_rejected");
            if (got && surely_rejected) ctx.violate("C03.unacceptable_manifest_replica_stored", fmt("receive_chunk accepted a replica under a manifest with %.3f s left (minimum TTL %lld s)", remaining / 1e9, (long long)mn));
        }
        if (surely_rejected) {
            const Snap after = snapshot(i);
            if (!(after == before))
                ctx.violate(std::string("C03.rejected_manifest_changed_state.") + op.k,
                            fmt("a manifest with %.3f s left (minimum TTL %lld s) delivered by %s changed node state for its chunk (key shares %s, replica %s, provider contacts %s, cached manifest %s, pending fetch %s)", remaining / 1e9, (long long)mn, op.k.c_str(),
                                after.shard_exp == before.shard_exp ? "same" : "changed", after.chunk_exp == before.chunk_exp ? "same" : "changed", after.holders == before.holders ? "same" : "changed",
                                after.manifest_exp == before.manifest_exp ? "same" : "changed", after.pending == before.pending ? "same" : "changed"));
        }
        check_bounds(op.k == "ingest" ? "after ingest" : op.k == "announce" ? "after announce" : "after replica receipt");
        ctx.state(static_cast<std::uint64_t>(i) * 8 + (surely_rejected ? 1 : 0) + (surely_fine ? 2 : 0) + (snapshot(i).pending ? 4 : 0));
    }
    // settle: far beyond every bound, after ticks, nothing derived may remain
    sk::sleep_ns((mx + 5) * kSec);
    node->tick();
    sk::sleep_ns((p.knob("cleanup", 5) + 1) * kSec);
    node->tick();
    for (int i = 0; i < 3; ++i) {
        if (bound[i] != INT64_MIN && sk::now_ns() <= bound[i] + kSec) continue;
        const Snap s = snapshot(i);
        if (s.shard_exp >= 0 || s.chunk_exp >= 0 || !s.holders.empty() || s.pending)
            ctx.violate("C03.state_left_after_expiry", fmt("chunk %d: long after every delivered manifest has expired and two ticks, the node still holds%s%s%s%s", i, s.shard_exp >= 0 ? " key shares" : "", s.chunk_exp >= 0 ? " a replica" : "",
                                                         s.holders.empty() ? "" : " provider contacts", s.pending ? " a pending fetch" : ""));
    }
    node.reset();
    pub.reset();
    pub2.reset();
}

sk::Knobs c03_knobs(const Plan& p) {
    sk::Knobs k;
    k.clock_jitter = p.knob("jitter", 0) != 0;
    k.jitter_ns = 200000;
    k.max_steps = 3'000'000;
    return k;
}

Scenario make_c03() {
    Scenario s;
    s.id = "C03"; s.world = "W1"; s.level = "exploration";
    s.technique = "deterministic simulation: a real consumer Node under the simulated steady and wall clocks (advancing in lock-step, optional per-read jitter) receives a real publisher's manifests with re-written expiry (expired, below/at/above the minimum TTL, ordinary, around and beyond the maximum TTL, centuries ahead, time_point::max) through ingest, announce (any advertised TTL, assigned shards, with/without endpoint), replica receipt and local fetch, interleaved with time advances and ticks; after every step key shares, replica, provider contacts and pending fetches are compared with the latest instant any acceptable delivered manifest allows";
    s.real_components = {"Node (ingest_manifest, handle_announce, receive_chunk, fetch_chunk, schedule_assigned_fetch, process_pending_fetches, tick)", "manifest_ttl / enforce_manifest_ttl", "KademliaTable, ChunkStore", "manifest codec"};
    s.stub_components = {"clocks (steady and system) simulated; announces reach the node through its handler entry point; no sockets in this world"};
    s.assumptions = {"with several manifests for one chunk the bound is the latest instant any acceptable one of them allows (min(expiry, arrival + max TTL)); key shares and copies are additionally bound by the manifests of the publisher whose key material / ciphertext they are (two publishers issue manifests for the same chunk ids)",
                     "1 s of slack on every comparison and a 1.5 s guard band around the minimum-TTL edge: TTLs are whole seconds and the node reads the clock after the driver; when stalls are injected into receive_chunk (up to 0.3 s at any scheduling point, a third of the runs) the slack for that chunk grows by the measured duration of the stalls, no more",
                     "private tables are read by compiling the harness with -fno-access-control (no hook)"};
    s.rule = "plan = TTL limits, cleanup interval, clock jitter + 4..30 operations (ingest / announce / replica / fetch with one of 20 relative expiries, time advances, ticks); non-trivial = a delivered manifest is expired, at the minimum-TTL edge or beyond the maximum TTL; distinct = plan hash; in a third of the runs the thread importing a replica is stalled for up to 0.3 s at any scheduling point inside receive_chunk; the store's default TTL is the minimum, the maximum or the middle of the window";
    s.gen = gen_c03; s.exec = exec_c03; s.kernel_knobs = c03_knobs;
    s.quick_runs = 30000; s.thorough_runs = 3000000; s.quick_secs = 45; s.thorough_secs = 900;
    add_swarm_variant(s, 100);
    return s;
}
Registrar reg_c03(make_c03);

}  // namespace
