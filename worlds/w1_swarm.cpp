// W1 — C22: every swarm distribution plan hands every shard to exactly one eligible provider,
// evenly, with the provider count the property states. Plans are produced by the real Node
// (store, ingest, announce handler, rebalance on tick) and checked the instant they appear.
#include "worlds/common.hpp"

#include <algorithm>

using namespace wl;

namespace {

const en::PeerId kSelf = make_id(0xA1, 0x11);

en::PeerId swarm_peer(int n) {
    en::PeerId id{};
    sk::Rng r(static_cast<std::uint64_t>(n) * 7919 + 13);
    for (auto& b : id) b = static_cast<std::uint8_t>(r.next() >> 11);
    id[31] = static_cast<std::uint8_t>(n);
    id[30] = static_cast<std::uint8_t>(n >> 8);
    return id;
}

Plan gen_c22(sk::Rng& r, Tier) {
    Plan p;
    p.knobs["target"] = r.pick<std::int64_t>({0, 1, 2, 3, 3, 5, 9});
    p.knobs["minprov"] = r.pick<std::int64_t>({0, 1, 2, 2, 4, 8});
    p.knobs["sample"] = r.pick<std::int64_t>({0, 1, 3, 8, 8, 16, 40});
    p.knobs["threshold"] = r.range(1, 5);
    p.knobs["total"] = r.range(1, 8);
    p.knobs["rebalance"] = r.pick<std::int64_t>({5, 60, 1800});
    const int peers = static_cast<int>(r.pick<std::int64_t>({0, 1, 2, 3, 5, 8, 12, 40}));
    for (int i = 0; i < peers; ++i) p.ops.push_back(Op{"peer", {i, r.pick<std::int64_t>({1, 30, 900, 900}), static_cast<std::int64_t>(r.below(3))}, ""});
    const int n = static_cast<int>(r.range(3, 25));
    for (int i = 0; i < n; ++i) {
        Op op;
        const auto c = r.below(100);
        if (c < 25) { op.k = "store"; op.a = {static_cast<std::int64_t>(r.below(4)), static_cast<std::int64_t>(r.below(100))}; }
        else if (c < 45) { op.k = "ingest"; op.a = {static_cast<std::int64_t>(r.below(4)), r.pick<std::int64_t>({1, 2, 3, 5, 17, 100, 254}), r.range(1, 6), r.pick<std::int64_t>({1, 1, 2, 3, 4, 5, 6, 8}), static_cast<std::int64_t>(r.below(3)), static_cast<std::int64_t>(r.below(2))}; }  // chunk, shards, threshold, label stride, label base, reversed
        else if (c < 55) { op.k = "announce"; op.a = {static_cast<std::int64_t>(r.below(4)), r.pick<std::int64_t>({1, 3, 7, 64}), r.range(1, 4), static_cast<std::int64_t>(r.below(40)), r.pick<std::int64_t>({1, 1, 2, 3, 4, 5, 6, 8}), static_cast<std::int64_t>(r.below(3)), static_cast<std::int64_t>(r.below(2))}; }
        else if (c < 68) { op.k = "peer"; op.a = {static_cast<std::int64_t>(r.below(44)), r.pick<std::int64_t>({1, 30, 900}), static_cast<std::int64_t>(r.below(3))}; }
        else if (c < 80) { op.k = "load"; op.a = {static_cast<std::int64_t>(r.below(44)), static_cast<std::int64_t>(r.below(4)), static_cast<std::int64_t>(r.below(6))}; }  // peer, kind, amount
        else if (c < 90) { op.k = "adv"; op.a = {r.pick<std::int64_t>({500, 1000, 5000, 31000, 60000, 901000})}; }
        else { op.k = "tick"; }
        p.ops.push_back(op);
    }
    return p;
}

void exec_c22(const Plan& p, Ctx& ctx) {
    en::Config c = base_config(31);
    c.swarm_target_replicas = static_cast<std::uint16_t>(p.knob("target"));
    c.swarm_min_providers = static_cast<std::uint16_t>(p.knob("minprov"));
    c.swarm_candidate_sample = static_cast<std::uint16_t>(p.knob("sample"));
    c.shard_threshold = static_cast<std::uint8_t>(p.knob("threshold"));
    c.shard_total = static_cast<std::uint8_t>(p.knob("total"));
    c.swarm_rebalance_interval = seconds(p.knob("rebalance"));
    c.min_manifest_ttl = seconds(1); c.max_manifest_ttl = seconds(7200); c.default_chunk_ttl = seconds(3600);
    c.cleanup_interval = seconds(100000);
    c.announce_min_interval = seconds(1); c.announce_burst_limit = 1000;
    auto node = std::make_unique<en::Node>(kSelf, c);
    std::map<std::string, std::int64_t> plan_seen;  // chunk key -> created_at already checked
    std::uint64_t tag = 1;

    auto expected_count = [&](std::size_t cand, std::size_t shards, std::size_t threshold) {
        const std::size_t target = static_cast<std::size_t>(p.knob("target")), minp = static_cast<std::size_t>(p.knob("minprov"));
        return std::min({cand, shards, std::max(target, std::min({std::max(minp, threshold), cand, shards}))});
    };

    // candidates as the coordinator saw them: taken by the driver BEFORE the operation, because
    // handle_announce registers the announcer in the routing table after the plan is computed
    auto candidates_for = [&](const en::ChunkId& id) {
        en::PeerId target{};
        std::copy(id.begin(), id.end(), target.begin());
        auto cands = node->dht_.closest_peers(target, std::max<std::size_t>(static_cast<std::size_t>(p.knob("sample")), 1));
        cands.erase(std::remove_if(cands.begin(), cands.end(), [&](const en::PeerContact& ct) { return ct.id == kSelf; }), cands.end());
        return cands;
    };

    auto check_plan = [&](const en::ChunkId& id, const char* via, const std::vector<en::PeerContact>& cands) {
        const auto plan = node->swarm_plan(id);
        const auto key = en::chunk_id_to_string(id);
        if (!plan) return;
        const std::int64_t created = steady_to_sim(plan->created_at);
        if (plan_seen.count(key) && plan_seen[key] == created) return;  // already judged when it was produced
        if (created != sk::now_ns()) return;  // judged only at the instant it was produced (same table state)
        plan_seen[key] = created;
        auto mit = node->manifest_cache_.find(key);
        if (mit == node->manifest_cache_.end()) return;
        const auto& manifest = mit->second;
        const std::size_t shards = manifest.shards.size();
        const std::size_t want = shards == 0 ? 0 : expected_count(cands.size(), shards, manifest.threshold);
        ctx.probe("plans_checked");
        if (cands.size() > shards && shards > 0) ctx.probe("more_candidates_than_shards");
        if (manifest.threshold > std::max(p.knob("target"), p.knob("minprov")) && cands.size() > static_cast<std::size_t>(std::max(p.knob("target"), p.knob("minprov")))) ctx.boundary("threshold_dominates_provider_count");
        if (plan->assignments.size() != want)
            ctx.violate("C22.provider_count", fmt("plan via %s has %zu providers, expected %zu (candidates %zu, shards %zu, threshold %u, target %lld, min %lld)", via, plan->assignments.size(), want, cands.size(), shards, manifest.threshold, (long long)p.knob("target"), (long long)p.knob("minprov")));
        std::set<std::string> providers;
        std::vector<int> assigned;
        std::size_t lo = SIZE_MAX, hi = 0;
        for (auto& a : plan->assignments) {
            const auto pk = en::peer_id_to_string(a.peer.id);
            if (!providers.insert(pk).second) ctx.violate("C22.duplicate_provider", fmt("provider %s appears twice in plan via %s", pk.substr(0, 8).c_str(), via));
            if (a.peer.id == kSelf) ctx.violate("C22.self_provider", fmt("plan via %s assigns shards to the node itself", via));
            if (a.peer.expires_at <= plan->created_at) ctx.violate("C22.expired_provider", fmt("plan via %s uses a provider whose contact expired", via));
            bool is_cand = false;
            for (auto& ct : cands) if (ct.id == a.peer.id) is_cand = true;
            if (!is_cand) ctx.violate("C22.non_candidate_provider", fmt("plan via %s uses a provider outside the candidate sample", via));
            if (a.shard_indices.empty()) ctx.violate("C22.provider_without_shard", fmt("plan via %s has a provider with no shard", via));
            lo = std::min(lo, a.shard_indices.size());
            hi = std::max(hi, a.shard_indices.size());
            for (auto s : a.shard_indices) assigned.push_back(s);
        }
        if (!plan->assignments.empty()) {
            if (hi - lo > 1) ctx.violate("C22.uneven", fmt("plan via %s: shard counts range %zu..%zu", via, lo, hi));
            std::vector<int> labels;
            for (auto& s : manifest.shards) labels.push_back(s.index);
            std::sort(labels.begin(), labels.end());
            std::sort(assigned.begin(), assigned.end());
            if (labels != assigned) ctx.violate("C22.shard_coverage", fmt("plan via %s assigns %zu shard labels, manifest has %zu (each shard must go to exactly one provider)", via, assigned.size(), labels.size()));
        }
        ctx.state(static_cast<std::uint64_t>(cands.size()) * 1000003 + shards * 257 + plan->assignments.size());
    };

    // shard labels (Shamir x-coordinates) need only be distinct and non-zero: a manifest from elsewhere may carry any such set,
    // e.g. every second label, multiples of the provider count, or a descending order. stride 0/1 = 1..n as the node's own split gives.
    auto harness_manifest = [&](const en::ChunkId& id, int shards, int threshold, std::int64_t stride = 1, std::int64_t base_kind = 0, bool reversed = false) {
        en::protocol::Manifest m{};
        m.chunk_id = id;
        m.threshold = static_cast<std::uint8_t>(std::min(threshold, shards));
        m.total_shares = static_cast<std::uint8_t>(shards);
        m.expires_at = std::chrono::system_clock::time_point(std::chrono::nanoseconds(sk::kWallEpochNs + sk::now_ns() + 3000 * kSec));
        if (stride < 1) stride = 1;
        std::int64_t base = base_kind == 0 ? 1 : base_kind == 1 ? 2 : stride;
        if (base + static_cast<std::int64_t>(shards - 1) * stride > 255) { stride = 1; base = 1; }
        if (stride > 1) ctx.probe("manifest_with_non_contiguous_shard_labels");
        for (int i = 0; i < shards; ++i) { en::protocol::KeyShard s{}; s.index = static_cast<std::uint8_t>(base + i * stride); s.value.fill(static_cast<std::uint8_t>(i)); m.shards.push_back(s); }
        if (reversed) std::reverse(m.shards.begin(), m.shards.end());
        return m;
    };

    for (auto& op : p.ops) {
        ++ctx.ops_done;
        if (op.k == "peer") {
            en::PeerContact ct{};
            ct.id = swarm_peer(static_cast<int>(op.at(0)));
            ct.address = "10.3." + std::to_string(op.at(2)) + "." + std::to_string(op.at(0)) + ":4" + std::to_string(100 + op.at(0));
            ct.expires_at = steady_at(sk::now_ns() + op.at(1) * kSec);
            node->register_peer_contact(ct);
        } else if (op.k == "load") {
            const auto pid = swarm_peer(static_cast<int>(op.at(0)));
            const auto key = en::peer_id_to_string(pid);
            switch (op.at(1)) {
                case 0: node->active_uploads_per_peer_[key] = static_cast<std::size_t>(op.at(2)); break;
                case 1: for (int i = 0; i < op.at(2); ++i) node->reputation_.record_success(pid); break;
                case 2: for (int i = 0; i < op.at(2); ++i) node->reputation_.record_failure(pid); break;
                default: node->swarm_roles_["x" + std::to_string(op.at(2))].seeds.insert(key); break;
            }
        } else if (op.k == "store") {
            const auto id = make_id(static_cast<std::uint8_t>(op.at(0) + 1), 0x44);
            const auto cands = candidates_for(id);
            node->store_chunk(id, make_payload(static_cast<std::size_t>(op.at(1)), tag++), seconds(600));
            check_plan(id, "store", cands);
        } else if (op.k == "ingest") {
            const auto id = make_id(static_cast<std::uint8_t>(op.at(0) + 1), 0x44);
            const auto m = harness_manifest(id, static_cast<int>(op.at(1)), static_cast<int>(op.at(2)), op.at(3, 1), op.at(4), op.at(5) != 0);
            const auto cands = candidates_for(id);
            if (node->ingest_manifest(en::protocol::encode_manifest(m))) check_plan(id, "ingest", cands);
        } else if (op.k == "announce") {
            const auto id = make_id(static_cast<std::uint8_t>(op.at(0) + 1), 0x44);
            const auto m = harness_manifest(id, static_cast<int>(op.at(1)), static_cast<int>(op.at(2)), op.at(4, 1), op.at(5), op.at(6) != 0);
            en::protocol::AnnouncePayload a{};
            a.chunk_id = id; a.peer_id = swarm_peer(static_cast<int>(op.at(3))); a.endpoint = "10.3.9.9:4000"; a.ttl = seconds(300);
            a.manifest_uri = en::protocol::encode_manifest(m);
            const auto cands = candidates_for(id);
            node->handle_announce(a, a.peer_id, en::protocol::kCurrentMessageVersion);
            check_plan(id, "announce", cands);
        } else if (op.k == "adv") {
            sk::sleep_ns(op.at(0) * kMs);
        } else if (op.k == "tick") {
            std::vector<std::vector<en::PeerContact>> before;
            for (int i = 0; i < 4; ++i) before.push_back(candidates_for(make_id(static_cast<std::uint8_t>(i + 1), 0x44)));
            node->tick();
            for (int i = 0; i < 4; ++i) check_plan(make_id(static_cast<std::uint8_t>(i + 1), 0x44), "rebalance", before[static_cast<std::size_t>(i)]);
        }
        // no two operations share an instant, so a plan's creation time identifies the operation that made it
        sk::sleep_ns(kMs);
    }
    node.reset();
}

Scenario make_c22() {
    Scenario s;
    s.id = "C22"; s.world = "W1"; s.level = "exploration";
    s.technique = "deterministic simulation: seeded routing-table populations, loads, reputations and swarm configurations on a real Node; invariant evaluated on every plan at the instant it is produced (store, ingest, announce, rebalance)";
    s.real_components = {"Node (update_swarm_plan, rebalance_swarm_plans, gather_peer_load)", "SwarmCoordinator::compute_plan", "KademliaTable::closest_peers", "Manifest codec"};
    s.stub_components = {"OS clock -> simulated", "peer loads/reputations injected into the node's ledgers rather than produced by real transfers (those are C23/C24)"};
    s.assumptions = {"candidates = closest_peers(chunk, max(sample,1)) minus self, evaluated by the driver at the same simulated instant as the plan"};
    s.rule = "plan = swarm config (target, min providers, sample, shard config, rebalance interval) + 0..40 peers with expiries + 3..25 ops (store, ingest of manifests with 1..254 shards whose labels are base+i*stride (stride 1..8, ascending or descending), announce of such manifests, peer refresh, load injection, advance, tick); non-trivial = the manifest threshold, not target/min, decides the provider count; distinct = plan hash";
    s.gen = gen_c22; s.exec = exec_c22;
    s.kernel_knobs = [](const Plan&) { sk::Knobs k; k.preempt_per_1024 = 0; return k; };
    s.quick_runs = 30000; s.thorough_runs = 1500000; s.quick_secs = 40; s.thorough_secs = 600;
    return s;
}
Registrar reg_c22(make_c22);

}  // namespace
