// W4 — C28: STORE admission enforces size, TTL, PoW and an unforgeable rate limit, against the
// real `eph serve` main without a control token; scripted clients on two simulated hosts.
#include "worlds/w4_common.hpp"

using namespace wl;

namespace {

constexpr std::int64_t kCap = 4096;     // --max-store-bytes
constexpr std::int64_t kMinTtl = 10, kMaxTtl = 600;

// How a number is spelt in a request header. 0: plain decimal. 1: '-' followed by 2^64 - v (a huge negative number that a wrapping
// parser reads as v). 2: v + 2^64 in decimal (reads as v modulo 2^64). 3: "+v". 4: " v". 5: hexadecimal. Spellings 1 and 2 denote
// integers outside every window and cap; 3..5 are merely unusual and are not judged.
std::string spell_number(std::int64_t v, std::int64_t spelling) {
    auto dec128 = [](unsigned __int128 x) { std::string d; if (x == 0) d = "0"; while (x > 0) { d.insert(d.begin(), static_cast<char>('0' + static_cast<int>(x % 10))); x /= 10; } return d; };
    const unsigned __int128 two64 = static_cast<unsigned __int128>(1) << 64;
    const unsigned __int128 uv = static_cast<unsigned __int128>(static_cast<std::uint64_t>(v));
    switch (spelling) {
        case 1: return "-" + dec128(two64 - uv);
        case 2: return dec128(two64 + uv);
        case 3: return "+" + std::to_string(v);
        case 4: return " " + std::to_string(v);
        case 5: { char b[32]; snprintf(b, sizeof b, "0x%llx", static_cast<unsigned long long>(v)); return b; }
        default: return std::to_string(v);
    }
}

Plan gen_c28(sk::Rng& r, Tier) {
    Plan p;
    gen_w4_knobs(p, r);
    const bool flood = r.chance(1, 2);
    const int n = static_cast<int>(flood ? r.range(8, 30) : r.range(3, 12));
    for (int i = 0; i < n; ++i) {
        Op op;
        const auto c = r.below(100);
        if (c < (flood ? 60 : 50)) {
            op.k = "store";
            // size, ttl, pow kind (0 valid, 1 invalid, 2 missing), TOKEN header (0 none, 1 fresh value), source host, withhold body, filename kind
            const std::int64_t size = flood ? r.range(1, 200) : r.pick<std::int64_t>({0, 1, 100, kCap - 1, kCap, kCap + 1, kCap * 4, 1 << 30});
            const std::int64_t ttl = flood ? 60 : r.pick<std::int64_t>({0, 1, kMinTtl - 1, kMinTtl, 60, kMaxTtl, kMaxTtl + 1, 1 << 30});
            // third element = proof-of-work: 0 valid, 1 invalid, 2 missing, 3 one zero bit short
            op.a = {size, ttl, flood ? 0 : r.pick<std::int64_t>({0, 0, 1, 2, 3}), static_cast<std::int64_t>(r.below(2)), static_cast<std::int64_t>(r.below(flood ? 1 : 2)),
                    static_cast<std::int64_t>(size > kCap ? r.below(2) : 0), static_cast<std::int64_t>(r.below(3)),
                    // spelling of the TTL and of the declared length (mostly plain)
                    flood || !r.chance(1, 5) ? 0 : r.range(1, 5), flood || !r.chance(1, 5) ? 0 : r.range(1, 5)};
        } else if (c < (flood ? 85 : 65)) { op.k = "fetch"; op.a = {static_cast<std::int64_t>(r.below(2)), static_cast<std::int64_t>(r.below(flood ? 1 : 2))}; }
        else { op.k = "wait"; op.a = {r.pick<std::int64_t>({100, 1000, 5000, 29000, 31000})}; }
        p.ops.push_back(op);
    }
    // a crowd: many other addresses, one accepted request each, in the middle of a flood (the limit is per address whatever
    // the number of addresses the daemon has seen)
    if (flood && r.chance(1, 4)) {
        Op op; op.k = "crowd"; op.a = {r.pick<std::int64_t>({20, 130, 200, 300}), static_cast<std::int64_t>(r.below(2))};
        p.ops.insert(p.ops.begin() + static_cast<std::ptrdiff_t>(r.range(static_cast<std::int64_t>(p.ops.size()) / 2, static_cast<std::int64_t>(p.ops.size()) - 1)), op);
    }
    return p;
}

struct Acc { std::int64_t s, e; };

void exec_c28(const Plan& p, Ctx& ctx) {
    capture_reset();
    Daemon d;
    d.extra_args = {"--min-ttl", std::to_string(kMinTtl), "--max-ttl", std::to_string(kMaxTtl), "--default-ttl", "60", "--max-store-bytes", std::to_string(kCap)};
    d.start();
    if (!d.wait_ready()) { ctx.violate("C28.setup_failed", "daemon did not answer PING: " + sk::info(d.pid).exit_detail); d.stop(); return; }
    Actor clients[2];
    clients[0].start("client-a", sk::ip(10, 0, 9, 1));
    clients[1].start("client-b", sk::ip(10, 0, 9, 2));
    const std::string host = ip_text(d.host);
    std::vector<Acc> stores[2], fetches[2];
    std::string manifest;
    std::uint64_t uniq = 1;

    auto window_check = [&](std::vector<Acc>& v, std::size_t limit, const char* key, const char* what, int src) {
        if (v.size() <= limit) return;
        // the newest `limit + 1` acceptances: all inside one open 30 s window for certain?
        const Acc& first = v[v.size() - limit - 1];
        const std::int64_t widest = v.back().e - first.s;
        if (widest < 30 * kSec)
            ctx.violate(key, fmt("%zu %s from one address (host %d) were accepted within %.3f s; the limit is %zu per 30 s", limit + 1, what, src, widest / 1e9, limit));
        if (std::llabs(widest - 30 * kSec) < 1500 * kMs) ctx.boundary("acceptances_straddle_window_edge");
    };

    for (auto& op : p.ops) {
        ++ctx.ops_done;
        if (!sk::alive(d.pid)) { ctx.violate("C28.daemon_died", "the daemon process ended: " + sk::info(d.pid).exit_detail); break; }
        if (op.k == "wait") { sk::sleep_ns(op.at(0) * kMs); continue; }
        if (op.k == "store") {
            const std::int64_t declared = op.at(0), ttl = op.at(1);
            const int pow_kind = static_cast<int>(op.at(2)), src = static_cast<int>(op.at(4));
            const bool withhold = op.at(5) != 0;
            const std::size_t real_size = static_cast<std::size_t>(std::min<std::int64_t>(declared, 3 * kCap));
            const auto pl = make_payload(real_size, 20000 + uniq);
            ++uniq;
            std::vector<std::uint8_t> body(pl.begin(), pl.end());
            const std::string path = op.at(6) == 0 ? "" : (op.at(6) == 1 ? "note.txt" : "some/dir/blob.bin");
            const std::string sanitized = op.at(6) == 0 ? "" : (op.at(6) == 1 ? "note.txt" : "blob.bin");
            std::vector<std::pair<std::string, std::string>> f{{"COMMAND", "STORE"}, {"TTL", spell_number(ttl, op.at(7))}};
            if (!path.empty()) f.push_back({"PATH", path});
            std::uint64_t nonce = 0;
            if (pow_kind == 3) { for (nonce = 1; leading_zero_bits(store_pow_digest(body, sanitized, nonce)) != 5; ++nonce) {} f.push_back({"STORE-POW", std::to_string(nonce)}); ctx.boundary("store_pow_one_bit_short"); }
            else if (pow_kind != 2) { nonce = ref_solve_store_pow(body, sanitized, 6, pow_kind == 0); f.push_back({"STORE-POW", std::to_string(nonce)}); }
            if (op.at(3)) f.push_back({"TOKEN", "forged-" + std::to_string(uniq) + "-" + std::to_string(sk::now_ns())});
            f.push_back({"PAYLOAD-LENGTH", spell_number(declared, op.at(8))});
            // what the header texts denote as integers: the wrapped spellings (1, 2) are far outside every cap and window
            const std::int64_t ttl_spelling = op.at(7), len_spelling = op.at(8);
            const bool unusual_spelling = ttl_spelling >= 3 || len_spelling >= 3;   // "+v", " v", hexadecimal: tolerated or refused, not judged
            const bool over_cap = declared > kCap || len_spelling == 1 || len_spelling == 2;
            const bool ttl_ok = ttl >= kMinTtl && ttl <= kMaxTtl && ttl_spelling != 1 && ttl_spelling != 2;
            if (ttl_spelling == 1 || ttl_spelling == 2 || len_spelling == 1 || len_spelling == 2) ctx.boundary("header_number_that_wraps_modulo_2_64");
            const bool pow_ok = pow_kind == 0;
            if (over_cap) ctx.boundary("declared_length_above_cap");
            if (!ttl_ok) ctx.boundary("ttl_outside_window");
            if (!pow_ok) ctx.boundary("pow_invalid_or_missing");
            if (op.at(3)) ctx.boundary("forged_token_header");
            CtlReply rep;
            const std::int64_t t0 = sk::now_ns();
            clients[src].call([&] { rep = ctl_exchange(host, d.control_port, ctl_headers(f), body, withhold || (over_cap && declared > 3 * kCap), 15000, 1); });
            const std::int64_t t1 = sk::now_ns();
            const std::string code = rep.field("CODE");
            if (unusual_spelling) {
                ctx.probe(rep.ok ? "unusual_number_spelling_accepted" : "unusual_number_spelling_refused");
                if (rep.ok) { stores[src].push_back({t0, t1}); window_check(stores[src], 6, "C28.store_rate_limit", "STOREs", src); if (manifest.empty()) manifest = rep.field("MANIFEST"); }
                continue;
            }
            if (over_cap) {
                if (rep.ok) ctx.violate("C28.oversized_store_accepted", fmt("STORE declaring PAYLOAD-LENGTH:%s (cap %lld) was accepted", spell_number(declared, len_spelling).c_str(), (long long)kCap));
                else if (!rep.got_status) ctx.violate("C28.oversized_store_not_refused_from_headers", fmt("STORE declaring %lld bytes (cap %lld) with the body withheld got no refusal within 15 s: the server waits for the body", (long long)declared, (long long)kCap));
                else if (code.find("TOO_LARGE") == std::string::npos) ctx.probe("oversized_refused_with_other_code");
                continue;
            }
            if (rep.ok) {
                ctx.probe("store_accepted");
                if (!ttl_ok) ctx.violate("C28.ttl_outside_window_accepted", fmt("STORE with TTL:%s accepted; window is [%lld,%lld]", spell_number(ttl, ttl_spelling).c_str(), (long long)kMinTtl, (long long)kMaxTtl));
                if (!pow_ok) ctx.violate("C28.invalid_pow_accepted", fmt("STORE with %s proof-of-work accepted (difficulty 6)", pow_kind == 2 ? "missing" : "invalid"));
                if (pow_ok && !ref_store_pow_ok(body, sanitized, nonce, 6)) ctx.violate("C28.reference_pow_mismatch", "harness reference disagrees with its own solver");
                stores[src].push_back({t0, t1});
                window_check(stores[src], 6, "C28.store_rate_limit", "STOREs", src);
                if (manifest.empty()) manifest = rep.field("MANIFEST");
            } else if (rep.got_status) {
                ctx.probe("store_refused_" + code);
                // everything admissible and under the rate limit must not be refused for a gate reason that does not apply
                if (ttl_ok && code == "ERR_STORE_TTL_OUT_OF_RANGE") ctx.violate("C28.valid_ttl_refused", fmt("STORE with TTL %lld s inside [%lld,%lld] refused as out of range", (long long)ttl, (long long)kMinTtl, (long long)kMaxTtl));
                if (pow_ok && ttl_ok && (code == "ERR_STORE_POW_INVALID" || code == "ERR_STORE_POW_REQUIRED"))
                    ctx.violate("C28.valid_pow_refused", "STORE with a nonce that satisfies the reference check for (payload hash, size, sanitised filename) was refused: " + code);
            } else {
                ctx.violate("C28.no_reply", "STORE got no response");
            }
        } else if (op.k == "crowd") {
            const int count = static_cast<int>(op.at(0));
            const bool fetch = op.at(1) != 0 && !manifest.empty();
            int accepted = 0;
            for (int i = 0; i < count && sk::alive(d.pid); ++i) {
                const auto pl = make_payload(10 + static_cast<std::size_t>(i % 50), 30000 + uniq);
                ++uniq;
                std::vector<std::uint8_t> body(pl.begin(), pl.end());
                std::vector<std::pair<std::string, std::string>> f;
                if (fetch) f = {{"COMMAND", "FETCH"}, {"MANIFEST", manifest}, {"STREAM", "client"}};
                else f = {{"COMMAND", "STORE"}, {"TTL", "60"}, {"STORE-POW", std::to_string(ref_solve_store_pow(body, "", 6, true))}, {"PAYLOAD-LENGTH", std::to_string(body.size())}};
                CtlReply rep;
                const int pid = sk::spawn("crowd-" + std::to_string(i), sk::ip(10, 0, static_cast<std::uint8_t>(20 + i / 250), static_cast<std::uint8_t>(1 + i % 250)),
                                          [&] { rep = ctl_exchange(host, d.control_port, ctl_headers(f), fetch ? std::vector<std::uint8_t>{} : body, false, 15000, 1); return 0; }, 1u << 20);
                sk::wait_exit(pid, 60 * kSec);
                if (rep.ok) ++accepted;
            }
            if (accepted >= 128) ctx.boundary("crowd_of_128_or_more_addresses_in_one_window");
            ctx.probe("crowd");
        } else if (op.k == "fetch") {
            if (manifest.empty()) continue;
            const int src = static_cast<int>(op.at(1));
            std::vector<std::pair<std::string, std::string>> f{{"COMMAND", "FETCH"}, {"MANIFEST", manifest}, {"STREAM", "client"}};
            if (op.at(0)) f.push_back({"TOKEN", "forged-" + std::to_string(uniq++) + "-" + std::to_string(sk::now_ns())});
            CtlReply rep;
            const std::int64_t t0 = sk::now_ns();
            clients[src].call([&] { rep = ctl_exchange(host, d.control_port, ctl_headers(f), {}, false, 15000, 1); });
            const std::int64_t t1 = sk::now_ns();
            if (rep.ok) {
                ctx.probe("stream_fetch_accepted");
                fetches[src].push_back({t0, t1});
                window_check(fetches[src], 12, "C28.fetch_rate_limit", "streamed FETCHes", src);
            }
        }
        ctx.state(stores[0].size() * 64 + stores[1].size() * 8 + fetches[0].size());
    }
    for (auto& c : clients) c.shutdown();
    d.stop();
}

Scenario make_c28() {
    Scenario s;
    s.id = "C28"; s.world = "W4"; s.level = "exploration";
    s.technique = "deterministic simulation: the real `eph serve` main without a control token (cap 4 KiB, TTL window [10,600] s, store PoW 6 bits); scripted clients on two simulated addresses send STOREs with declared sizes around the cap (body withheld), TTLs around the window, valid/invalid/missing PoW for (hash,size,sanitised name), bursts of STOREs/streamed FETCHes with a different forged TOKEN header each time, across 30 s windows of simulated time";
    s.real_components = {"src/main.cpp serve path (real main())", "ControlServer (parse_request, handle_store, handle_fetch, rate limiter)", "security::StoreProof", "Node::store_chunk"};
    s.stub_components = {"OS: threads -> fibers, sockets -> simulated TCP (accept/getpeername report the simulated peer address), clock, entropy", "control clients are scripted raw requests; PoW solved/checked by an independent reference"};
    s.assumptions = {"acceptance times are known as [send, reply] intervals; the rate rule is flagged only when limit+1 acceptances lie inside one open 30 s window for certain"};
    s.rule = "plan = network knobs + either 3..12 mixed requests (size x TTL x PoW kind x forged TOKEN x source x withheld body x filename) or a flood of 8..30 small valid STOREs/FETCHes from one address with waits of 0.1..31 s, in a quarter of the floods with a crowd of 20..300 other addresses (one accepted request each) in the middle; non-trivial = a length above the cap, a TTL outside the window, bad PoW, a forged TOKEN header, acceptances straddling a window edge, or 128+ crowd addresses accepted; distinct = plan hash";
    s.gen = gen_c28; s.exec = exec_c28; s.kernel_knobs = w4_knobs;
    s.quick_runs = 2500; s.thorough_runs = 100000; s.quick_secs = 55; s.thorough_secs = 900;
    return s;
}
Registrar reg_c28(make_c28);

}  // namespace
