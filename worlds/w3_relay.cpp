// World W3 — relay world. The real relay::EventLoop + relay::RelayServer run `loop.run()` in their
// own simulated process on simulated epoll/eventfd/non-blocking sockets; scripted clients issue
// REGISTER / CONNECT / identity / data / garbage / disconnect sequences with arbitrary write
// fragmentation over small socket buffers. C25 (bridges deliver only to the partner) is decided by
// a trace oracle over what every client received; C26 (never crashes, releases everything) by the
// sanitizers, the descriptor table and the server's own maps.
#include "worlds/net_common.hpp"

#include <cctype>

#include "ephemeralnet/relay/EventLoop.hpp"
#include "ephemeralnet/relay/RelayServer.hpp"

using namespace wl;
namespace rl = ephemeralnet::relay;

namespace {

constexpr std::uint16_t kRelayPort = 9750;

struct RelayProc {
    int pid = -1;
    std::unique_ptr<rl::EventLoop> loop;
    std::unique_ptr<rl::RelayServer> server;
    bool started = false, failed = false;
    void start() {
        pid = sk::spawn("relay", sk::ip(10, 0, 5, 1), [this] {
            ::signal(SIGPIPE, SIG_IGN);  // as src/relay/main.cpp does
            loop = std::make_unique<rl::EventLoop>();
            rl::RelayServerConfig cfg;
            cfg.listen_host = "0.0.0.0";
            cfg.listen_port = kRelayPort;
            server = std::make_unique<rl::RelayServer>(*loop, cfg);
            if (!server->start()) { failed = true; return 1; }
            started = true;
            loop->run();
            server->stop();
            return 0;
        });
        sk::wait_until([this] { return started || failed; }, 10 * kSec);
    }
    void stop() {
        if (pid < 0 || !sk::alive(pid)) return;
        // what the SIGTERM handler of the relay binary does
        sk::go("relay.stopper", [this] { if (loop) loop->stop(); });
        sk::wait_exit(pid, 30 * kSec);
    }
};

struct RxChunk { std::int64_t at; std::vector<std::uint8_t> bytes; };
struct ClientIo {
    std::vector<RxChunk> rx;
    std::int64_t eof_at = -1;
    bool reset = false;
};

struct Client {
    Actor actor;
    int fd = -1;
    bool open = false, closed_by_us = false;
    std::int64_t closed_at = -1;
    std::shared_ptr<ClientIo> io;
    int role = 0;                 // 0 none, 1 registered (target), 2 connector
    int reg_id = -1;              // id it registered / connects as
    int target_id = -1;           // connector: id it asked for
    std::int64_t identity_done_at = -1;
    std::size_t data_records = 0; // tagged records written after the bridge existed (seq 0..n-1)
    bool sent_early = false;
    bool sent_garbage = false;    // anything that may put the session in an unmodelled state
    int registers = 0, connects = 0;
    int tag = -1;                 // unique per connection instance (0..15): identifies the bytes it writes
};

std::string id_hex(int j) { return en::peer_id_to_string(make_id(static_cast<std::uint8_t>(0x90 + j), 0x77)); }
// the same id as a client may spell it on the wire: 0 lower case, 1 upper case, 2 mixed
std::string id_spelt(int j, std::int64_t spelling) {
    std::string h = id_hex(j);
    if (spelling == 1) for (auto& ch : h) ch = static_cast<char>(std::toupper(static_cast<unsigned char>(ch)));
    if (spelling == 2) { bool up = true; for (auto& ch : h) if (std::isalpha(static_cast<unsigned char>(ch))) { if (up) ch = static_cast<char>(std::toupper(static_cast<unsigned char>(ch))); up = !up; } }
    return h;
}

std::vector<std::uint8_t> identity_block(int c) { return std::vector<std::uint8_t>(32, static_cast<std::uint8_t>(0xF0 + c)); }
void append_record(std::vector<std::uint8_t>& out, int c, std::size_t seq) {
    out.push_back(static_cast<std::uint8_t>(0xE0 + c));
    out.push_back(static_cast<std::uint8_t>(0x80 | ((seq >> 14) & 0x7f)));
    out.push_back(static_cast<std::uint8_t>(0x80 | ((seq >> 7) & 0x7f)));
    out.push_back(static_cast<std::uint8_t>(0x80 | (seq & 0x7f)));
}

bool send_fragmented(int fd, const std::vector<std::uint8_t>& bytes, int pieces) {
    std::size_t off = 0;
    const std::size_t piece = std::max<std::size_t>(1, bytes.size() / static_cast<std::size_t>(std::max(pieces, 1)));
    while (off < bytes.size()) {
        const std::size_t n = std::min(piece, bytes.size() - off);
        std::size_t done = 0;
        while (done < n) {
            const ssize_t r = ::send(fd, bytes.data() + off + done, n - done, MSG_NOSIGNAL);
            if (r <= 0) return false;
            done += static_cast<std::size_t>(r);
        }
        off += n;
        if (pieces > 1) sk::sleep_ns(200'000);
    }
    return true;
}

Plan gen_relay(sk::Rng& r, bool garbage) {
    Plan p;
    p.knobs["buf_min"] = r.pick<std::int64_t>({1, 16, 300, 4096});
    p.knobs["buf_max"] = r.pick<std::int64_t>({64, 4096, 65536});
    p.knobs["lat_max_us"] = r.pick<std::int64_t>({0, 300, 5000});
    p.knobs["preempt"] = r.pick<std::int64_t>({0, 128, 512});
    p.knobs["short_io"] = r.pick<std::int64_t>({0, 256, 700});
    p.knobs["clients"] = r.range(2, 6);
    const std::int64_t nc = p.knobs["clients"];
    const int n = static_cast<int>(r.range(6, 40));
    // generator-side sketch of what each client has done, to make most steps meaningful (it is a bias, not an oracle)
    std::vector<int> gstate(static_cast<std::size_t>(nc), 0);   // 0 fresh, 1 registered, 2 connector awaiting identity, 3 bridged-ish
    std::vector<int> gid(static_cast<std::size_t>(nc), -1);
    std::vector<std::vector<int>> gold(static_cast<std::size_t>(nc));  // ids this connection registered under earlier and has since replaced
    for (int i = 0; i < n; ++i) {
        Op op;
        const auto c = r.below(100);
        const std::int64_t cl = static_cast<std::int64_t>(r.below(static_cast<std::uint64_t>(nc)));
        const std::int64_t frag = r.pick<std::int64_t>({1, 1, 2, 5, 33});
        if (r.chance(3, 5)) {
            // a sensible next step for this client
            int& st = gstate[static_cast<std::size_t>(cl)];
            if (st == 0) {
                std::vector<int> registered;
                for (std::int64_t o = 0; o < nc; ++o) if (gstate[static_cast<std::size_t>(o)] == 1) {
                    registered.push_back(gid[static_cast<std::size_t>(o)]);
                    // an id the target has given up by re-registering: nobody may be reachable under it any more
                    if (r.chance(1, 2)) for (int old : gold[static_cast<std::size_t>(o)]) registered.push_back(old);
                }
                if (!registered.empty() && r.chance(1, 2)) { op.k = "connect"; op.a = {cl, static_cast<std::int64_t>(r.below(3)), registered[r.below(registered.size())], frag}; if (op.a[1] == op.a[2]) op.a[1] = (op.a[2] + 1) % 3; st = 2; }
                else { op.k = "register"; op.a = {cl, static_cast<std::int64_t>(r.below(3)), frag, static_cast<std::int64_t>(r.below(2))}; st = 1; gid[static_cast<std::size_t>(cl)] = static_cast<int>(op.a[1]); }
            } else if (st == 1) {
                const auto q = r.below(10);
                if (q < 5) { op.k = "data"; op.a = {cl, r.pick<std::int64_t>({1, 3, 40, 700}), frag}; }
                else if (q < 7) {
                    op.k = "register"; op.a = {cl, static_cast<std::int64_t>(r.below(3)), frag, 0};
                    if (gid[static_cast<std::size_t>(cl)] != static_cast<int>(op.a[1])) gold[static_cast<std::size_t>(cl)].push_back(gid[static_cast<std::size_t>(cl)]);
                    gid[static_cast<std::size_t>(cl)] = static_cast<int>(op.a[1]);
                }
                else if (q < 8) { op.k = "early"; op.a = {cl}; }
                else { op.k = "close"; op.a = {cl, static_cast<std::int64_t>(r.below(4) == 0)}; st = 0; gold[static_cast<std::size_t>(cl)].clear(); }
            } else if (st == 2) { op.k = "identity"; op.a = {cl, frag, r.pick<std::int64_t>({32, 32, 32, 7, 31})}; st = 3; }
            else {
                if (r.chance(4, 5)) { op.k = "data"; op.a = {cl, r.pick<std::int64_t>({1, 3, 40, 700}), frag}; }
                else { op.k = "close"; op.a = {cl, static_cast<std::int64_t>(r.below(4) == 0)}; st = 0; }
            }
            p.ops.push_back(op);
            if (r.chance(1, 6)) p.ops.push_back(Op{"pause", {r.pick<std::int64_t>({1, 20, 200})}, ""});
            continue;
        }
        if (c < 8) { op.k = "open"; op.a = {cl}; }
        else if (c < 24) { op.k = "register"; op.a = {cl, static_cast<std::int64_t>(r.below(3)), frag, static_cast<std::int64_t>(r.below(2))}; }
        else if (c < 42) { op.k = "connect"; op.a = {cl, static_cast<std::int64_t>(r.below(3)), static_cast<std::int64_t>(r.below(3)), frag}; }
        else if (c < 54) { op.k = "identity"; op.a = {cl, frag, r.pick<std::int64_t>({32, 32, 32, 7, 31})}; }
        else if (c < 72) { op.k = "data"; op.a = {cl, r.pick<std::int64_t>({1, 3, 40, 700}), frag}; }
        else if (c < 76) { op.k = "early"; op.a = {cl}; }
        else if (c < 84) { op.k = "close"; op.a = {cl, static_cast<std::int64_t>(r.below(2))}; }
        else if (c < 88) { op.k = "pong"; op.a = {cl}; }
        else if (c < 94) { op.k = "pause"; op.a = {r.pick<std::int64_t>({1, 20, 500})}; }
        else if (garbage) { op.k = "garbage"; op.a = {cl, static_cast<std::int64_t>(r.below(8)), frag}; }
        else { op.k = "pause"; op.a = {5}; }
        if (garbage && r.chance(1, 10)) { Op g; g.k = "garbage"; g.a = {cl, static_cast<std::int64_t>(r.below(8)), frag}; p.ops.push_back(g); }
        if (garbage && r.chance(1, 25)) { Op g; g.k = "emfile"; p.ops.push_back(g); }
        p.ops.push_back(op);
    }
    // how each id is spelt on the wire (hex digits in lower, upper or mixed case); one in four plans uses other spellings at all
    const bool spellings = r.chance(1, 4);
    for (auto& op : p.ops) {
        if (op.k == "register") { while (op.a.size() < 4) op.a.push_back(0); op.a.push_back(spellings && r.chance(1, 3) ? r.range(1, 2) : 0); }
        if (op.k == "connect") { while (op.a.size() < 4) op.a.push_back(1); op.a.push_back(spellings && r.chance(1, 2) ? r.range(1, 2) : 0); op.a.push_back(spellings && r.chance(1, 4) ? r.range(1, 2) : 0); }
    }
    return p;
}

sk::Knobs relay_knobs(const Plan& p) {
    sk::Knobs k;
    k.sock_buf_min = static_cast<std::uint32_t>(p.knob("buf_min", 64));
    k.sock_buf_max = static_cast<std::uint32_t>(std::max(p.knob("buf_max", 4096), p.knob("buf_min", 64)));
    k.lat_max_ns = p.knob("lat_max_us", 300) * 1000;
    k.preempt_per_1024 = static_cast<std::uint32_t>(p.knob("preempt", 128));
    k.short_io_per_1024 = static_cast<std::uint32_t>(p.knob("short_io", 256));
    k.max_steps = 6'000'000;
    return k;
}

struct Parsed {
    std::vector<std::string> lines;                 // control lines in order
    std::vector<std::uint8_t> relayed;              // bytes >= 0x80 in order
    std::int64_t first_relayed_at = -1;
    bool begin_before_relayed = false;
    int begins = 0;
    std::string begin_from;
    bool text_after_relay = false;
};

Parsed parse_stream(const ClientIo& io) {
    Parsed out;
    std::string line;
    for (auto& ch : io.rx) {
        for (auto b : ch.bytes) {
            if (b >= 0x80) {
                if (out.relayed.empty()) { out.first_relayed_at = ch.at; out.begin_before_relayed = out.begins > 0; }
                out.relayed.push_back(b);
            } else {
                if (!out.relayed.empty()) out.text_after_relay = true;
                if (b == '\n') {
                    if (line.rfind("BEGIN ", 0) == 0) { ++out.begins; out.begin_from = line.substr(6); }
                    out.lines.push_back(line);
                    line.clear();
                } else line.push_back(static_cast<char>(b));
            }
        }
    }
    return out;
}

void run_relay_world(const Plan& p, Ctx& ctx, bool c26) {
    const std::string P = c26 ? "C26" : "C25";
    RelayProc relay;
    relay.start();
    if (!relay.started) { ctx.violate(P + ".setup_failed", "relay server failed to start"); return; }
    const int nclients = static_cast<int>(p.knob("clients", 3));
    std::vector<std::unique_ptr<Client>> cl;
    for (int i = 0; i < nclients; ++i) {
        cl.push_back(std::make_unique<Client>());
        cl.back()->actor.start("client" + std::to_string(i), sk::ip(10, 0, 6, static_cast<std::uint8_t>(1 + i)), 1u << 20);
    }
    int next_tag = 0;
    auto open_client = [&](int i) {
        Client& c = *cl[static_cast<std::size_t>(i)];
        if (c.open) return;
        if (next_tag >= 16) return;  // tags exhausted: no more connection instances in this run
        // a fresh connection is a fresh client instance
        const int host_idx = i;
        (void)host_idx;
        c.io = std::make_shared<ClientIo>();
        c.role = 0; c.reg_id = -1; c.target_id = -1; c.identity_done_at = -1; c.data_records = 0; c.sent_early = false; c.sent_garbage = false;
        c.registers = 0; c.connects = 0; c.closed_by_us = false; c.closed_at = -1;
        c.tag = next_tag++;
        c.actor.call([&] {
            c.fd = ::socket(AF_INET, SOCK_STREAM, 0);
            sockaddr_in a{};
            a.sin_family = AF_INET; a.sin_port = htons(kRelayPort);
            inet_pton(AF_INET, "10.0.5.1", &a.sin_addr);
            if (::connect(c.fd, reinterpret_cast<sockaddr*>(&a), sizeof a) != 0) { ::close(c.fd); c.fd = -1; return; }
            c.open = true;
            auto io = c.io;
            const int fd = c.fd;
            sk::go("client.reader", [io, fd] {
                std::uint8_t buf[2048];
                for (;;) {
                    const ssize_t r = ::recv(fd, buf, sizeof buf, 0);
                    if (r > 0) { io->rx.push_back({sk::now_ns(), std::vector<std::uint8_t>(buf, buf + r)}); continue; }
                    io->eof_at = sk::now_ns();
                    io->reset = r < 0;
                    return;
                }
            });
        });
    };
    auto send_bytes = [&](int i, const std::vector<std::uint8_t>& bytes, int frag) {
        Client& c = *cl[static_cast<std::size_t>(i)];
        if (!c.open || c.closed_by_us) return false;
        bool ok = false;
        c.actor.call([&] { ok = send_fragmented(c.fd, bytes, frag); });
        return ok;
    };
    auto text = [](const std::string& s) { return std::vector<std::uint8_t>(s.begin(), s.end()); };
    auto has_line = [&](int i, const std::string& prefix) {
        Client& c = *cl[static_cast<std::size_t>(i)];
        if (!c.io) return false;
        const Parsed ps = parse_stream(*c.io);
        for (auto& l : ps.lines) if (l.rfind(prefix, 0) == 0) return true;
        return false;
    };
    // history of closes of bridged clients, for R6
    struct CloseEvent { int client; std::int64_t at; };
    std::vector<CloseEvent> closes;
    // every connection instance that ever existed (a client index can reconnect)
    struct Instance { int client; int tag; std::shared_ptr<ClientIo> io; int role, reg_id, target_id; std::int64_t identity_done_at; std::size_t data_records; bool garbage, early; std::int64_t closed_at; int registers, connects; };
    std::vector<Instance> finished;
    auto retire = [&](int i) {
        Client& c = *cl[static_cast<std::size_t>(i)];
        if (!c.io) return;
        finished.push_back({i, c.tag, c.io, c.role, c.reg_id, c.target_id, c.identity_done_at, c.data_records, c.sent_garbage, c.sent_early, c.closed_at, c.registers, c.connects});
    };

    for (auto& op : p.ops) {
        ++ctx.ops_done;
        if (op.k == "pause") { sk::sleep_ns(op.at(0) * kMs); continue; }
        if (op.k == "emfile") { sk::fault_accept_once(relay.pid, EMFILE); ctx.fault("accept_emfile"); continue; }
        const int i = static_cast<int>(op.at(0)) % nclients;
        Client& c = *cl[static_cast<std::size_t>(i)];
        if (op.k == "open") { if (!c.open && c.io) { /* old instance already retired at close */ } open_client(i); continue; }
        if (!c.open) { open_client(i); }
        if (!c.open || c.closed_by_us) continue;
        // A connector that got OK is in "awaiting identity" state: whatever it writes next IS its identity (and
        // then bridge data). In the C25 world connectors therefore write only identity blocks and tagged data.
        if (!c26 && c.role == 2 && (op.k == "register" || op.k == "connect" || op.k == "garbage" || op.k == "pong")) continue;
        if (op.k == "register") {
            const int id = static_cast<int>(op.at(1));
            if (c.role == 2) { c.sent_garbage = true; }           // REGISTER from a connector: outside the modelled roles
            if (c.role == 1) ctx.boundary(has_line(i, "BEGIN") ? "reregister_after_begin" : "reregister_same_connection");
            // is this peer currently claimed (a connector got OK for it and the bridge is pending or up)?
            for (auto& o : cl) if (o->open && o->role == 2 && o->target_id == c.reg_id && c.role == 1) ctx.boundary("reregister_while_claimed");
            if (op.at(4)) ctx.boundary("id_not_in_lower_case");
            std::string line = "REGISTER " + id_spelt(id, op.at(4)) + (op.at(3) ? "\r\n" : "\n");
            if (send_bytes(i, text(line), static_cast<int>(op.at(2)))) { c.role = c.role == 2 ? 2 : 1; c.reg_id = id; ++c.registers; }
        } else if (op.k == "connect") {
            const int self = static_cast<int>(op.at(1)), target = static_cast<int>(op.at(2));
            if (c.role == 1 || c.connects > 0) c.sent_garbage = c.sent_garbage || c.role == 1;  // CONNECT from a registered client is refused; still modelled as garbage-free if refused
            if (self == target) ctx.boundary("self_connect");
            if (op.at(4) || op.at(5)) ctx.boundary("id_not_in_lower_case");
            std::string line = "CONNECT " + id_spelt(self, op.at(5)) + " " + id_spelt(target, op.at(4)) + "\n";
            if (send_bytes(i, text(line), static_cast<int>(op.at(3)))) {
                ++c.connects;
                // The relay answers a CONNECT line with OK or ERROR. Whether this client became a connector (whose next bytes are
                // its identity) is read from that answer, however long tiny buffers and short writes delay it - not guessed from
                // a fixed pause.
                const std::size_t lines_before = c.io ? parse_stream(*c.io).lines.size() : 0;
                sk::wait_until([&] { if (!c.io) return true; if (c.io->eof_at >= 0 || c.io->reset) return true; const Parsed ps = parse_stream(*c.io); return ps.lines.size() > lines_before; }, 30 * kSec);
                sk::sleep_ns(2 * kMs);
                if (c.role == 0 && has_line(i, "OK")) { c.role = 2; c.reg_id = self; c.target_id = target; ctx.probe("connect_ok"); }
            }
        } else if (op.k == "identity") {
            if (c.role != 2 || c.identity_done_at >= 0) continue;
            auto block = identity_block(c.tag);
            const std::size_t n = static_cast<std::size_t>(op.at(2));
            if (n < 32) { block.resize(n); ctx.boundary("identity_fragment_only"); }
            if (send_bytes(i, block, static_cast<int>(op.at(1)))) {
                if (n >= 32) { c.identity_done_at = sk::now_ns(); ctx.probe("identity_sent"); }
                else {
                    // complete it later in a second piece
                    sk::sleep_ns(5 * kMs);
                    std::vector<std::uint8_t> rest(32 - n, static_cast<std::uint8_t>(0xF0 + c.tag));
                    if (send_bytes(i, rest, 1)) c.identity_done_at = sk::now_ns();
                }
            }
        } else if (op.k == "data") {
            // only after the client's own bridge exists from its point of view
            const bool bridged = (c.role == 1 && has_line(i, "BEGIN")) || (c.role == 2 && c.identity_done_at >= 0);
            if (!bridged) continue;
            std::vector<std::uint8_t> bytes;
            for (std::int64_t k = 0; k < op.at(1); ++k) append_record(bytes, c.tag, c.data_records + static_cast<std::size_t>(k));
            if (send_bytes(i, bytes, static_cast<int>(op.at(2)))) { c.data_records += static_cast<std::size_t>(op.at(1)); ctx.probe("data_bursts"); }
            else ctx.probe("data_send_failed");
        } else if (op.k == "early") {
            if (c.role != 1 || has_line(i, "BEGIN")) continue;
            // a registered client writing before it has read BEGIN: outside the property (either disposition is fine)
            std::vector<std::uint8_t> bytes(8, static_cast<std::uint8_t>(0xC0 + c.tag));
            if (send_bytes(i, bytes, 1)) { c.sent_early = true; ctx.boundary("target_wrote_before_begin"); }
        } else if (op.k == "pong") {
            if (c.role == 1 && has_line(i, "BEGIN")) continue;   // would be relayed as data
            if (c.role == 2 && c.identity_done_at >= 0) continue;
            if (c.role == 2 && c.identity_done_at < 0) continue; // would be taken as identity bytes
            send_bytes(i, text("PONG\n"), 1);
        } else if (op.k == "garbage") {
            std::vector<std::uint8_t> g;
            switch (op.at(1)) {
                case 0: g = text("REGISTER zz-not-hex\n"); break;
                case 1: g = text("CONNECT onlyone\n"); break;
                // an over-long line; through socket buffers of at most 64 bytes every byte costs several scheduling steps, so it is kept shorter there
                case 2: g = std::vector<std::uint8_t>(p.knob("buf_max", 4096) <= 64 ? 9000 : 70000, 'A'); g.push_back('\n'); break;
                case 3: g = {0x00, 0x01, 0x02, '\n', 0x00, 0x7f, '\r', '\n'}; break;
                case 4: g = text("REGISTER " + id_hex(1).substr(0, 63) + "\n"); break;
                case 5: g = text("\n\n\r\n   \nUNKNOWN command here\n"); break;
                case 6: g = text("CONNECT " + id_hex(0) + " " + id_hex(1) + " extra\n"); break;
                default: g = text("REGISTER " + id_hex(2)); break;  // no terminator: stays in the line buffer
            }
            c.sent_garbage = true;
            send_bytes(i, g, static_cast<int>(op.at(2)));
            ctx.probe("garbage_sent");
        } else if (op.k == "close") {
            const bool bridged = (c.role == 1 && has_line(i, "BEGIN")) || (c.role == 2 && c.identity_done_at >= 0);
            c.actor.call([&] {
                if (op.at(1)) ::shutdown(c.fd, SHUT_WR);
                else {
                    ::shutdown(c.fd, SHUT_RDWR); ::close(c.fd);
                    // Descriptor numbers are handed out lowest-free across the whole simulation: a reader fiber of this connection
                    // that has not had its turn yet would issue its first recv on a number the next socket() - of any client - may
                    // already own, and steal that connection's bytes. Real processes have separate tables; wait for the reader here.
                    if (auto io = c.io) sk::wait_until([io] { return io->eof_at >= 0; }, 5 * kSec);
                }
            });
            if (op.at(1)) { ctx.probe("half_close"); c.closed_by_us = true; c.closed_at = sk::now_ns(); if (bridged) closes.push_back({c.tag, sk::now_ns()}); continue; }
            c.closed_by_us = true; c.closed_at = sk::now_ns();
            if (bridged) { closes.push_back({c.tag, sk::now_ns()}); ctx.boundary("bridged_client_closed"); }
            retire(i);
            c.open = false;
        }
    }

    // quiesce: let everything in flight arrive. With socket buffers down to one byte and per-segment latency a burst can
    // take many simulated seconds to cross two hops, so wait until no client has received anything new (and seen no new
    // EOF) for five seconds in a row instead of a fixed time (bounded by 900 s).
    {
        auto progress = [&] {
            std::uint64_t sum = 0;
            for (auto& c : cl) if (c->io) { sum += c->io->rx.size() * 1000003ull; for (auto& ch : c->io->rx) sum += ch.bytes.size(); if (c->io->eof_at >= 0) sum += 7; }
            for (auto& inst : finished) if (inst.io) { sum += inst.io->rx.size() * 1000003ull; for (auto& ch : inst.io->rx) sum += ch.bytes.size(); if (inst.io->eof_at >= 0) sum += 7; }
            return sum;
        };
        std::uint64_t last = progress();
        int quiet = 0;
        for (int waited = 0; waited < 900 && quiet < 5; ++waited) {
            sk::sleep_ns(kSec);
            const std::uint64_t now = progress();
            if (now == last) ++quiet; else { quiet = 0; last = now; }
        }
    }

    if (!c26) {
        // ---------------- C25 trace oracle over every connection instance
        std::vector<Instance> all = finished;
        for (int i = 0; i < nclients; ++i) { Client& c = *cl[static_cast<std::size_t>(i)]; if (c.open && c.io) all.push_back({i, c.tag, c.io, c.role, c.reg_id, c.target_id, c.identity_done_at, c.data_records, c.sent_garbage, c.sent_early, c.closed_at, c.registers, c.connects}); }
        std::map<std::pair<int, std::size_t>, int> delivered;  // (sender client, seq) -> times seen
        std::vector<Parsed> parsed;
        for (auto& inst : all) parsed.push_back(parse_stream(*inst.io));
        bool any_garbage = false;
        for (auto& inst : all) any_garbage = any_garbage || inst.garbage;
        // sender of each relayed run
        std::vector<std::set<int>> senders(all.size());
        for (std::size_t x = 0; x < all.size(); ++x) {
            const auto& ps = parsed[x];
            const auto& inst = all[x];
            if (ps.relayed.empty()) continue;
            ctx.probe("clients_with_relayed_input");
            // R3: own bridge must exist first
            if (inst.role == 1 && !ps.begin_before_relayed)
                ctx.violate("C25.relayed_before_bridge.target", fmt("client %d (registered) received relayed bytes before any BEGIN line", inst.client));
            if (inst.role == 2 && (inst.identity_done_at < 0 || ps.first_relayed_at < inst.identity_done_at - kMs))
                ctx.violate("C25.relayed_before_bridge.connector", fmt("client %d (connector) received relayed bytes %s", inst.client, inst.identity_done_at < 0 ? "although it never sent its identity" : "before it had sent its identity"));
            if (inst.role == 0)
                ctx.violate("C25.relayed_before_bridge.unbridged", fmt("client %d received relayed bytes although it neither registered nor connected", inst.client));
            // decode the relayed run: [identity of Y (32 bytes 0xF0+Y)] then 4-byte records of Y; early bytes (0xC0+Y) are exempt
            std::size_t pos = 0;
            std::map<int, std::size_t> next_seq;
            const auto& rb = ps.relayed;
            while (pos < rb.size()) {
                const std::uint8_t b = rb[pos];
                if (b >= 0xF0) { senders[x].insert(b - 0xF0); ++pos; continue; }
                if (b >= 0xC0 && b < 0xE0) { ++pos; continue; }  // exempt early bytes
                if (b >= 0xE0 && b < 0xF0) {
                    if (pos + 4 > rb.size()) { break; }  // trailing partial record (a close cut it)
                    const int y = b - 0xE0;
                    const std::size_t seq = (static_cast<std::size_t>(rb[pos + 1] & 0x7f) << 14) | (static_cast<std::size_t>(rb[pos + 2] & 0x7f) << 7) | (rb[pos + 3] & 0x7f);
                    senders[x].insert(y);
                    ++delivered[{y, seq}];
                    if (seq != next_seq[y])
                        ctx.violate("C25.loss_or_reorder", fmt("client %d received record %zu of client %d where record %zu was due", inst.client, seq, y, next_seq[y]));
                    next_seq[y] = seq + 1;
                    pos += 4;
                    continue;
                }
                // a continuation byte where a record start was due: mixed/corrupt stream
                ctx.violate("C25.corrupt_relayed_stream", fmt("client %d received relayed bytes that are not a whole sequence of one sender's records", inst.client));
                break;
            }
            if (senders[x].size() > 1)
                ctx.violate("C25.bytes_from_third_party", fmt("client %d received relayed bytes of %zu different senders", inst.client, senders[x].size()));
            if (senders[x].count(inst.tag))
                ctx.violate("C25.echo_to_sender", fmt("client %d received its own bytes back", inst.client));
            if (inst.role == 1 && ps.begins > 1) ctx.violate("C25.claimed_twice", fmt("registered client %d saw %d BEGIN lines on one connection", inst.client, ps.begins));
        }
        // R1
        for (auto& [k, n] : delivered) if (n > 1) { ctx.violate("C25.delivered_to_two_clients", fmt("record %zu of client %d was delivered %d times", k.second, k.first, n)); break; }
        // R4 symmetry + completeness while both stayed connected
        for (std::size_t x = 0; x < all.size(); ++x) {
            if (senders[x].size() != 1) continue;
            const int ytag = *senders[x].begin();
            for (std::size_t z = 0; z < all.size(); ++z) {
                if (all[z].tag != ytag) continue;
                if (senders[z].size() == 1 && *senders[z].begin() != all[x].tag)
                    ctx.violate("C25.asymmetric_pairing", fmt("client %d receives the bytes of client %d, but client %d receives the bytes of another connection", all[x].client, all[z].client, all[z].client));
                // no loss while both stayed connected to the end
                if (all[x].closed_at < 0 && all[z].closed_at < 0 && all[x].io->eof_at < 0 && all[z].io->eof_at < 0 && !any_garbage) {
                    std::size_t mine = 0;
                    for (auto& [k, n] : delivered) if (k.first == ytag) mine += static_cast<std::size_t>(n);
                    if (mine != all[z].data_records)
                        ctx.violate("C25.bytes_lost", fmt("client %d wrote %zu records after its bridge existed; its partner (client %d) received %zu although both stayed connected", all[z].client, all[z].data_records, all[x].client, mine));
                }
            }
        }
        // R6: after a bridged client closed, whoever was receiving its bytes sees EOF soon
        for (auto& ev : closes) {
            for (std::size_t x = 0; x < all.size(); ++x) {
                if (senders[x].size() != 1 || *senders[x].begin() != ev.client) continue;
                if (all[x].closed_at >= 0 && all[x].closed_at <= ev.at) continue;
                if (all[x].io->eof_at < 0)
                    ctx.violate("C25.partner_not_disconnected", fmt("a client closed its bridged connection, its partner (client %d) was still connected 3 s later", all[x].client));
            }
        }
        ctx.state(delivered.size() * 8 + all.size());
    } else {
        // ---------------- C26: liveness of the loop, then complete release
        if (!sk::alive(relay.pid)) {
            const auto info = sk::info(relay.pid);
            ctx.violate("C26.relay_died", "the relay process ended: " + info.exit_detail);
        } else {
            // a fresh honest pair is still served
            for (int i = 0; i < nclients; ++i) { Client& c = *cl[static_cast<std::size_t>(i)]; if (c.open && !c.closed_by_us) { c.actor.call([&] { ::shutdown(c.fd, SHUT_RDWR); ::close(c.fd); }); c.open = false; } }
            sk::sleep_ns(2 * kSec);
            Actor a, b;
            a.start("fresh.a", sk::ip(10, 0, 7, 1), 1u << 20);
            b.start("fresh.b", sk::ip(10, 0, 7, 2), 1u << 20);
            bool served = false;
            int fa = -1, fb = -1;
            auto dial = [](int& fd) {
                fd = ::socket(AF_INET, SOCK_STREAM, 0);
                sockaddr_in ad{}; ad.sin_family = AF_INET; ad.sin_port = htons(kRelayPort); inet_pton(AF_INET, "10.0.5.1", &ad.sin_addr);
                if (::connect(fd, reinterpret_cast<sockaddr*>(&ad), sizeof ad) != 0) { ::close(fd); fd = -1; return false; }
                timeval tv{20, 0}; ::setsockopt(fd, SOL_SOCKET, SO_RCVTIMEO, &tv, sizeof tv);
                return true;
            };
            auto read_some = [](int fd, std::string& acc, const std::string& until) {
                char buf[256];
                while (acc.find(until) == std::string::npos) { const ssize_t r = ::recv(fd, buf, sizeof buf, 0); if (r <= 0) return false; acc.append(buf, static_cast<std::size_t>(r)); }
                return true;
            };
            std::string ra, rb;
            a.call([&] { if (!dial(fa)) return; const std::string l = "REGISTER " + id_hex(7) + "\n"; ::send(fa, l.data(), l.size(), MSG_NOSIGNAL); read_some(fa, ra, "OK\n"); });
            b.call([&] {
                if (!dial(fb)) return;
                const std::string l = "CONNECT " + id_hex(8) + " " + id_hex(7) + "\n";
                ::send(fb, l.data(), l.size(), MSG_NOSIGNAL);
                if (!read_some(fb, rb, "OK\n")) return;
                const auto idb = identity_block(9);
                ::send(fb, idb.data(), idb.size(), MSG_NOSIGNAL);
                const char hello[] = "\xE9\x80\x80\x80";
                ::send(fb, hello, 4, MSG_NOSIGNAL);
            });
            a.call([&] { if (fa < 0) return; std::string want = "BEGIN " + id_hex(8) + "\n"; if (!read_some(fa, ra, want)) return; std::string tail; while (ra.size() < ra.find(want) + want.size() + 36) { char buf[64]; const ssize_t r = ::recv(fa, buf, sizeof buf, 0); if (r <= 0) return; ra.append(buf, static_cast<std::size_t>(r)); } served = true; });
            if (!served) ctx.violate("C26.stops_serving", "after the byzantine clients left, a fresh honest REGISTER/CONNECT pair was not bridged within 20 simulated seconds");
            a.call([&] { if (fa >= 0) { ::shutdown(fa, SHUT_RDWR); ::close(fa); } });
            b.call([&] { if (fb >= 0) { ::shutdown(fb, SHUT_RDWR); ::close(fb); } });
            a.shutdown(); b.shutdown();
            sk::sleep_ns(2 * kSec);
            // everything released
            const std::size_t sessions = relay.server->sessions_.size(), regs = relay.server->registered_.size();
            const int fds = sk::count_fds(relay.pid);
            if (sessions != 0) ctx.violate("C26.sessions_leaked", fmt("%zu client sessions remain after every client disconnected", sessions));
            if (regs != 0) ctx.violate("C26.registrations_leaked", fmt("%zu registrations remain after every client disconnected", regs));
            if (fds != 3) {
                std::string d;
                for (int fd : sk::fds_of(relay.pid)) d += " [" + std::to_string(fd) + " " + sk::fd_describe(fd) + "]";
                ctx.violate("C26.descriptors_leaked", fmt("the relay owns %d descriptors after every client disconnected (expected listener, epoll, eventfd):%s", fds, d.c_str()));
            }
            ctx.state(sessions * 64 + regs * 8 + static_cast<std::size_t>(fds));
        }
    }
    for (int i = 0; i < nclients; ++i) { Client& c = *cl[static_cast<std::size_t>(i)]; if (c.open && !c.closed_by_us) c.actor.call([&] { ::shutdown(c.fd, SHUT_RDWR); ::close(c.fd); }); c.actor.shutdown(); }
    relay.stop();
    if (sk::alive(relay.pid)) ctx.violate(P + ".relay_does_not_stop", "the relay loop did not stop within 30 simulated seconds of the stop request");
    relay.server.reset();
    relay.loop.reset();
}

Scenario make_c25() {
    Scenario s;
    s.id = "C25"; s.world = "W3"; s.level = "exploration";
    s.technique = "deterministic simulation: the real relay EventLoop+RelayServer on simulated epoll/eventfd/non-blocking TCP; 2..6 scripted clients issue seeded REGISTER/CONNECT/identity/data/close interleavings with write fragmentation over 1 B..64 KiB buffers; trace oracle (rules R1-R6) over what every client received";
    s.real_components = {"relay::EventLoop (epoll backend)", "relay::RelayServer (all handlers)"};
    s.stub_components = {"OS: epoll/eventfd/sockets -> simulated, clock, scheduler", "clients are scripted processes"};
    s.assumptions = {"every data byte is tagged (sender, sequence) so each received byte is attributable to one send",
                     "bytes a registered client writes before it has read BEGIN are outside the property (either disposition accepted)",
                     "the oracle never predicts the order in which the server handles clients; it only judges what each client received"};
    s.rule = "plan = socket buffer range, latency, preemption, short-I/O rate, 2..6 clients + 6..40 ops (open, REGISTER of one of 3 ids incl. re-register and CRLF, CONNECT incl. self-connect/unknown target/racing connectors, identity whole or in fragments, tagged data bursts, early data, PONG, close/half-close, pause); non-trivial = a re-register while claimed, a bridged client closing, an identity fragment, a self-connect or early data; distinct = plan hash";
    s.gen = [](sk::Rng& r, Tier) { return gen_relay(r, false); };
    s.exec = [](const Plan& p, Ctx& c) { run_relay_world(p, c, false); };
    s.kernel_knobs = relay_knobs;
    s.quick_runs = 4000; s.thorough_runs = 200000; s.quick_secs = 50; s.thorough_secs = 900;
    return s;
}
Registrar reg_c25(make_c25);

Scenario make_c26() {
    Scenario s;
    s.id = "C26"; s.world = "W3"; s.level = "exploration";
    s.technique = "deterministic simulation under ASan/UBSan: the real relay server is fed protocol traffic mixed with garbage (binary, 70 KB lines, CRLF, partial lines, identity fragments), accept() failures and every disconnect order; afterwards a fresh honest pair must be bridged and the server's maps and descriptor table must be empty";
    s.real_components = {"relay::EventLoop", "relay::RelayServer"};
    s.stub_components = {"OS: epoll/eventfd/sockets -> simulated (descriptor table is the simulator's), clock, scheduler", "clients are scripted processes"};
    s.assumptions = {"'open client descriptors' = descriptors owned by the relay process in the simulated descriptor table other than listener, epoll and eventfd"};
    s.rule = "plan = as C25 plus garbage lines (8 kinds), EMFILE on accept; non-trivial = garbage, an accept failure, or a close of a bridged client; distinct = plan hash";
    s.gen = [](sk::Rng& r, Tier) { return gen_relay(r, true); };
    s.exec = [](const Plan& p, Ctx& c) { run_relay_world(p, c, true); };
    s.kernel_knobs = relay_knobs;
    s.crash_is_violation = true;
    s.quick_runs = 4000; s.thorough_runs = 200000; s.quick_secs = 50; s.thorough_secs = 900;
    return s;
}
Registrar reg_c26(make_c26);

}  // namespace
