// W2 — C34: auto-advertise never publishes non-routable addresses unless allowed.
// A real Node starts its transport with STUN enabled; scripted STUN servers on the simulated UDP
// network report an address drawn from every class the property names (and routable ones). The
// node's advertised endpoints and the discovery hints of a manifest it then issues are judged with
// an independent classifier working on the binary address.
#include "worlds/net_common.hpp"

#include <arpa/inet.h>

#include <set>

using namespace wl;

namespace {

struct Addr { const char* text; bool routable; const char* cls; };
const std::vector<Addr>& addrs() {
    static const std::vector<Addr> v = {
        {"8.8.8.8", true, "public"}, {"93.184.216.34", true, "public"}, {"1.1.1.1", true, "public"}, {"100.128.0.1", true, "public_edge"}, {"172.32.0.1", true, "public_edge"},
        {"198.20.0.1", true, "public_edge"}, {"11.0.0.1", true, "public_edge"}, {"223.255.255.1", true, "public_edge"}, {"192.0.3.1", true, "public_edge"}, {"169.253.1.1", true, "public_edge"},
        {"100.63.255.255", true, "public_edge"}, {"172.15.255.255", true, "public_edge"}, {"198.17.255.255", true, "public_edge"},
        {"2606:4700::1111", true, "public6"}, {"2a00:1450:4001::200e", true, "public6"}, {"2001:db7::1", true, "public6_edge"}, {"fbff::1", true, "public6_edge"}, {"::ffff:8.8.8.8", true, "mapped_public"},
        {"0.1.2.3", false, "unspecified_net"}, {"127.0.0.1", false, "loopback"}, {"127.255.255.254", false, "loopback"}, {"10.1.2.3", false, "private"}, {"172.16.0.1", false, "private"},
        {"172.31.255.255", false, "private"}, {"192.168.1.1", false, "private"}, {"169.254.1.1", false, "link_local"}, {"100.64.0.1", false, "cgnat"}, {"100.127.255.255", false, "cgnat"},
        {"192.0.2.1", false, "documentation"}, {"198.51.100.7", false, "documentation"}, {"203.0.113.9", false, "documentation"}, {"198.18.0.1", false, "benchmark"}, {"198.19.255.1", false, "benchmark"},
        {"224.0.0.1", false, "multicast"}, {"239.1.1.1", false, "multicast"}, {"240.0.0.1", false, "reserved"}, {"255.255.255.255", false, "reserved"},
        {"::1", false, "loopback6"}, {"fc00::1", false, "unique_local"}, {"fd12:3456::1", false, "unique_local"}, {"fe80::1", false, "link_local6"}, {"febf::1", false, "link_local6"},
        {"2001:db8::1", false, "documentation6"}, {"ff02::1", false, "multicast6"}, {"::ffff:10.0.0.1", false, "mapped_private"}, {"::ffff:127.0.0.1", false, "mapped_loopback"},
        {"::ffff:192.168.1.1", false, "mapped_private"}, {"::ffff:100.64.0.1", false, "mapped_cgnat"}, {"::ffff:224.0.0.1", false, "mapped_multicast"}, {"::ffff:169.254.9.9", false, "mapped_link_local"},
        {"::ffff:0.0.0.0", false, "mapped_unspecified"}, {"::ffff:198.51.100.1", false, "mapped_documentation"},
    };
    return v;
}

// independent classifier (DESIGN A.10) on the binary address
bool v4_non_routable(const std::uint8_t a[4]) {
    const std::uint32_t x = (std::uint32_t(a[0]) << 24) | (std::uint32_t(a[1]) << 16) | (std::uint32_t(a[2]) << 8) | a[3];
    auto in = [&](std::uint32_t net, int bits) { return (x >> (32 - bits)) == (net >> (32 - bits)); };
    return in(0x00000000u, 8) || in(0x7f000000u, 8) || in(0x0a000000u, 8) || in(0xac100000u, 12) || in(0xc0a80000u, 16) || in(0xa9fe0000u, 16) || in(0x64400000u, 10) ||
           in(0xc0000200u, 24) || in(0xc6336400u, 24) || in(0xcb007100u, 24) || in(0xc6120000u, 15) || in(0xe0000000u, 3);
}
// returns -1 unparsable, 0 routable, 1 non-routable
int classify_host(const std::string& host) {
    std::uint8_t b4[4], b6[16];
    if (inet_pton(AF_INET, host.c_str(), b4) == 1) return v4_non_routable(b4) ? 1 : 0;
    std::string h = host;
    if (!h.empty() && h.front() == '[' && h.back() == ']') h = h.substr(1, h.size() - 2);
    if (inet_pton(AF_INET6, h.c_str(), b6) == 1) {
        bool zero = true; for (auto b : b6) if (b) zero = false;
        if (zero) return 1;
        bool lead80 = true; for (int i = 0; i < 10; ++i) if (b6[i]) lead80 = false;
        if (lead80 && b6[10] == 0xff && b6[11] == 0xff) return v4_non_routable(b6 + 12) ? 1 : 0;
        bool lead96 = lead80 && b6[10] == 0 && b6[11] == 0;
        if (lead96 && b6[12] == 0 && b6[13] == 0 && b6[14] == 0 && b6[15] == 1) return 1;
        if ((b6[0] & 0xfe) == 0xfc) return 1;
        if (b6[0] == 0xfe && (b6[1] & 0xc0) == 0x80) return 1;
        if (b6[0] == 0x20 && b6[1] == 0x01 && b6[2] == 0x0d && b6[3] == 0xb8) return 1;
        if (b6[0] == 0xff) return 1;
        return 0;
    }
    std::string low;
    for (char c : host) low.push_back(static_cast<char>(std::tolower(static_cast<unsigned char>(c))));
    if (low == "localhost" || low.empty()) return 1;
    return -1;
}

// splits "host:port" at the last colon
std::pair<std::string, std::string> split_endpoint(const std::string& e) {
    const auto pos = e.rfind(':');
    if (pos == std::string::npos) return {e, ""};
    return {e.substr(0, pos), e.substr(pos + 1)};
}

Plan gen_c34(sk::Rng& r, Tier) {
    Plan p;
    p.knobs["seed"] = static_cast<std::int64_t>(r.below(1u << 30));
    p.knobs["addr"] = static_cast<std::int64_t>(r.below(addrs().size()));
    p.knobs["stun"] = r.pick<std::int64_t>({1, 1, 1, 1, 0, 2});  // 1 answers, 0 silent, 2 disabled in the configuration
    p.knobs["mode"] = static_cast<std::int64_t>(r.below(3));     // 0 off, 1 on, 2 warn
    p.knobs["allow_private"] = r.chance(1, 3);
    p.knobs["manual"] = r.chance(1, 3);
    p.knobs["control_host"] = static_cast<std::int64_t>(r.below(5));
    p.knobs["mapped_attr"] = r.chance(1, 2);                      // MAPPED-ADDRESS instead of XOR-MAPPED-ADDRESS
    p.knobs["port"] = r.pick<std::int64_t>({0, 40000, 3478});
    Op op; op.k = "start_and_store"; p.ops.push_back(op);
    if (r.chance(1, 3)) { Op again; again.k = "restart_transport"; p.ops.push_back(again); }
    return p;
}

void exec_c34(const Plan& p, Ctx& ctx) {
    const Addr& reported = addrs()[static_cast<std::size_t>(p.knob("addr", 0)) % addrs().size()];
    const int stun = static_cast<int>(p.knob("stun", 1));
    const bool mapped_attr = p.knob("mapped_attr", 0) != 0;
    const auto stun_port = static_cast<unsigned>(p.knob("port", 40000));
    const std::string reported_text = reported.text;
    auto handler = [reported_text, mapped_attr, stun_port](const std::vector<std::uint8_t>& req, const std::string&) {
        std::vector<std::pair<std::int64_t, std::vector<std::uint8_t>>> out;
        if (req.size() < 20) return out;
        std::vector<std::uint8_t> d = {0x01, 0x01, 0, 0, 0x21, 0x12, 0xA4, 0x42};
        d.insert(d.end(), req.begin() + 8, req.begin() + 20);
        std::uint8_t b[16];
        const bool v6 = reported_text.find(':') != std::string::npos;
        inet_pton(v6 ? AF_INET6 : AF_INET, reported_text.c_str(), b);
        const std::size_t alen = v6 ? 16 : 4;
        d.push_back(0); d.push_back(mapped_attr ? 0x01 : 0x20);
        d.push_back(0); d.push_back(static_cast<std::uint8_t>(4 + alen));
        d.push_back(0); d.push_back(v6 ? 2 : 1);
        const unsigned port = mapped_attr ? stun_port : stun_port ^ 0x2112u;
        d.push_back(static_cast<std::uint8_t>(port >> 8)); d.push_back(static_cast<std::uint8_t>(port));
        const std::uint8_t cookie[4] = {0x21, 0x12, 0xA4, 0x42};
        for (std::size_t i = 0; i < alen; ++i) d.push_back(mapped_attr ? b[i] : static_cast<std::uint8_t>(b[i] ^ (i < 4 ? cookie[i] : req[8 + i - 4])));
        d[3] = static_cast<std::uint8_t>(d.size() - 20);
        out.push_back({5 * kMs, d});
        return out;
    };
    if (stun == 1) {
        sk::udp_serve("10.9.1.1", 3478, handler);
        sk::udp_serve("10.9.2.1", 3478, handler);
    }
    sk::dns_set("stun.shardian.com", {"10.9.1.1"});
    sk::dns_set("turn.shardian.com", {"10.9.2.1"});

    en::Config cfg = base_config(static_cast<std::uint32_t>(p.knob("seed", 1)));
    cfg.nat_stun_enabled = stun != 2;
    cfg.advertise_auto_mode = p.knob("mode", 1) == 0 ? en::Config::AdvertiseAutoMode::Off : p.knob("mode", 1) == 1 ? en::Config::AdvertiseAutoMode::On : en::Config::AdvertiseAutoMode::Warn;
    cfg.advertise_allow_private = p.knob("allow_private", 0) != 0;
    const char* control_hosts[] = {"127.0.0.1", "0.0.0.0", "10.0.0.5", "8.8.4.4", ""};
    cfg.control_host = control_hosts[p.knob("control_host", 0) % 5];
    const bool manual = p.knob("manual", 0) != 0;
    if (manual) {
        en::Config::AdvertisedEndpoint e{};
        e.host = "node.example.org"; e.port = 47777; e.manual = true; e.source = "manual";
        cfg.advertised_endpoints.push_back(e);
    }
    const bool allow_private = cfg.advertise_allow_private;
    const int mode = static_cast<int>(p.knob("mode", 1));
    const bool stun_reported = stun == 1;
    if (stun_reported && !reported.routable) ctx.boundary(std::string("stun_reports_") + reported.cls);

    NodeProc np;
    np.start("node", sk::ip(10, 0, 3, 4), make_id(0x34, 0x01), cfg, 0, 0, true);
    auto judge = [&](const char* when) {
        en::Config seen;
        en::protocol::Manifest man;
        np.run([&](en::Node& n) {
            seen = n.config();
            const auto pl = make_payload(80, 3400 + static_cast<std::uint64_t>(ctx.ops_done));
            man = n.store_chunk(make_id(0x34, static_cast<std::uint8_t>(0x10 + ctx.ops_done)), en::ChunkData(pl.begin(), pl.end()), std::chrono::seconds(600));
        });
        const std::string ctx_text = fmt(" [%s; STUN %s %s; mode %s; allow_private %d; control_host '%s'%s]", when, stun == 1 ? "reports" : stun == 0 ? "silent" : "disabled", reported.text,
                                         mode == 0 ? "off" : mode == 1 ? "on" : "warn", allow_private ? 1 : 0, cfg.control_host.c_str(), manual ? "; manual endpoint" : "");
        std::size_t auto_entries = 0;
        for (auto& e : seen.advertised_endpoints) {
            if (e.manual) continue;
            ++auto_entries;
            ctx.probe("auto_endpoint_published");
            const int c = classify_host(e.host);
            if (!allow_private && c != 0)
                ctx.violate(std::string("C34.non_routable_endpoint_advertised.") + (e.host == reported.text ? reported.cls : "other"), "advertised_endpoints holds the automatically discovered " + e.host + ":" + std::to_string(e.port) + " (via " + e.source + ")" + ctx_text);
            if (mode == 0) ctx.violate("C34.auto_endpoint_with_mode_off", "auto-advertise is off but advertised_endpoints holds the automatically discovered " + e.host + ctx_text);
        }
        // independent of the node's own conflict flag: in warn mode the automatic candidates are published only when they agree, so two
        // different automatic endpoints side by side are conflicting candidates that were not withheld
        if (mode == 2) {
            std::set<std::string> distinct;
            for (auto& e : seen.advertised_endpoints) if (!e.manual) distinct.insert(e.host + ":" + std::to_string(e.port));
            if (distinct.size() > 1) ctx.violate("C34.conflicting_candidates_published", fmt("warn mode, yet %zu different automatic endpoints are advertised side by side", distinct.size()) + ctx_text);
            std::set<std::string> hint_hosts;
            for (auto& h : man.discovery_hints) if (h.scheme == "transport") hint_hosts.insert(h.endpoint);
            if (hint_hosts.size() > 1) ctx.violate("C34.conflicting_candidate_in_hint", fmt("warn mode, yet the issued manifest carries %zu different automatic transport hints", hint_hosts.size()) + ctx_text);
        }
        if (mode == 2 && seen.auto_advertise_conflict) {
            ctx.boundary("warn_mode_conflict");
            if (auto_entries != 0) ctx.violate("C34.conflicting_candidates_published", "warn mode with conflicting candidates, yet " + std::to_string(auto_entries) + " automatic endpoints are advertised" + ctx_text);
        }
        // manifest hints: `transport` hints are the automatically generated ones (manual endpoints become `control` hints)
        for (auto& h : man.discovery_hints) {
            if (h.scheme != "transport") continue;
            const auto [host, port] = split_endpoint(h.endpoint);
            ctx.probe("transport_hint_issued");
            const int c = classify_host(host);
            const bool is_reported = stun_reported && host == reported.text;
            if (!allow_private && c != 0)
                ctx.violate(std::string("C34.non_routable_hint.") + (is_reported ? reported.cls : "other"), "the issued manifest carries the automatically generated transport hint " + h.endpoint + ctx_text);
            if (mode == 0 && is_reported)
                ctx.violate("C34.auto_hint_with_mode_off", "auto-advertise is off but the issued manifest carries the STUN-discovered " + h.endpoint + ctx_text);
            if (mode == 2 && seen.auto_advertise_conflict)
                for (auto& cand : seen.auto_advertise_candidates) if (cand.host == host) { ctx.violate("C34.conflicting_candidate_in_hint", "warn mode withheld the conflicting candidates, yet the manifest carries " + h.endpoint + ctx_text); break; }
        }
        ctx.state(auto_entries * 8 + man.discovery_hints.size());
    };
    for (auto& op : p.ops) {
        ++ctx.ops_done;
        if (op.k == "restart_transport") np.run([&](en::Node& n) { n.stop_transport(); n.start_transport(0); });
        judge(op.k == "restart_transport" ? "after transport restart" : "after start_transport");
    }
    np.stop();
}

sk::Knobs c34_knobs(const Plan&) {
    sk::Knobs k;
    k.max_steps = 600000;
    return k;
}

Scenario make_c34() {
    Scenario s;
    s.id = "C34"; s.world = "W2"; s.level = "exploration";
    s.technique = "deterministic simulation: a real Node starts its transport with STUN enabled against scripted STUN servers on the simulated UDP network that report an address of every class the property names (IPv4, IPv6, IPv4-mapped IPv6, edges of each range) or stay silent; every auto mode x allow-private x manual endpoint x control host; the node's advertised endpoints and the transport hints of a manifest it then issues are judged by an independent classifier on the binary address";
    s.real_components = {"Node::start_transport / refresh_advertised_endpoints / preferred_control_endpoints / store_chunk hint generation", "NatTraversalManager (real STUN query)", "network::build_transport_advertise_candidates and the host classifier"};
    s.stub_components = {"DNS, UDP, TCP listener, clock: simulated; STUN servers scripted"};
    s.assumptions = {"automatically generated manifest hints are those with scheme `transport` (endpoints flagged manual become `control` hints and are configuration, not discovery)"};
    s.rule = "plan = reported address (52 values), STUN behaviour, auto mode, allow-private, manual endpoint, control host, attribute kind, reported port, optional transport restart; non-trivial = STUN reports a non-routable address; distinct = plan hash";
    s.gen = gen_c34; s.exec = exec_c34; s.kernel_knobs = c34_knobs;
    s.quick_runs = 12000; s.thorough_runs = 600000; s.quick_secs = 45; s.thorough_secs = 600;
    return s;
}
Registrar reg_c34(make_c34);

}  // namespace
