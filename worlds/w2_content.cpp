// W2 — C11: stored content round-trips and tampered replicas are never accepted.
// A real Node (B) with scripted session peers. Local stores are checked against an independent
// ChaCha20 (RFC 8439) and every threshold-sized subset ordering of the manifest's shares; replica
// imports arrive over real sessions (ANNOUNCE then CHUNK) from a scripted peer that holds a real
// publisher's manifest and ciphertext, either intact or tampered (ciphertext bit flips, truncation,
// extension, foreign ciphertext; manifest nonce / share / hash / id changed), with fragmentation,
// short reads, duplicates and resets in between. A replica whose decryption does not hash to the
// manifest's content hash must leave B without the chunk, without an own provider record, with
// nothing to return, and with a negative acknowledgement on the wire.
#include "worlds/w2_rig.hpp"
#include "worlds/w4_common.hpp"
#include "worlds/swarm_variant.hpp"

#include "ephemeralnet/crypto/Shamir.hpp"

using namespace wl;

namespace {

// ---- independent ChaCha20 (RFC 8439 section 2.4), 32-bit block counter
inline std::uint32_t rotl(std::uint32_t v, int c) { return (v << c) | (v >> (32 - c)); }
void chacha_block(const std::uint8_t key[32], std::uint32_t counter, const std::uint8_t nonce[12], std::uint8_t out[64]) {
    auto le = [](const std::uint8_t* p) { return std::uint32_t(p[0]) | (std::uint32_t(p[1]) << 8) | (std::uint32_t(p[2]) << 16) | (std::uint32_t(p[3]) << 24); };
    std::uint32_t s[16] = {0x61707865, 0x3320646e, 0x79622d32, 0x6b206574};
    for (int i = 0; i < 8; ++i) s[4 + i] = le(key + 4 * i);
    s[12] = counter;
    for (int i = 0; i < 3; ++i) s[13 + i] = le(nonce + 4 * i);
    std::uint32_t w[16];
    std::memcpy(w, s, sizeof w);
    auto qr = [&](int a, int b, int c, int d) {
        w[a] += w[b]; w[d] ^= w[a]; w[d] = rotl(w[d], 16);
        w[c] += w[d]; w[b] ^= w[c]; w[b] = rotl(w[b], 12);
        w[a] += w[b]; w[d] ^= w[a]; w[d] = rotl(w[d], 8);
        w[c] += w[d]; w[b] ^= w[c]; w[b] = rotl(w[b], 7);
    };
    for (int r = 0; r < 10; ++r) { qr(0, 4, 8, 12); qr(1, 5, 9, 13); qr(2, 6, 10, 14); qr(3, 7, 11, 15); qr(0, 5, 10, 15); qr(1, 6, 11, 12); qr(2, 7, 8, 13); qr(3, 4, 9, 14); }
    for (int i = 0; i < 16; ++i) { const std::uint32_t v = w[i] + s[i]; out[4 * i] = static_cast<std::uint8_t>(v); out[4 * i + 1] = static_cast<std::uint8_t>(v >> 8); out[4 * i + 2] = static_cast<std::uint8_t>(v >> 16); out[4 * i + 3] = static_cast<std::uint8_t>(v >> 24); }
}
std::vector<std::uint8_t> ref_chacha(const std::array<std::uint8_t, 32>& key, const std::array<std::uint8_t, 12>& nonce, std::uint32_t counter, const std::vector<std::uint8_t>& in) {
    std::vector<std::uint8_t> out(in.size());
    std::uint8_t block[64];
    for (std::size_t off = 0; off < in.size(); off += 64) {
        chacha_block(key.data(), counter++, nonce.data(), block);
        for (std::size_t k = 0; k < 64 && off + k < in.size(); ++k) out[off + k] = in[off + k] ^ block[k];
    }
    return out;
}
std::uint32_t counter_of(const en::ChunkId& id) { return std::uint32_t(id[0]) | (std::uint32_t(id[1]) << 8) | (std::uint32_t(id[2]) << 16) | (std::uint32_t(id[3]) << 24); }

// The block counter a chunk is encrypted from is the first four id bytes (little endian). In a third of the stores those bytes
// are put at the ends of the 32-bit range, so that the counter passes 2^32 inside the chunk (or would, with an off-by-one).
void counter_edge(en::ChunkId& id, std::size_t size, std::int64_t arg, std::uint64_t uniq, Ctx& ctx) {
    const std::uint32_t blocks = static_cast<std::uint32_t>((size + 63) / 64);
    std::uint32_t ctr = 0;
    switch ((arg >> 16) % 16) {
        case 1: ctr = 0xffffffffu; break;
        case 2: ctr = 0u - blocks; break;
        case 3: ctr = 0u - blocks + 1u; break;
        case 4: ctr = 0xffffffffu - blocks; break;
        case 5: ctr = 0; break;
        default: return;
    }
    id[0] = static_cast<std::uint8_t>(ctr); id[1] = static_cast<std::uint8_t>(ctr >> 8); id[2] = static_cast<std::uint8_t>(ctr >> 16); id[3] = static_cast<std::uint8_t>(ctr >> 24);
    id[8] = static_cast<std::uint8_t>(uniq); id[9] = static_cast<std::uint8_t>(uniq >> 8);
    ctx.boundary(std::uint64_t(ctr) + blocks > 0xffffffffull ? "block_counter_passes_2_32_inside_the_chunk" : "block_counter_at_range_edge");
}

std::array<std::uint8_t, 32> key_from(const pr::Manifest& m, const std::vector<std::size_t>& pick) {
    std::vector<en::crypto::ShamirShare> shares;
    for (auto i : pick) { en::crypto::ShamirShare s{}; s.index = m.shards[i].index; s.value = m.shards[i].value; shares.push_back(s); }
    return en::crypto::Shamir::combine(shares, m.threshold);
}

const char* tamper_name[] = {"none", "cipher_bit_flip", "cipher_truncated", "cipher_extended", "cipher_of_other_chunk", "cipher_empty", "manifest_nonce_changed", "manifest_share_changed",
                             "manifest_hash_changed", "manifest_chunk_id_changed", "cipher_last_byte", "cipher_first_byte"};
constexpr int kTampers = 12;

Plan gen_c11(sk::Rng& r, Tier) {
    Plan p;
    gen_rig_knobs(p, r);
    p.knobs["threshold"] = r.range(1, 4);
    p.knobs["total"] = p.knobs["threshold"] + r.range(0, 3);
    p.knobs["peers"] = r.range(1, 2);
    const int n = static_cast<int>(r.range(3, 12));
    for (int i = 0; i < n; ++i) {
        Op op;
        const auto c = r.below(100);
        const std::int64_t size = r.pick<std::int64_t>({0, 1, 63, 64, 65, 127, 128, 129, 1000, 4096, 70000});
        // last argument of store_local / replica: 0 = a fresh chunk id, k > 0 = the id of the k-th chunk this run already placed on the
        // node (a re-store, or a replica / forged manifest for a chunk the node holds)
        const std::int64_t reuse = r.chance(1, 3) ? r.range(1, 6) : 0;
        if (c < 32) { op.k = "store_local"; op.a = {size, r.pick<std::int64_t>({0, 5, 600, 7200, 100000}), static_cast<std::int64_t>(r.below(1u << 20)), reuse}; }
        else if (c < 50) { op.k = "replica"; op.a = {static_cast<std::int64_t>(r.below(2)), size, 0, static_cast<std::int64_t>(r.below(1u << 20)), static_cast<std::int64_t>(r.below(3)), reuse}; }
        else if (c < 82) { op.k = "replica"; op.a = {static_cast<std::int64_t>(r.below(2)), size == 0 ? 64 : size, r.range(1, kTampers - 1), static_cast<std::int64_t>(r.below(1u << 20)), static_cast<std::int64_t>(r.below(3)), reuse}; }
        else if (c < 92) { op.k = "forge"; op.a = {static_cast<std::int64_t>(r.below(2)), r.range(1, 6), static_cast<std::int64_t>(r.below(5)), static_cast<std::int64_t>(r.below(1u << 20))}; }
        else { op.k = "reconnect"; op.a = {static_cast<std::int64_t>(r.below(2))}; }
        p.ops.push_back(op);
    }
    return p;
}

void exec_c11(const Plan& p, Ctx& ctx) {
    en::Config c = base_config(111);
    c.shard_threshold = static_cast<std::uint8_t>(p.knob("threshold", 2)); c.shard_total = static_cast<std::uint8_t>(p.knob("total", 3));
    c.min_manifest_ttl = seconds(1); c.max_manifest_ttl = seconds(86400);
    c.announce_min_interval = seconds(1); c.announce_burst_limit = 100000; c.announce_burst_window = seconds(1);
    c.key_rotation_interval = seconds(3600); c.cleanup_interval = seconds(100000);
    Rig rig;
    rig.start_node(c, 1000);
    const int npeers = static_cast<int>(p.knob("peers", 1));
    for (int i = 0; i < npeers; ++i) if (rig.add_peer(static_cast<std::uint8_t>(0x91 + i)) < 0) { ctx.violate("C11.setup_failed", "scripted handshake failed"); rig.stop(); return; }
    // a real publisher (no network): source of genuine manifests + ciphertext for replica imports
    en::Config cp = c; cp.identity_seed = 112;
    auto pub = std::make_unique<en::Node>(make_id(0xB9, 0x29), cp);
    std::uint64_t uniq = 1;
    std::vector<std::size_t> consumed(static_cast<std::size_t>(npeers), 0);
    // what the node legitimately holds: the payload of the latest local store / accepted replica per chunk id; `alt` is a second
    // legitimate content (an intact replica of other content offered for an id the node already held: keeping either is fine)
    struct Entry { en::ChunkId id; std::vector<std::uint8_t> payload, alt; bool has_alt = false; std::int64_t deadline = 0; };
    std::vector<Entry> pool;
    auto pool_find = [&](const en::ChunkId& id) -> Entry* { for (auto& e : pool) if (e.id == id) return &e; return nullptr; };
    auto pool_pick = [&](std::int64_t sel) -> Entry* { return (sel > 0 && !pool.empty()) ? &pool[static_cast<std::size_t>(sel - 1) % pool.size()] : nullptr; };
    auto recheck_all = [&](const std::string& after) {
        for (auto& e : pool) {
            if (sk::now_ns() + 3 * kSec >= e.deadline) continue;  // about to expire: C01's business
            std::optional<en::ChunkData> got;
            rig.node.run([&](en::Node& n) { got = n.fetch_chunk(e.id); });
            ctx.probe("held_chunk_rechecked");
            if (!got) { ctx.violate("C11.held_chunk_not_returned.after_" + after, fmt("fetch_chunk returns nothing for a live %zu-byte chunk the node holds (after a %s)", e.payload.size(), after.c_str())); continue; }
            if (*got == e.payload || (e.has_alt && *got == e.alt)) continue;
            ctx.violate("C11.held_chunk_wrong_bytes.after_" + after, fmt("fetch_chunk returns %zu bytes that are neither the %zu-byte payload last stored for the chunk nor an intact replica offered for it (after a %s)", got->size(), e.payload.size(), after.c_str()));
        }
    };

    auto check_roundtrip = [&](const char* where, const pr::Manifest& m, const std::vector<std::uint8_t>& payload, const en::ChunkId& id) {
        // the node returns the payload
        std::optional<en::ChunkData> got;
        std::optional<en::ChunkRecord> rec;
        rig.node.run([&](en::Node& n) { got = n.fetch_chunk(id); rec = n.export_chunk_record(id); });
        if (!got) { ctx.violate(std::string("C11.not_returned.") + where, fmt("fetch_chunk returns nothing for a %zu-byte payload just %s", payload.size(), where)); return; }
        if (*got != payload) ctx.violate(std::string("C11.wrong_bytes_returned.") + where, fmt("fetch_chunk returns %zu bytes that differ from the %zu-byte payload (%s)", got->size(), payload.size(), where));
        if (!rec) { ctx.violate(std::string("C11.no_record.") + where, "export_chunk_record returns nothing"); return; }
        // held bytes = ChaCha20(key reconstructed from the shares, manifest nonce, counter from the chunk id)(payload), for several share subsets
        if (rec->encrypted && m.shards.size() >= m.threshold && m.threshold > 0) {
            std::vector<std::vector<std::size_t>> subsets;
            std::vector<std::size_t> first, last, rev;
            for (std::size_t i = 0; i < m.threshold; ++i) { first.push_back(i); last.push_back(m.shards.size() - 1 - i); }
            rev = first; std::reverse(rev.begin(), rev.end());
            subsets = {first, last, rev};
            for (auto& pick : subsets) {
                const auto key = key_from(m, pick);
                const auto expect = ref_chacha(key, m.nonce.bytes, counter_of(m.chunk_id), payload);
                if (expect != rec->data) { ctx.violate(std::string("C11.held_bytes_not_the_encryption.") + where, fmt("the bytes held for the chunk are not ChaCha20(key from %u of %zu shares, manifest nonce) of the %zu-byte payload (%s)", m.threshold, m.shards.size(), payload.size(), where)); break; }
            }
            if (rec->nonce != m.nonce.bytes) ctx.violate(std::string("C11.nonce_mismatch.") + where, "the stored record's nonce differs from the manifest's");
            const auto digest = en::crypto::Sha256::digest(std::span<const std::uint8_t>(payload));
            if (digest != m.chunk_hash) ctx.violate(std::string("C11.manifest_hash_wrong.") + where, "the manifest's content hash is not the SHA-256 of the payload");
            // the CLI's own path
            pr::ChunkPayload cp2{};
            cp2.chunk_id = m.chunk_id; cp2.data = rec->data; cp2.ttl = seconds(60);
            const auto cli = verif_w4::cli_decrypt(m, cp2);
            if (!cli || *cli != payload) ctx.violate(std::string("C11.cli_decrypt_differs.") + where, "the CLI's decryption with the manifest does not yield the payload");
        }
        ctx.probe(std::string("roundtrip_checked_") + where);
    };

    for (auto& op : p.ops) {
        ++ctx.ops_done;
        if (!rig.node.actor.alive()) { ctx.violate("C11.node_died", "node process ended: " + sk::info(rig.node.actor.pid).exit_detail); break; }
        if (op.k == "reconnect") { const int pi = static_cast<int>(op.at(0)) % npeers; if (!rig.reconnect(pi)) ctx.probe("reconnect_failed"); consumed[static_cast<std::size_t>(pi)] = rig.peers[static_cast<std::size_t>(pi)]->received.size(); continue; }
        if (op.k == "store_local") {
            const auto pl = make_payload(static_cast<std::size_t>(op.at(0)), 110000 + uniq);
            std::vector<std::uint8_t> payload(pl.begin(), pl.end());
            en::ChunkId id = make_id(static_cast<std::uint8_t>(uniq), 0xC1);
            id[3] = static_cast<std::uint8_t>(op.at(2)); id[2] = static_cast<std::uint8_t>(op.at(2) >> 8);
            counter_edge(id, payload.size(), op.at(2), uniq, ctx);
            ++uniq;
            const Entry* again = pool_pick(op.at(3));
            if (again) { id = again->id; ctx.boundary("restore_of_held_chunk"); }
            pr::Manifest m;
            rig.node.run([&](en::Node& n) { m = n.store_chunk(id, payload, seconds(op.at(1))); });
            if (payload.empty()) ctx.boundary("empty_payload");
            check_roundtrip(again ? "restored" : "stored", m, payload, id);
            {
                Entry fresh; fresh.id = id; fresh.payload = payload; fresh.deadline = wall_to_sim(m.expires_at);
                if (Entry* e = pool_find(id)) *e = fresh; else pool.push_back(fresh);
            }
            recheck_all(again ? "restore" : "store");
            // the manifest survives its own codec
            try { const auto back = pr::decode_manifest(pr::encode_manifest(m)); if (back.chunk_hash != m.chunk_hash || back.nonce.bytes != m.nonce.bytes || back.shards.size() != m.shards.size()) ctx.violate("C11.manifest_codec", "manifest fields change across encode/decode"); } catch (...) { ctx.violate("C11.manifest_codec", "issued manifest does not re-decode"); }
            ctx.state(payload.size() % 97);
            continue;
        }
        if (op.k == "forge") {
            // a session peer announces a manifest for a chunk the node HOLDS, with fields that do not belong to the held bytes
            Entry* victim = pool_pick(op.at(1));
            if (!victim || sk::now_ns() + 10 * kSec >= victim->deadline) { ctx.probe("forge_without_victim"); continue; }
            const int fpi = static_cast<int>(op.at(0)) % npeers;
            RigPeer& fpeer = *rig.peers[static_cast<std::size_t>(fpi)];
            const int variant = static_cast<int>(op.at(2));
            sk::Rng g(static_cast<std::uint64_t>(op.at(3)) + 17);
            pr::Manifest fm;
            bool have = false;
            rig.node.run([&](en::Node& n) { if (auto mm = n.manifest_for_chunk(victim->id)) { fm = *mm; have = true; } });
            if (!have || variant == 0) {
                // a self-consistent manifest of OTHER content under the same id (what another publisher of that id would issue)
                const auto other = make_payload(victim->payload.size() + 1, 770000 + uniq++);
                fm = pub->store_chunk(victim->id, other, seconds(3600));
            } else if (variant == 1 && !fm.shards.empty()) fm.shards[g.below(fm.shards.size())].value[g.below(32)] ^= 0x20;
            else if (variant == 2) fm.nonce.bytes[g.below(12)] ^= 0x10;
            else if (variant == 3 && !fm.shards.empty()) { for (auto& sh : fm.shards) sh.value[0] ^= 0x01; }
            else if (variant == 4) fm.chunk_hash[g.below(32)] ^= 0x40;
            fm.expires_at = std::chrono::system_clock::time_point(std::chrono::nanoseconds(sk::kWallEpochNs + sk::now_ns() + 1800 * kSec));
            std::string furi;
            try { furi = pr::encode_manifest(fm); } catch (...) { continue; }
            sk::sleep_ns(1100 * kMs);
            pr::Message an{};
            an.type = pr::MessageType::Announce;
            pr::AnnouncePayload ap{};
            ap.chunk_id = victim->id; ap.peer_id = fpeer.ident.id; ap.endpoint = ip_text(fpeer.actor.host) + ":46000"; ap.ttl = seconds(600); ap.manifest_uri = furi;
            an.payload = ap;
            if (!rig.send(fpi, an) || !rig.barrier(fpi)) { ctx.probe("session_lost"); rig.reconnect(fpi); consumed[static_cast<std::size_t>(fpi)] = fpeer.received.size(); continue; }
            rig.drain(fpi);
            consumed[static_cast<std::size_t>(fpi)] = fpeer.received.size();
            ctx.boundary(std::string("forged_manifest_for_held_chunk_v") + std::to_string(variant));
            recheck_all("forged_manifest_for_held_chunk");
            continue;
        }
        // ---- replica import over the wire
        const int pi = static_cast<int>(op.at(0)) % npeers;
        const int tamper = static_cast<int>(op.at(2));
        RigPeer& peer = *rig.peers[static_cast<std::size_t>(pi)];
        const auto pl = make_payload(static_cast<std::size_t>(op.at(1)), 120000 + uniq);
        std::vector<std::uint8_t> payload(pl.begin(), pl.end());
        en::ChunkId id = make_id(static_cast<std::uint8_t>(uniq), 0xD1);
        id[1] = static_cast<std::uint8_t>(op.at(3));
        counter_edge(id, payload.size(), op.at(3), uniq, ctx);
        ++uniq;
        Entry* already = (tamper != 9) ? pool_pick(op.at(5)) : nullptr;
        if (already && sk::now_ns() + 10 * kSec >= already->deadline) already = nullptr;
        if (already) { id = already->id; ctx.boundary("replica_for_held_chunk"); }
        pr::Manifest m = pub->store_chunk(id, payload, seconds(3600));
        std::vector<std::uint8_t> cipher = pub->chunk_store_.get_record(id)->data;
        sk::Rng g(static_cast<std::uint64_t>(op.at(3)) + 3);
        en::ChunkId announce_id = id;
        switch (tamper) {
            case 1: if (!cipher.empty()) cipher[g.below(cipher.size())] ^= static_cast<std::uint8_t>(1u << g.below(8)); break;
            case 2: cipher.resize(cipher.size() / 2); break;
            case 3: cipher.push_back(static_cast<std::uint8_t>(g.below(256))); break;
            case 4: { const auto other = make_payload(payload.size(), 999000 + uniq); const auto oid = make_id(static_cast<std::uint8_t>(uniq), 0xD7); pub->store_chunk(oid, other, seconds(3600)); cipher = pub->chunk_store_.get_record(oid)->data; break; }
            case 5: cipher.clear(); break;
            case 6: m.nonce.bytes[g.below(12)] ^= 0x01; break;
            case 7: m.shards[g.below(std::max<std::size_t>(1, m.threshold))].value[g.below(32)] ^= 0x80; break;
            case 8: m.chunk_hash[g.below(32)] ^= 0x04; break;
            case 9: { announce_id = make_id(static_cast<std::uint8_t>(uniq + 100), 0xD9); m.chunk_id = announce_id; break; }  // manifest (and announce) name another chunk id: counter differs
            case 10: if (!cipher.empty()) cipher.back() ^= 0x01; break;
            case 11: if (!cipher.empty()) cipher.front() ^= 0x80; break;
            default: break;
        }
        // What the statement makes decisive: does the delivered ciphertext, decrypted under the key the delivered manifest's
        // shares reconstruct (with its nonce and chunk id), hash to the delivered manifest's content hash? Computed with the
        // independent cipher for three share subsets; if they disagree (a changed share outside some subset) the case is not judged.
        int hash_ok = 0, hash_bad = 0;
        if (m.threshold > 0 && m.shards.size() >= m.threshold) {
            std::vector<std::size_t> first, last;
            for (std::size_t i = 0; i < m.threshold; ++i) { first.push_back(i); last.push_back(m.shards.size() - 1 - i); }
            auto rev = first; std::reverse(rev.begin(), rev.end());
            for (auto& pick : {first, last, rev}) {
                const auto plain = ref_chacha(key_from(m, pick), m.nonce.bytes, counter_of(m.chunk_id), cipher);
                (en::crypto::Sha256::digest(std::span<const std::uint8_t>(plain)) == m.chunk_hash ? hash_ok : hash_bad)++;
            }
        } else hash_bad = 3;
        const bool must_reject = hash_ok == 0;
        const bool may_accept = hash_bad == 0;
        if (!must_reject && !may_accept) { ctx.probe("share_subsets_disagree_not_judged"); }
        if (tamper && may_accept) ctx.probe("tampering_without_effect_on_the_hash");
        ctx.probe(std::string("replica_") + tamper_name[tamper]);
        if (must_reject) ctx.boundary(std::string("tampered_") + tamper_name[tamper]);
        std::string uri;
        try { uri = pr::encode_manifest(m); } catch (...) { ctx.probe("manifest_not_encodable"); continue; }
        sk::sleep_ns(1100 * kMs);  // outside the announce throttle
        pr::Message an{};
        an.type = pr::MessageType::Announce;
        pr::AnnouncePayload ap{};
        ap.chunk_id = announce_id; ap.peer_id = peer.ident.id; ap.endpoint = ip_text(peer.actor.host) + ":46000"; ap.ttl = seconds(600); ap.manifest_uri = uri;
        an.payload = ap;
        pr::Message ch{};
        ch.type = pr::MessageType::Chunk;
        pr::ChunkPayload chp{};
        chp.chunk_id = announce_id; chp.data = cipher; chp.ttl = seconds(600);
        ch.payload = chp;
        const int repeats = op.at(4) == 2 ? 2 : 1;  // the CHUNK frame may be sent twice
        bool sent = rig.send(pi, an);
        for (int k = 0; k < repeats && sent; ++k) sent = rig.send(pi, ch);
        if (!sent || !rig.barrier(pi)) { ctx.probe("session_lost"); rig.reconnect(pi); consumed[static_cast<std::size_t>(pi)] = peer.received.size(); continue; }
        rig.drain(pi);
        // acknowledgements for this chunk on the wire
        int acks_yes = 0, acks_no = 0;
        for (auto& k = consumed[static_cast<std::size_t>(pi)]; k < peer.received.size(); ++k)
            if (auto* a = std::get_if<pr::AcknowledgePayload>(&peer.received[k].payload); a && a->chunk_id == announce_id) (a->accepted ? acks_yes : acks_no)++;
        bool held = false, self_provider = false;
        std::optional<en::ChunkData> returned;
        rig.node.run([&](en::Node& n) {
            held = n.chunk_store_.get_record(announce_id).has_value();
            returned = n.fetch_chunk(announce_id);
            std::unique_lock<std::recursive_mutex> lock(n.scheduler_mutex_);
            auto it = n.dht_.table_.find(en::chunk_id_to_string(announce_id));
            if (it != n.dht_.table_.end()) for (auto& h : it->second.holders) if (h.id == kRigNode) self_provider = true;
        });
        if (already) {
            // the node held this id before: what it holds now must still be legitimate content - the old payload, or (only if the
            // offered replica was intact) the offered one; never a mixture of old bytes and new key material or vice versa
            if (may_accept) { already->alt = payload; already->has_alt = true; already->deadline = std::min(already->deadline, wall_to_sim(m.expires_at)); }
            // (whether the node acknowledges is not judged here: it may legitimately measure the delivered bytes against the manifest it
            // already trusts for the chunk rather than against the one just offered)
            recheck_all(std::string(tamper ? "tampered" : "intact") + "_replica_for_held_chunk");
            ctx.state(static_cast<std::uint64_t>(tamper) * 4 + 3 + 64);
            continue;
        }
        if (must_reject) {
            const std::string what = std::string("a replica with ") + tamper_name[tamper];
            if (held) ctx.violate(std::string("C11.tampered_replica_stored.") + tamper_name[tamper], what + " is held in the chunk store");
            if (returned) ctx.violate(std::string("C11.tampered_replica_returned.") + tamper_name[tamper], what + fmt(" is returned by fetch_chunk (%zu bytes)", returned->size()));
            if (self_provider) ctx.violate(std::string("C11.tampered_replica_announced.") + tamper_name[tamper], what + " made the node list itself as a provider of the chunk");
            if (acks_yes) ctx.violate(std::string("C11.tampered_replica_acknowledged.") + tamper_name[tamper], what + " was acknowledged as accepted");
        } else if (may_accept) {
            if (acks_yes == 0 && acks_no > 0) ctx.probe("honest_replica_refused");
            if (held && tamper == 0) {
                check_roundtrip("imported", m, payload, id); ctx.probe("honest_replica_imported");
                Entry fresh; fresh.id = id; fresh.payload = payload; fresh.deadline = wall_to_sim(m.expires_at);
                if (Entry* e = pool_find(id)) *e = fresh; else pool.push_back(fresh);
            }
        }
        recheck_all("replica_import");
        ctx.state(static_cast<std::uint64_t>(tamper) * 4 + (held ? 1 : 0) + (acks_yes ? 2 : 0));
    }
    rig.stop();
    pub.reset();
}

Scenario make_c11() {
    Scenario s;
    s.id = "C11"; s.world = "W2"; s.level = "exploration";
    s.technique = "deterministic simulation: a real Node with scripted session peers over simulated TCP (fragmentation, short reads, duplicates, reconnects); local stores (sizes 0..70000, any TTL and shard configuration) are checked against an independent RFC 8439 ChaCha20 and three share subsets, the node's own fetch and the CLI's decrypt function; replica imports arrive as ANNOUNCE + CHUNK from a peer holding a real publisher's manifest and ciphertext, intact or tampered in eleven ways; a tampered replica must not be stored, returned, announced or acknowledged";
    s.real_components = {"Node (store_chunk, fetch_chunk, export_chunk_record, handle_announce, handle_chunk, receive_chunk)", "SessionManager", "CryptoManager/ChaCha20, Shamir, Sha256", "main.cpp decrypt_chunk_with_manifest (through the wrapper translation unit)", "manifest and message codecs"};
    s.stub_components = {"OS seams (fibers, simulated TCP, clock, entropy)", "announcing peers are scripted; the publisher is a real Node without network"};
    s.assumptions = {"the reference cipher is RFC 8439 ChaCha20 with a 32-bit block counter starting at the little-endian value of the chunk id's first four bytes (what the statement calls 'the ChaCha20 encryption')"};
    s.rule = "plan = shard threshold/total, 1..2 peers, network knobs + 3..12 operations (local store of a size/TTL under a fresh id or re-store of an id already held, replica import intact or with one of 11 tamperings for a fresh id or for a held id, forged manifest (5 variants) announced for a held chunk, optional duplicate CHUNK, reconnect); after every operation every live chunk the node holds is fetched again and must be the payload last stored (or an intact replica offered for it); non-trivial = a tampered replica, a re-store, a replica or forged manifest for a held chunk, or an empty payload; distinct = plan hash";
    s.gen = gen_c11; s.exec = exec_c11; s.kernel_knobs = rig_knobs;
    s.quick_runs = 2500; s.thorough_runs = 150000; s.quick_secs = 50; s.thorough_secs = 900;
    add_swarm_variant(s, 5);
    return s;
}
Registrar reg_c11(make_c11);

}  // namespace
