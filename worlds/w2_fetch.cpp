// W2 — C24: fetch scheduling respects limits, backs off, and always terminates.
// A real leeching Node receives assigned-fetch announces from scripted providers that answer,
// stay silent, or become unreachable; the node ticks on its own. Scheduler state is read at
// quiescent points and compared with what the property allows.
#include "worlds/w2_rig.hpp"
#include "worlds/swarm_variant.hpp"

using namespace wl;

namespace {

struct Content { pr::Manifest manifest; std::string uri; en::ChunkData cipher; std::int64_t expires_sim; };

Plan gen_c24(sk::Rng& r, Tier) {
    Plan p;
    gen_rig_knobs(p, r);
    p.knobs["limit"] = r.pick<std::int64_t>({1, 2, 3, 5});
    p.knobs["initial"] = r.pick<std::int64_t>({1, 2, 3, 7});
    p.knobs["max"] = r.pick<std::int64_t>({4, 5, 10, 60});  // also ceilings that are not initial x 2^k, and one below the initial back-off
    p.knobs["success"] = r.pick<std::int64_t>({2, 5, 15});
    p.knobs["parallel"] = r.pick<std::int64_t>({0, 1, 1, 2, 3});
    p.knobs["tick_ms"] = r.pick<std::int64_t>({400, 1000});
    p.knobs["chunk_ttl"] = r.pick<std::int64_t>({25, 60, 900});
    p.knobs["providers"] = r.range(1, 2);
    const int n = static_cast<int>(r.range(4, 22));
    for (int i = 0; i < n; ++i) {
        Op op;
        const auto c = r.below(100);
        if (c < 40) { op.k = "announce"; op.a = {static_cast<std::int64_t>(r.below(2)), static_cast<std::int64_t>(r.below(3))}; }
        else if (c < 58) { op.k = "reply"; op.a = {static_cast<std::int64_t>(r.below(2)), static_cast<std::int64_t>(r.below(3))}; }
        else if (c < 68) { op.k = "drop_session"; op.a = {static_cast<std::int64_t>(r.below(2))}; }
        else if (c < 76) { op.k = "reconnect"; op.a = {static_cast<std::int64_t>(r.below(2))}; }
        else if (c < 81) { op.k = "store_local"; op.a = {static_cast<std::int64_t>(r.below(3))}; }
        else { op.k = "wait"; op.a = {r.pick<std::int64_t>({300, 1100, 2100, 3500, 6000, 16000, 30000})}; }
        p.ops.push_back(op);
    }
    return p;
}

void exec_c24(const Plan& p, Ctx& ctx) {
    const std::int64_t limit = p.knob("limit", 5), initial = p.knob("initial", 3), maxb = p.knob("max", 60), success = p.knob("success", 15);
    const std::size_t parallel = static_cast<std::size_t>(p.knob("parallel", 3));
    const std::int64_t tick_ns = p.knob("tick_ms", 1000) * kMs;
    en::Config c = base_config(81);
    c.fetch_retry_attempt_limit = static_cast<std::uint8_t>(limit);
    c.fetch_retry_initial_backoff = seconds(initial);
    c.fetch_retry_max_backoff = seconds(maxb);
    c.fetch_retry_success_interval = seconds(success);
    c.fetch_max_parallel_requests = static_cast<std::uint16_t>(parallel);
    c.fetch_availability_refresh = seconds(10);
    c.min_manifest_ttl = seconds(1); c.max_manifest_ttl = seconds(7200);
    c.announce_min_interval = seconds(1); c.announce_burst_limit = 1000;
    c.key_rotation_interval = seconds(3600); c.cleanup_interval = seconds(100000);
    Rig rig;
    rig.start_node(c, p.knob("tick_ms", 1000));
    const int nprov = static_cast<int>(p.knob("providers", 2));
    for (int i = 0; i < nprov; ++i) if (rig.add_peer(static_cast<std::uint8_t>(0x81 + i)) < 0) { ctx.violate("C24.setup_failed", "scripted handshake failed"); rig.stop(); return; }

    // content published by a real (transport-less) node living in the driver: valid manifests + ciphertext
    en::Config pc = base_config(82);
    pc.min_manifest_ttl = seconds(1); pc.max_manifest_ttl = seconds(7200);
    auto pub = std::make_unique<en::Node>(make_id(0xB2, 0x22), pc);
    std::vector<Content> content;
    auto chunk_id = [](int k) { return make_id(static_cast<std::uint8_t>(0x30 + k), 0x91); };
    for (int k = 0; k < 3; ++k) {
        Content ct;
        ct.manifest = pub->store_chunk(chunk_id(k), make_payload(150 + static_cast<std::size_t>(k) * 37, 900 + static_cast<std::uint64_t>(k)), seconds(p.knob("chunk_ttl", 60) + k * 7));
        ct.uri = pr::encode_manifest(ct.manifest);
        ct.cipher = pub->export_chunk_record(chunk_id(k))->data;
        ct.expires_sim = wall_to_sim(ct.manifest.expires_at);
        content.push_back(std::move(ct));
    }
    std::vector<std::size_t> consumed(static_cast<std::size_t>(nprov), 0);
    std::vector<std::map<int, int>> requests_seen(static_cast<std::size_t>(nprov));  // provider -> chunk -> REQUEST frames received
    std::vector<bool> session_up(static_cast<std::size_t>(nprov), true);

    std::int64_t stored_locally_at[3] = {-1, -1, -1};
    std::map<std::string, std::int64_t> held_since;  // chunk key -> when the node was first seen holding it (a fetch is dropped by the next scan, i.e. tick)
    auto absorb = [&](int q) {
        rig.drain(q);
        RigPeer& peer = *rig.peers[static_cast<std::size_t>(q)];
        for (; consumed[static_cast<std::size_t>(q)] < peer.received.size(); ++consumed[static_cast<std::size_t>(q)]) {
            const auto& m = peer.received[consumed[static_cast<std::size_t>(q)]];
            if (auto* rq = std::get_if<pr::RequestPayload>(&m.payload)) {
                for (int k = 0; k < 3; ++k) if (rq->chunk_id == chunk_id(k)) {
                    ++requests_seen[static_cast<std::size_t>(q)][k]; ctx.probe("request_frames_seen");
                    // the node stored this chunk itself a while ago (two ticks and more): it has no reason left to ask anybody for it
                    const std::size_t idx = consumed[static_cast<std::size_t>(q)];
                    const std::int64_t at = idx < peer.received_at.size() ? peer.received_at[idx] : sk::now_ns();
                    if (stored_locally_at[k] >= 0 && at > stored_locally_at[k] + 2 * p.knob("tick_ms", 1000) * kMs + kSec + p.knob("lat_max_us", 1000) * 2000)
                        ctx.violate("C24.request_for_held_chunk", fmt("a REQUEST for chunk %d reached a provider %.3f s after the node had stored that chunk itself", k, (at - stored_locally_at[k]) / 1e9));
                }
            }
        }
    };

    std::map<std::string, std::size_t> announces_since_pending;  // chunk key -> announces delivered while its fetch was already pending
    struct PF { std::string peer; std::size_t attempts; bool in_flight; std::int64_t next_attempt, last_dispatch, manifest_expires; bool never; };
    // When was a fetch first seen with its current attempt count? The failed dispatch that produced the count (and from whose
    // instant the back-off runs) happened between `last_dispatch` and that observation; observing right after every tick keeps
    // the interval as short as the dispatch itself for every retry (retries are dispatched by ticks).
    struct Seen { std::size_t attempts = 0; std::int64_t at = 0; };
    std::map<std::string, Seen> first_seen;
    auto note_attempts = [&](en::Node& n) {
        std::unique_lock<std::recursive_mutex> lock(n.scheduler_mutex_);
        for (auto& [key, st] : n.pending_chunk_fetches_) { auto& sn = first_seen[key]; if (sn.attempts != st.attempts || sn.at == 0) { sn.attempts = st.attempts; sn.at = sk::now_ns(); } }
        for (auto it = first_seen.begin(); it != first_seen.end();) it = n.pending_chunk_fetches_.count(it->first) ? std::next(it) : first_seen.erase(it);
    };
    rig.node.after_tick = note_attempts;
    auto check = [&](const char* when) {
        std::map<std::string, PF> pending;
        std::map<std::string, std::size_t> counters;
        std::set<std::string> held;
        rig.node.run([&](en::Node& n) {
            note_attempts(n);
            std::unique_lock<std::recursive_mutex> lock(n.scheduler_mutex_);
            for (auto& [key, st] : n.pending_chunk_fetches_) {
                PF f;
                f.peer = en::peer_id_to_string(st.peer_id);
                f.attempts = st.attempts; f.in_flight = st.in_flight;
                f.never = st.next_attempt == std::chrono::steady_clock::time_point::max();
                f.next_attempt = f.never ? INT64_MAX : steady_to_sim(st.next_attempt);
                f.last_dispatch = steady_to_sim(st.last_dispatch);
                f.manifest_expires = wall_to_sim(st.manifest_expires);
                pending[key] = f;
            }
            counters = {n.active_peer_requests_.begin(), n.active_peer_requests_.end()};
            for (auto& [key, rec] : n.chunk_store_.chunks_) held.insert(key);
        });
        const std::int64_t now = sk::now_ns();
        std::map<std::string, std::size_t> in_flight_by_peer;
        for (auto& [key, f] : pending) if (f.in_flight) ++in_flight_by_peer[f.peer];
        for (auto& [peer, cnt] : counters) {
            const std::size_t want = in_flight_by_peer.count(peer) ? in_flight_by_peer[peer] : 0;
            if (cnt != want)
                ctx.violate("C24.inflight_counter_mismatch", fmt("in-flight counter of a provider is %zu but %zu of its requests are outstanding (%s)", cnt, want, when));
            if (parallel != 0 && cnt > parallel) ctx.violate("C24.parallel_limit", fmt("%zu requests in flight to one provider; limit %zu (%s)", cnt, parallel, when));
        }
        for (auto& [peer, want] : in_flight_by_peer)
            if (!counters.count(peer)) ctx.violate("C24.inflight_counter_mismatch", fmt("%zu requests outstanding to a provider that has no in-flight counter (%s)", want, when));
        for (auto& [key, f] : pending) {
            if (!f.in_flight && f.attempts >= 1 && !f.never && f.next_attempt > now) {
                // parked after a failed dispatch: the delay must be the back-off for this attempt number
                const std::size_t exp = std::min<std::size_t>(f.attempts - 1, 8);
                std::int64_t backoff = initial * (std::int64_t{1} << exp);
                if (maxb > 0 && backoff > maxb) backoff = maxb;
                if (backoff < 1) backoff = 1;
                const std::int64_t diff = f.next_attempt - f.last_dispatch;
                ctx.probe("backoff_observed");
                // the back-off runs from the failure, which lies between the dispatch and the first observation of this attempt count
                std::int64_t slack_max = 8 * kSec;
                if (auto sn = first_seen.find(key); sn != first_seen.end() && sn->second.attempts == f.attempts && sn->second.at >= f.last_dispatch)
                    slack_max = std::min<std::int64_t>(slack_max, sn->second.at - f.last_dispatch + 5 * kMs);
                if (slack_max < 100 * kMs) ctx.probe("backoff_judged_within_100ms");
                if (diff < backoff * kSec || diff > backoff * kSec + slack_max)
                    ctx.violate("C24.backoff", fmt("after failed attempt %zu the next attempt is scheduled %.3f s after the dispatch; expected back-off %lld s (+ at most %.3f s for the dispatch itself; initial %lld, max %lld) (%s)", f.attempts, diff / 1e9, (long long)backoff, slack_max / 1e9, (long long)initial, (long long)maxb, when));
            }
            // every accepted announce for the chunk restarts the fetch and is allowed one more attempt
            const std::size_t extra = announces_since_pending.count(key) ? announces_since_pending[key] : 0;
            if (limit > 0 && f.attempts > static_cast<std::size_t>(limit) + extra) {
                ctx.violate("C24.attempt_limit_exceeded", fmt("a pending fetch has made %zu attempts; the attempt limit is %lld (%s)", f.attempts, (long long)limit, when));
            }
            if (limit > 0 && f.attempts == static_cast<std::size_t>(limit)) ctx.boundary("fetch_at_attempt_limit");
            if (held.count(key) && !held_since.count(key)) held_since[key] = now;
            if (held.count(key) && now - std::max(f.last_dispatch, held_since[key]) > 2 * tick_ns + kSec && when[0] == 'q')
                ctx.violate("C24.pending_after_chunk_held", fmt("fetch still pending although the chunk is held locally (%s)", when));
            if (f.manifest_expires + 2 * tick_ns + kSec < now && when[0] == 'q')
                ctx.violate("C24.pending_after_manifest_expiry", fmt("fetch still pending %.3f s after its manifest expired (%s)", (now - f.manifest_expires) / 1e9, when));
        }
        ctx.state(pending.size() * 16 + counters.size() * 4 + held.size());
    };

    for (auto& op : p.ops) {
        ++ctx.ops_done;
        if (op.k == "wait") {
            sk::sleep_ns(op.at(0) * kMs);
            for (int q = 0; q < nprov; ++q) absorb(q);
            check("quiescent after wait");
            continue;
        }
        if (op.k == "store_local") {
            // the node's own user stores the very chunk the node is (or may be) fetching: the fetch has become pointless
            const int k = static_cast<int>(op.at(0)) % 3;
            for (int qq = 0; qq < nprov; ++qq) absorb(qq);
            rig.node.run([&](en::Node& n) { n.store_chunk(chunk_id(k), make_payload(150 + static_cast<std::size_t>(k) * 37, 900 + static_cast<std::uint64_t>(k)), seconds(p.knob("chunk_ttl", 60) + k * 7)); });
            if (stored_locally_at[k] < 0) stored_locally_at[k] = sk::now_ns();
            if (!held_since.count(en::chunk_id_to_string(chunk_id(k)))) held_since[en::chunk_id_to_string(chunk_id(k))] = sk::now_ns();
            ctx.boundary("chunk_stored_locally_while_fetches_may_be_pending");
            check("after local store");
            continue;
        }
        const int q = static_cast<int>(op.at(0)) % nprov;
        RigPeer& prov = *rig.peers[static_cast<std::size_t>(q)];
        if (op.k == "announce") {
            if (!session_up[static_cast<std::size_t>(q)]) continue;
            const int k = static_cast<int>(op.at(1));
            if (content[static_cast<std::size_t>(k)].expires_sim < sk::now_ns() + 3 * kSec) continue;
            sk::sleep_ns(1100 * kMs);  // stay outside the announce throttle (C21)
            bool was_in_flight = false;
            rig.node.run([&](en::Node& n) {
                std::unique_lock<std::recursive_mutex> lock(n.scheduler_mutex_);
                auto it = n.pending_chunk_fetches_.find(en::chunk_id_to_string(chunk_id(k)));
                was_in_flight = it != n.pending_chunk_fetches_.end() && it->second.in_flight;
            });
            if (was_in_flight) ctx.boundary("reannounce_of_in_flight_fetch");
            bool was_pending = false;
            rig.node.run([&](en::Node& n) { std::unique_lock<std::recursive_mutex> lock(n.scheduler_mutex_); was_pending = n.pending_chunk_fetches_.count(en::chunk_id_to_string(chunk_id(k))) != 0; });
            if (was_pending) ++announces_since_pending[en::chunk_id_to_string(chunk_id(k))]; else announces_since_pending.erase(en::chunk_id_to_string(chunk_id(k)));
            pr::AnnouncePayload a{};
            a.chunk_id = chunk_id(k); a.peer_id = prov.ident.id;
            a.endpoint = ip_text(prov.actor.host) + ":4" + std::to_string(200 + q);  // nothing listens there: direct connects are refused
            a.ttl = seconds(300);
            a.manifest_uri = content[static_cast<std::size_t>(k)].uri;
            a.assigned_shards = {1};
            pr::Message m{};
            m.type = pr::MessageType::Announce;
            m.payload = a;
            if (!rig.send(q, m) || !rig.barrier(q)) { ctx.violate("C24.session_lost", "provider session broke: " + prov.conn.last_error); break; }
            absorb(q);
            ctx.probe("announces_sent");
            check("after announce");
        } else if (op.k == "reply") {
            if (!session_up[static_cast<std::size_t>(q)]) continue;
            const int k = static_cast<int>(op.at(1));
            absorb(q);
            if (!requests_seen[static_cast<std::size_t>(q)].count(k)) continue;
            if (content[static_cast<std::size_t>(k)].expires_sim < sk::now_ns() + 2 * kSec) continue;
            pr::Message m{};
            m.type = pr::MessageType::Chunk;
            pr::ChunkPayload cp{};
            cp.chunk_id = chunk_id(k); cp.data = content[static_cast<std::size_t>(k)].cipher; cp.ttl = seconds(60);
            m.payload = cp;
            if (!rig.send(q, m) || !rig.barrier(q)) { ctx.violate("C24.session_lost", "provider session broke"); break; }
            ctx.probe("chunks_delivered");
            sk::sleep_ns(2 * tick_ns + 500 * kMs);
            absorb(q);
            check("quiescent after chunk arrival");
        } else if (op.k == "drop_session") {
            if (!session_up[static_cast<std::size_t>(q)]) continue;
            prov.actor.call([&] { prov.conn.close_now(); });
            session_up[static_cast<std::size_t>(q)] = false;
            ctx.fault("provider_unreachable");
            sk::sleep_ns(300 * kMs);
            check("after provider went away");
        } else if (op.k == "reconnect") {
            if (session_up[static_cast<std::size_t>(q)]) continue;
            session_up[static_cast<std::size_t>(q)] = rig.reconnect(q);
            consumed[static_cast<std::size_t>(q)] = 0;
            prov.received.clear(); prov.received_at.clear();
            check("after provider reconnected");
        }
    }
    // termination: beyond every manifest expiry plus two ticks nothing may be pending and no counter may remain
    std::int64_t last = sk::now_ns();
    for (auto& ct : content) last = std::max(last, ct.expires_sim);
    sk::sleep_ns(last - sk::now_ns() + 3 * tick_ns + 2 * kSec);
    check("quiescent at the end");
    std::size_t npending = 0, ncounters = 0;
    rig.node.run([&](en::Node& n) { std::unique_lock<std::recursive_mutex> lock(n.scheduler_mutex_); npending = n.pending_chunk_fetches_.size(); ncounters = n.active_peer_requests_.size(); });
    if (npending != 0) ctx.violate("C24.not_terminated", fmt("%zu fetches still pending after every manifest expired", npending));
    if (ncounters != 0) ctx.violate("C24.counter_not_zero", fmt("%zu providers still have a non-zero in-flight count when nothing is pending", ncounters));
    pub.reset();
    rig.stop();
}

Scenario make_c24() {
    Scenario s;
    s.id = "C24"; s.world = "W2"; s.level = "exploration";
    s.technique = "deterministic simulation: scripted providers with real sessions announce assigned fetches (incl. re-announces of a fetch in flight), answer with valid chunks, stay silent or become unreachable while a real leeching Node ticks; scheduler state read at quiescent points is compared with the limits, the back-off law and the drop/termination conditions";
    s.real_components = {"Node (schedule_assigned_fetch, process_pending_fetches, dispatch_pending_fetch, schedule_next_fetch_attempt, note_dispatch_start/end, clear_pending_fetch, request_chunk, receive_chunk, tick)", "SessionManager", "ChunkStore", "Manifest/Message codecs"};
    s.stub_components = {"OS: threads -> fibers, sockets -> simulated TCP, clock, entropy", "providers are scripted processes; content (manifest + ciphertext) comes from a real transport-less publisher Node"};
    s.assumptions = {"a back-off is judged as: next attempt - dispatch time within [back-off, back-off + 8 s] (the dispatch itself takes simulated time)",
                     "drop conditions are judged two tick periods + 1 s after they became true"};
    s.rule = "plan = attempt limit, initial/max back-off, success interval, per-provider parallel limit, tick period, chunk TTL, 1..2 providers + 4..22 ops (assigned-fetch announce incl. re-announce, valid chunk reply, provider session drop, reconnect, waits up to 30 s); non-trivial = a fetch was re-announced while in flight, a provider became unreachable, or a back-off after a repeated failure was observed; distinct = plan hash; `store_local`: the node's own user stores the chunk it is fetching (the fetch must be gone two ticks later and no REQUEST for it may reach a provider after that)";
    s.gen = gen_c24; s.exec = exec_c24; s.kernel_knobs = rig_knobs;
    s.quick_runs = 2500; s.thorough_runs = 100000; s.quick_secs = 55; s.thorough_secs = 900;
    add_swarm_variant(s, 15);
    return s;
}
Registrar reg_c24(make_c24);

}  // namespace
