// W4 — C29: control responses reach the client intact, so `eph list` shows every chunk.
// The real `eph serve` main holds 0..6 chunks; the real `eph list/defaults/status` mains and the real
// ControlClient read its responses over the simulated TCP (short reads, fragmentation).
#include "worlds/w4_common.hpp"

using namespace wl;

namespace {

Plan gen_c29(sk::Rng& r, Tier) {
    Plan p;
    gen_w4_knobs(p, r);
    p.knobs["chunks"] = r.pick<std::int64_t>({0, 1, 2, 3, 4, 6});
    p.knobs["bulk"] = r.chance(1, 5) ? r.pick<std::int64_t>({40, 190, 230, 420}) : 0;  // further chunks placed straight into the daemon's node (a long ENTRIES value)
    p.knobs["advertise"] = static_cast<std::int64_t>(r.below(3));  // 0 none, 1 one manual endpoint, 2 allow-private (several auto endpoints)
    const int n = static_cast<int>(r.range(2, 6));
    for (int i = 0; i < n; ++i) {
        Op op;
        op.k = r.pick<std::string>({"cli_list", "cli_list", "client_list", "client_defaults", "client_status", "client_metrics", "cli_defaults", "cli_status"});
        p.ops.push_back(op);
    }
    return p;
}

std::string unescape(const std::string& v) {
    std::string out;
    for (std::size_t i = 0; i < v.size(); ++i) {
        if (v[i] == '\\' && i + 1 < v.size()) {
            if (v[i + 1] == 'n') { out.push_back('\n'); ++i; continue; }
            if (v[i + 1] == 'r') { out.push_back('\r'); ++i; continue; }
            if (v[i + 1] == '\\') { out.push_back('\\'); ++i; continue; }
        }
        out.push_back(v[i]);
    }
    return out;
}

void exec_c29(const Plan& p, Ctx& ctx) {
    capture_reset();
    Daemon d;
    d.extra_args = {"--min-ttl", "5", "--max-ttl", "7200", "--default-ttl", "900"};
    if (p.knob("advertise") == 1) { d.extra_args.push_back("--advertise-control"); d.extra_args.push_back("node.example.org:47777"); }
    if (p.knob("advertise") == 2) d.extra_args.push_back("--advertise-allow-private");
    d.start();
    if (!d.wait_ready()) { ctx.violate("C29.setup_failed", "daemon did not answer PING: " + sk::info(d.pid).exit_detail); d.stop(); return; }
    const std::string host = ip_text(d.host);
    Actor client;
    client.start("ctl-client", d.host);  // same host as the daemon, like the CLI
    // model: chunks stored through the control plane (chunk id = SHA-256 of the payload)
    std::set<std::string> model;
    const int chunks = static_cast<int>(p.knob("chunks", 3));
    for (int k = 0; k < chunks; ++k) {
        const auto pl = make_payload(64 + static_cast<std::size_t>(k) * 11, 31000 + static_cast<std::uint64_t>(k));
        std::vector<std::uint8_t> body(pl.begin(), pl.end());
        CtlReply rep;
        client.call([&] {
            rep = ctl_exchange("127.0.0.1", d.control_port,
                               ctl_headers({{"COMMAND", "STORE"}, {"TTL", "900"}, {"STORE-POW", std::to_string(ref_solve_store_pow(body, "", 6))}, {"PAYLOAD-LENGTH", std::to_string(body.size())}}), body);
        });
        if (!rep.ok) { ctx.violate("C29.setup_failed", "STORE failed: " + rep.field("CODE")); d.stop(); client.shutdown(); return; }
        const auto digest = en::crypto::Sha256::digest(std::span<const std::uint8_t>(body));
        model.insert(hz::hex(digest.data(), digest.size()));
        sk::sleep_ns(5100 * kMs);  // stay under the STORE rate limit (C28)
    }
    if (const auto bulk = p.knob("bulk", 0); bulk > 0) {
        const bool ok = d.with_node([&](en::Node& n) {
            for (std::int64_t k = 0; k < bulk; ++k) {
                const auto pl = make_payload(40, 910000 + static_cast<std::uint64_t>(k));
                en::ChunkData data(pl.begin(), pl.end());
                en::ChunkId id{};
                const auto dg = en::crypto::Sha256::digest(std::span<const std::uint8_t>(data));
                std::copy(dg.begin(), dg.end(), id.begin());
                n.store_chunk(id, std::move(data), std::chrono::seconds(900));
                model.insert(hz::hex(dg.data(), dg.size()));
            }
        });
        if (ok) ctx.boundary("response_header_over_16k"); else ctx.probe("bulk_store_failed");
    }
    if (model.size() >= 2) ctx.boundary("multi_line_value");
    const std::vector<std::string> cli_base{"eph", "--control-port", std::to_string(d.control_port)};

    auto nothing_lost = [&](const std::string& command, const en::daemon::ControlResponse& parsed) {
        // ground truth = what went over the wire, read by an independent raw exchange of the same command
        CtlReply raw;
        client.call([&] { raw = ctl_exchange("127.0.0.1", d.control_port, ctl_headers({{"COMMAND", command}}), {}); });
        if (!raw.got_status) { ctx.probe("raw_exchange_failed"); return; }
        std::string dump;
        for (auto& [k, v] : parsed.fields) dump += k + ":" + v + "\n";
        const std::size_t head_end = raw.raw.find("\n\n");
        std::istringstream lines(raw.raw.substr(0, head_end == std::string::npos ? raw.raw.size() : head_end));
        std::string line;
        while (std::getline(lines, line)) {
            if (line.empty() || line.rfind("STATUS:", 0) == 0 || line.rfind("PAYLOAD-LENGTH:", 0) == 0) continue;
            // volatile values (remaining TTL seconds) may differ between the two exchanges: compare up to the last comma for entries
            std::istringstream pieces(unescape(line));
            std::string piece;
            while (std::getline(pieces, piece)) {
                while (!piece.empty() && (piece.front() == ' ' || piece.front() == '\t')) piece.erase(piece.begin());  // framing of continuation lines is not content
                if (piece.empty()) continue;
                std::string needle = piece;
                const std::size_t colon = needle.find(':');
                if (colon != std::string::npos && colon < 40 && needle.find("ENTRIES") == 0) needle = needle.substr(colon + 1);
                if (needle.size() > 70 && needle.find(',') != std::string::npos) needle = needle.substr(0, needle.rfind(','));  // drop the ttl column of a chunk entry
                if (needle.empty()) continue;
                if (dump.find(needle) == std::string::npos)
                    ctx.violate("C29.field_content_lost." + command, fmt("%s: the daemon sent '%s' but it is in no field the control client parsed", command.c_str(), needle.substr(0, 90).c_str()));
            }
        }
    };

    for (auto& op : p.ops) {
        ++ctx.ops_done;
        if (!sk::alive(d.pid)) { ctx.violate("C29.daemon_died", "the daemon process ended: " + sk::info(d.pid).exit_detail); break; }
        if (op.k == "cli_list") {
            auto args = cli_base; args.push_back("list");
            const CliRun run = run_eph(d.host, args);
            if (!run.finished) { ctx.violate("C29.cli_hung", "`eph list` did not finish"); continue; }
            ctx.probe("cli_list_runs");
            std::set<std::string> shown;
            std::istringstream lines(run.out);
            std::string line;
            long reported = -1;
            while (std::getline(lines, line)) {
                if (line.rfind("Local chunks:", 0) == 0) reported = atol(line.c_str() + 13);
                const std::size_t id = line.find("ID=");
                if (id != std::string::npos) shown.insert(line.substr(id + 3, 64));
            }
            if (reported != static_cast<long>(model.size()))
                ctx.violate("C29.list_count", fmt("`eph list` reports %ld local chunks; the daemon holds %zu", reported, model.size()));
            for (auto& m : model) if (!shown.count(m)) { ctx.violate("C29.list_missing_chunk", fmt("`eph list` shows %zu of %zu live chunks (missing %s...)", shown.size(), model.size(), m.substr(0, 12).c_str())); break; }
            for (auto& sid : shown) if (!model.count(sid)) ctx.violate("C29.list_spurious_chunk", "`eph list` shows a chunk the daemon does not hold: " + sid.substr(0, 12));
        } else if (op.k == "cli_defaults" || op.k == "cli_status") {
            auto args = cli_base; args.push_back(op.k == "cli_defaults" ? "defaults" : "status");
            const CliRun run = run_eph(d.host, args);
            if (!run.finished) ctx.violate("C29.cli_hung", "`eph " + args.back() + "` did not finish");
            else if (run.exit_code != 0) ctx.probe("cli_nonzero_exit");
        } else {
            const std::string command = op.k == "client_list" ? "LIST" : op.k == "client_defaults" ? "DEFAULTS" : op.k == "client_status" ? "STATUS" : "METRICS";
            std::optional<en::daemon::ControlResponse> resp;
            client.call([&] { en::daemon::ControlClient cc("127.0.0.1", d.control_port); resp = cc.send(command); });
            if (!resp) { ctx.violate("C29.client_no_response", command + ": ControlClient got no response"); continue; }
            ctx.probe("client_" + command);
            if (command == "LIST") {
                const auto cnt = resp->fields.count("COUNT") ? resp->fields.at("COUNT") : "?";
                if (cnt != std::to_string(model.size())) ctx.violate("C29.client_list_count", "ControlClient LIST: COUNT=" + cnt + ", daemon holds " + std::to_string(model.size()));
                std::size_t entries = 0;
                if (resp->fields.count("ENTRIES")) { std::istringstream es(resp->fields.at("ENTRIES")); std::string e; while (std::getline(es, e)) if (!e.empty()) { ++entries; if (!model.count(e.substr(0, 64))) ctx.violate("C29.client_list_spurious", "ControlClient LIST entry for an unknown chunk"); } }
                if (entries != model.size()) ctx.violate("C29.client_list_entries", fmt("ControlClient LIST: ENTRIES holds %zu entries, daemon holds %zu chunks", entries, model.size()));
            }
            if (command == "METRICS") {
                CtlReply raw;
                client.call([&] { raw = ctl_exchange("127.0.0.1", d.control_port, ctl_headers({{"COMMAND", "METRICS"}}), {}); });
                if (!resp->has_payload || resp->payload.empty()) ctx.violate("C29.payload_lost", "ControlClient METRICS: no payload");
                else if (raw.payload_complete && resp->payload.size() < raw.payload.size() / 2) ctx.violate("C29.payload_truncated", "ControlClient METRICS payload much shorter than what the daemon sends");
            } else {
                nothing_lost(command, *resp);
            }
            for (auto& [k, v] : resp->fields) {
                if (v.find('\n') != std::string::npos && v.find('\n') + 1 < v.size()) ctx.probe("multi_line_" + k);
                bool upper = !k.empty();
                for (char ch : k) if (!(std::isupper(static_cast<unsigned char>(ch)) || ch == '_' || ch == '-' || std::isdigit(static_cast<unsigned char>(ch)))) upper = false;
                if (!upper) ctx.violate("C29.spurious_key." + command, "ControlClient " + command + ": parsed a key the daemon never sends: '" + k.substr(0, 60) + "'");
            }
        }
        ctx.state(model.size() * 16 + static_cast<std::size_t>(p.knob("advertise")));
    }
    client.shutdown();
    d.stop();
}

Scenario make_c29() {
    Scenario s;
    s.id = "C29"; s.world = "W4"; s.level = "exploration";
    s.technique = "deterministic simulation: the real `eph serve` main with 0..6 chunks and several bootstrap/advertise entries; the real `eph list|defaults|status` mains and the real ControlClient read its responses over simulated TCP with short reads; `eph list` output and ControlClient fields are compared with the daemon's state and with an independent raw read of the same response";
    s.real_components = {"src/main.cpp serve + list/defaults/status paths (real main())", "ControlServer (send_response, handle_list/defaults/status/metrics)", "ControlClient (parse_response)"};
    s.stub_components = {"OS: threads -> fibers, sockets -> simulated TCP, clock, entropy; std::cout of each simulated process captured separately"};
    s.assumptions = {"ground truth for multi-line values is the daemon's state (stored chunk ids) and the raw bytes it put on the wire"};
    s.rule = "plan = 0..6 stored chunks, advertise configuration, network knobs + 2..6 reads (eph list/defaults/status, ControlClient LIST/DEFAULTS/STATUS/METRICS); non-trivial = at least two chunks (a multi-line value); distinct = plan hash";
    s.gen = gen_c29; s.exec = exec_c29; s.kernel_knobs = w4_knobs;
    s.quick_runs = 1200; s.thorough_runs = 60000; s.quick_secs = 55; s.thorough_secs = 900;
    return s;
}
Registrar reg_c29(make_c29);

}  // namespace
