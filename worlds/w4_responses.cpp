// W4 — C29: control responses reach the client intact, so `eph list` shows every chunk.
// The real `eph serve` main holds 0..6 chunks; the real `eph list/defaults/status` mains and the real
// ControlClient read its responses over the simulated TCP (short reads, fragmentation).
#include "worlds/w4_common.hpp"

using namespace wl;

namespace {

Plan gen_c29(sk::Rng& r, Tier) {
    Plan p;
    gen_w4_knobs(p, r);
    p.knobs["chunks"] = r.pick<std::int64_t>({0, 1, 2, 3, 4, 6});
    p.knobs["bulk"] = r.chance(1, 5) ? r.pick<std::int64_t>({40, 190, 230, 420}) : 0;  // further chunks placed straight into the daemon's node (a long ENTRIES value)
    p.knobs["advertise"] = static_cast<std::int64_t>(r.below(3));  // 0 none, 1 one manual endpoint, 2 allow-private (several auto endpoints)
    p.knobs["short_lived"] = r.chance(1, 3) ? r.range(1, 2) : 0;  // chunks that reach the end of their life during the run
    const int n = static_cast<int>(r.range(2, 6));
    for (int i = 0; i < n; ++i) {
        Op op;
        if (p.knobs["short_lived"] > 0 && r.chance(1, 2)) {
            // move to a chosen distance before a short-lived chunk's deadline, then list
            Op w; w.k = "wait_near_deadline"; w.a = {static_cast<std::int64_t>(r.below(2)), r.pick<std::int64_t>({1800, 950, 600, 250, 60})};
            p.ops.push_back(w);
            op.k = r.pick<std::string>({"cli_list", "client_list", "client_list"});
        } else op.k = r.pick<std::string>({"cli_list", "cli_list", "client_list", "client_defaults", "client_status", "client_metrics", "cli_defaults", "cli_status"});
        p.ops.push_back(op);
    }
    return p;
}

std::string unescape(const std::string& v) {
    std::string out;
    for (std::size_t i = 0; i < v.size(); ++i) {
        if (v[i] == '\\' && i + 1 < v.size()) {
            if (v[i + 1] == 'n') { out.push_back('\n'); ++i; continue; }
            if (v[i + 1] == 'r') { out.push_back('\r'); ++i; continue; }
            if (v[i + 1] == '\\') { out.push_back('\\'); ++i; continue; }
        }
        out.push_back(v[i]);
    }
    return out;
}

void exec_c29(const Plan& p, Ctx& ctx) {
    capture_reset();
    Daemon d;
    d.extra_args = {"--min-ttl", "5", "--max-ttl", "7200", "--default-ttl", "900"};
    if (p.knob("advertise") == 1) { d.extra_args.push_back("--advertise-control"); d.extra_args.push_back("node.example.org:47777"); }
    if (p.knob("advertise") == 2) d.extra_args.push_back("--advertise-allow-private");
    d.start();
    if (!d.wait_ready()) { ctx.violate("C29.setup_failed", "daemon did not answer PING: " + sk::info(d.pid).exit_detail); d.stop(); return; }
    const std::string host = ip_text(d.host);
    Actor client;
    client.start("ctl-client", d.host);  // same host as the daemon, like the CLI
    // model: chunks stored through the control plane (chunk id = SHA-256 of the payload)
    std::set<std::string> model;
    const int chunks = static_cast<int>(p.knob("chunks", 3));
    for (int k = 0; k < chunks; ++k) {
        const auto pl = make_payload(64 + static_cast<std::size_t>(k) * 11, 31000 + static_cast<std::uint64_t>(k));
        std::vector<std::uint8_t> body(pl.begin(), pl.end());
        CtlReply rep;
        client.call([&] {
            rep = ctl_exchange("127.0.0.1", d.control_port,
                               ctl_headers({{"COMMAND", "STORE"}, {"TTL", "900"}, {"STORE-POW", std::to_string(ref_solve_store_pow(body, "", 6))}, {"PAYLOAD-LENGTH", std::to_string(body.size())}}), body);
        });
        if (!rep.ok) { ctx.violate("C29.setup_failed", "STORE failed: " + rep.field("CODE")); d.stop(); client.shutdown(); return; }
        const auto digest = en::crypto::Sha256::digest(std::span<const std::uint8_t>(body));
        model.insert(hz::hex(digest.data(), digest.size()));
        sk::sleep_ns(5100 * kMs);  // stay under the STORE rate limit (C28)
    }
    if (const auto bulk = p.knob("bulk", 0); bulk > 0) {
        const bool ok = d.with_node([&](en::Node& n) {
            for (std::int64_t k = 0; k < bulk; ++k) {
                const auto pl = make_payload(40, 910000 + static_cast<std::uint64_t>(k));
                en::ChunkData data(pl.begin(), pl.end());
                en::ChunkId id{};
                const auto dg = en::crypto::Sha256::digest(std::span<const std::uint8_t>(data));
                std::copy(dg.begin(), dg.end(), id.begin());
                n.store_chunk(id, std::move(data), std::chrono::seconds(900));
                model.insert(hz::hex(dg.data(), dg.size()));
            }
        });
        if (ok) ctx.boundary("response_header_over_16k"); else ctx.probe("bulk_store_failed");
    }
    // short-lived chunks: placed straight into the daemon's node; the model knows their exact deadline
    std::map<std::string, std::int64_t> deadline;   // only for chunks that can expire during the run
    std::vector<std::string> short_ids;
    if (const auto sl = p.knob("short_lived", 0); sl > 0) {
        d.with_node([&](en::Node& n) {
            for (std::int64_t k = 0; k < sl; ++k) {
                const auto pl = make_payload(48, 920000 + static_cast<std::uint64_t>(k));
                en::ChunkData data(pl.begin(), pl.end());
                en::ChunkId id{};
                const auto dg = en::crypto::Sha256::digest(std::span<const std::uint8_t>(data));
                std::copy(dg.begin(), dg.end(), id.begin());
                const auto m = n.store_chunk(id, std::move(data), std::chrono::seconds(7 + 4 * k));
                const std::string hexid = hz::hex(dg.data(), dg.size());
                deadline[hexid] = wall_to_sim(m.expires_at);
                short_ids.push_back(hexid);
            }
        });
    }
    // at instant t: which chunks must be listed (live throughout the request) and which may be (live when it started)
    std::int64_t t_req0 = 0;
    auto must_show = [&](std::int64_t t_end) { std::set<std::string> v = model; for (auto& [id, dl] : deadline) if (dl > t_end + 5 * kMs) v.insert(id); return v; };
    auto may_show = [&](std::int64_t t_start) { std::set<std::string> v = model; for (auto& [id, dl] : deadline) if (dl > t_start - 5 * kMs) v.insert(id); return v; };
    if (model.size() >= 2) ctx.boundary("multi_line_value");
    const std::vector<std::string> cli_base{"eph", "--control-port", std::to_string(d.control_port)};

    auto nothing_lost = [&](const std::string& command, const en::daemon::ControlResponse& parsed) {
        // ground truth = what went over the wire, read by an independent raw exchange of the same command
        CtlReply raw;
        client.call([&] { raw = ctl_exchange("127.0.0.1", d.control_port, ctl_headers({{"COMMAND", command}}), {}); });
        if (!raw.got_status) { ctx.probe("raw_exchange_failed"); return; }
        std::string dump;
        for (auto& [k, v] : parsed.fields) dump += k + ":" + v + "\n";
        const std::size_t head_end = raw.raw.find("\n\n");
        std::istringstream lines(raw.raw.substr(0, head_end == std::string::npos ? raw.raw.size() : head_end));
        std::string line;
        while (std::getline(lines, line)) {
            if (line.empty() || line.rfind("STATUS:", 0) == 0 || line.rfind("PAYLOAD-LENGTH:", 0) == 0) continue;
            // volatile values (remaining TTL seconds) may differ between the two exchanges: compare up to the last comma for entries
            std::istringstream pieces(unescape(line));
            std::string piece;
            while (std::getline(pieces, piece)) {
                while (!piece.empty() && (piece.front() == ' ' || piece.front() == '\t')) piece.erase(piece.begin());  // framing of continuation lines is not content
                if (piece.empty()) continue;
                std::string needle = piece;
                const std::size_t colon = needle.find(':');
                if (colon != std::string::npos && colon < 40 && needle.find("ENTRIES") == 0) needle = needle.substr(colon + 1);
                if (needle.size() > 70 && needle.find(',') != std::string::npos) needle = needle.substr(0, needle.rfind(','));  // drop the ttl column of a chunk entry
                if (needle.empty()) continue;
                // a short-lived chunk may expire between the parsed exchange and this independent one: its entry and the count are volatile
                if (!deadline.empty() && (needle.rfind("COUNT:", 0) == 0 || needle.rfind("CHUNKS:", 0) == 0)) continue;
                { bool volatile_entry = false; for (auto& [id, dl] : deadline) if (needle.find(id) != std::string::npos) volatile_entry = true; if (volatile_entry) continue; }
                if (dump.find(needle) == std::string::npos)
                    ctx.violate("C29.field_content_lost." + command, fmt("%s: the daemon sent '%s' but it is in no field the control client parsed", command.c_str(), needle.substr(0, 90).c_str()));
            }
        }
    };

    for (auto& op : p.ops) {
        ++ctx.ops_done;
        if (!sk::alive(d.pid)) { ctx.violate("C29.daemon_died", "the daemon process ended: " + sk::info(d.pid).exit_detail); break; }
        if (op.k == "wait_near_deadline") {
            if (short_ids.empty()) continue;
            const std::int64_t target = deadline[short_ids[static_cast<std::size_t>(op.at(0)) % short_ids.size()]] - op.at(1) * kMs;
            if (target > sk::now_ns()) { sk::sleep_ns(target - sk::now_ns()); ctx.boundary("listing_in_a_chunks_last_two_seconds"); }
            continue;
        }
        t_req0 = sk::now_ns();
        if (op.k == "cli_list") {
            auto args = cli_base; args.push_back("list");
            const CliRun run = run_eph(d.host, args);
            if (!run.finished) { ctx.violate("C29.cli_hung", "`eph list` did not finish"); continue; }
            ctx.probe("cli_list_runs");
            std::set<std::string> shown;
            std::istringstream lines(run.out);
            std::string line;
            long reported = -1;
            while (std::getline(lines, line)) {
                if (line.rfind("Local chunks:", 0) == 0) reported = atol(line.c_str() + 13);
                const std::size_t id = line.find("ID=");
                if (id != std::string::npos) shown.insert(line.substr(id + 3, 64));
            }
            const auto must = must_show(sk::now_ns()), may = may_show(t_req0);
            if (reported < static_cast<long>(must.size()) || reported > static_cast<long>(may.size()))
                ctx.violate("C29.list_count", fmt("`eph list` reports %ld local chunks; the daemon holds %zu (%zu that were live when the request started)", reported, must.size(), may.size()));
            for (auto& m : must) if (!shown.count(m)) { ctx.violate("C29.list_missing_chunk", fmt("`eph list` shows %zu of %zu live chunks (missing %s...%s)", shown.size(), must.size(), m.substr(0, 12).c_str(), deadline.count(m) ? fmt(", which lives for another %.3f s", (deadline[m] - sk::now_ns()) / 1e9).c_str() : "")); break; }
            for (auto& sid : shown) if (!may.count(sid)) ctx.violate("C29.list_spurious_chunk", "`eph list` shows a chunk the daemon does not hold: " + sid.substr(0, 12));
        } else if (op.k == "cli_defaults" || op.k == "cli_status") {
            auto args = cli_base; args.push_back(op.k == "cli_defaults" ? "defaults" : "status");
            const CliRun run = run_eph(d.host, args);
            if (!run.finished) ctx.violate("C29.cli_hung", "`eph " + args.back() + "` did not finish");
            else if (run.exit_code != 0) ctx.probe("cli_nonzero_exit");
        } else {
            const std::string command = op.k == "client_list" ? "LIST" : op.k == "client_defaults" ? "DEFAULTS" : op.k == "client_status" ? "STATUS" : "METRICS";
            std::optional<en::daemon::ControlResponse> resp;
            client.call([&] { en::daemon::ControlClient cc("127.0.0.1", d.control_port); resp = cc.send(command); });
            if (!resp) { ctx.violate("C29.client_no_response", command + ": ControlClient got no response"); continue; }
            ctx.probe("client_" + command);
            if (command == "LIST") {
                const auto cnt = resp->fields.count("COUNT") ? resp->fields.at("COUNT") : "?";
                const auto must = must_show(sk::now_ns()), may = may_show(t_req0);
                const long cnt_n = cnt == "?" ? -1 : atol(cnt.c_str());
                if (cnt_n < static_cast<long>(must.size()) || cnt_n > static_cast<long>(may.size())) ctx.violate("C29.client_list_count", "ControlClient LIST: COUNT=" + cnt + ", daemon holds " + std::to_string(must.size()) + " live chunks");
                std::size_t entries = 0;
                std::set<std::string> listed;
                if (resp->fields.count("ENTRIES")) { std::istringstream es(resp->fields.at("ENTRIES")); std::string e; while (std::getline(es, e)) if (!e.empty()) { ++entries; listed.insert(e.substr(0, 64)); if (!may.count(e.substr(0, 64))) ctx.violate("C29.client_list_spurious", "ControlClient LIST: ENTRIES names a chunk the daemon does not hold: " + e.substr(0, 12)); } }
                if (entries < must.size() || entries > may.size()) ctx.violate("C29.client_list_entries", fmt("ControlClient LIST: ENTRIES holds %zu entries, daemon holds %zu live chunks", entries, must.size()));
                for (auto& m : must) if (!listed.count(m)) { ctx.violate("C29.client_list_missing_chunk", fmt("ControlClient LIST omits live chunk %s...%s", m.substr(0, 12).c_str(), deadline.count(m) ? fmt(", which lives for another %.3f s", (deadline[m] - sk::now_ns()) / 1e9).c_str() : "")); break; }
            }
            if (command == "METRICS") {
                CtlReply raw;
                client.call([&] { raw = ctl_exchange("127.0.0.1", d.control_port, ctl_headers({{"COMMAND", "METRICS"}}), {}); });
                if (!resp->has_payload || resp->payload.empty()) ctx.violate("C29.payload_lost", "ControlClient METRICS: no payload");
                else if (raw.payload_complete && resp->payload.size() < raw.payload.size() / 2) ctx.violate("C29.payload_truncated", "ControlClient METRICS payload much shorter than what the daemon sends");
            } else {
                nothing_lost(command, *resp);
            }
            for (auto& [k, v] : resp->fields) {
                if (v.find('\n') != std::string::npos && v.find('\n') + 1 < v.size()) ctx.probe("multi_line_" + k);
                bool upper = !k.empty();
                for (char ch : k) if (!(std::isupper(static_cast<unsigned char>(ch)) || ch == '_' || ch == '-' || std::isdigit(static_cast<unsigned char>(ch)))) upper = false;
                if (!upper) ctx.violate("C29.spurious_key." + command, "ControlClient " + command + ": parsed a key the daemon never sends: '" + k.substr(0, 60) + "'");
            }
        }
        ctx.state(model.size() * 16 + static_cast<std::size_t>(p.knob("advertise")));
    }
    client.shutdown();
    d.stop();
}

Scenario make_c29() {
    Scenario s;
    s.id = "C29"; s.world = "W4"; s.level = "exploration";
    s.technique = "deterministic simulation: the real `eph serve` main with 0..6 chunks and several bootstrap/advertise entries; the real `eph list|defaults|status` mains and the real ControlClient read its responses over simulated TCP with short reads; `eph list` output and ControlClient fields are compared with the daemon's state and with an independent raw read of the same response";
    s.real_components = {"src/main.cpp serve + list/defaults/status paths (real main())", "ControlServer (send_response, handle_list/defaults/status/metrics)", "ControlClient (parse_response)"};
    s.stub_components = {"OS: threads -> fibers, sockets -> simulated TCP, clock, entropy; std::cout of each simulated process captured separately"};
    s.assumptions = {"ground truth for multi-line values is the daemon's state (stored chunk ids) and the raw bytes it put on the wire"};
    s.rule = "plan = 0..6 stored chunks (+ optionally hundreds placed directly, + 0..2 short-lived ones), advertise configuration, network knobs + 2..6 reads (eph list/defaults/status, ControlClient LIST/DEFAULTS/STATUS/METRICS), some of them 60..1800 ms before a short-lived chunk's deadline; a chunk that is live throughout a listing must be listed, one that was live when it started may be; non-trivial = at least two chunks (a multi-line value) or a listing inside a chunk's last two seconds; distinct = plan hash";
    s.gen = gen_c29; s.exec = exec_c29; s.kernel_knobs = w4_knobs;
    s.quick_runs = 1200; s.thorough_runs = 60000; s.quick_secs = 55; s.thorough_secs = 900;
    return s;
}
Registrar reg_c29(make_c29);

}  // namespace
