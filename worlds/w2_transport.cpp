// W2 — C14: transport sessions deliver exactly what was sent, within the size limit.
// Two real Nodes (real SessionManager: accept thread, reader threads, handshake) on the simulated
// TCP with seeded buffer sizes, latencies and schedules; several fibers of one node send to the
// same peer concurrently, as the daemon's tick thread and reader threads do.
#include "worlds/net_common.hpp"

using namespace wl;

namespace {

const en::PeerId kA = make_id(0xA1, 0x11);
const en::PeerId kB = make_id(0xB2, 0x22);

struct Sent { int sender; int seq; std::size_t size; int dir; bool accepted; std::int64_t took_ns = 0; };

std::vector<std::uint8_t> tagged_payload(int dir, int sender, int seq, std::size_t size) {
    const std::uint64_t tag = (static_cast<std::uint64_t>(dir) << 40) | (static_cast<std::uint64_t>(sender) << 24) | static_cast<std::uint64_t>(seq);
    auto p = make_payload(size, tag + 0x5151000000000000ULL);
    return p;
}

const std::vector<std::int64_t> kSizes = {0, 1, 63, 64, 65, 4095, 65536, (1 << 20) - 1, 1 << 20};

Plan gen_c14(sk::Rng& r, Tier tier) {
    Plan p;
    const bool tiny = r.chance(1, 2);
    p.knobs["buf_min"] = tiny ? r.pick<std::int64_t>({1, 7, 64}) : 4096;
    p.knobs["buf_max"] = tiny ? r.pick<std::int64_t>({64, 1024, 4096}) : 262144;
    p.knobs["lat_max_us"] = r.pick<std::int64_t>({0, 100, 2000, 40000});
    p.knobs["preempt"] = r.pick<std::int64_t>({64, 256, 512});
    p.knobs["short_io"] = r.pick<std::int64_t>({0, 128, 512});
    p.knobs["tick_ms"] = r.pick<std::int64_t>({200, 1000});
    p.knobs["deschedule"] = r.pick<std::int64_t>({0, 0, 40, 300});   // long preemptions of arbitrary threads (senders, readers, tick)
    const bool faulty = r.chance(1, 3);
    p.knobs["faulty"] = faulty;
    // in a quarter of the runs the session key rotates (5 s interval) between bursts: both ends tick at one quiet instant (ticks are
    // otherwise off in these runs, so no frame is in flight across a switch: what two ends do around their own tick is C39's subject)
    const bool rotating = r.chance(1, 4);
    p.knobs["rotation"] = rotating ? 5 : 3600;
    const int n = static_cast<int>(r.range(2, tier == Tier::Quick ? 6 : 10));
    for (int i = 0; i < n; ++i) {
        Op op;
        const auto c = r.below(100);
        if (c < 70) {
            // burst: direction, concurrent senders, messages each, size class
            std::int64_t size = r.pick(kSizes);
            if (tiny && size > 4095) size = r.pick<std::int64_t>({0, 1, 63, 64, 65, 300, 4095});
            if (size >= 65536 && !r.chance(1, 3)) size = r.range(0, 2000);
            op.k = "burst"; op.a = {static_cast<std::int64_t>(r.below(2)), r.range(1, 3), r.range(1, size >= 65536 ? 2 : 5), size};
        } else if (rotating && c < 84) { op.k = "rotate"; op.a = {r.range(1, 2)}; }
        else if (c < 80) { op.k = "oversend"; op.a = {static_cast<std::int64_t>(r.below(2))}; }
        else if (c < 88) { op.k = "raw_oversize"; op.a = {r.pick<std::int64_t>({(1 << 20) + 1, 1 << 24, 0x7fffffff, 0xffffffffLL}), r.pick<std::int64_t>({0, 1, 100})}; }
        // the receiving application stops reading for a while (its handler is busy): buffers fill up, senders block for seconds
        else if (c < 93) { op.k = "stall"; op.a = {static_cast<std::int64_t>(r.below(2)), r.pick<std::int64_t>({800, 2000, 3500, 4500, 6000, 12000})}; }
        else if (faulty) { op.k = "reset"; op.a = {static_cast<std::int64_t>(r.below(2))}; }
        else { op.k = "pause"; op.a = {r.range(1, 500)}; }
        p.ops.push_back(op);
    }
    return p;
}

sk::Knobs knobs_c14(const Plan& p) {
    sk::Knobs k;
    k.sock_buf_min = static_cast<std::uint32_t>(p.knob("buf_min", 4096));
    k.sock_buf_max = static_cast<std::uint32_t>(p.knob("buf_max", 262144));
    k.lat_max_ns = p.knob("lat_max_us", 2000) * 1000;
    k.preempt_per_1024 = static_cast<std::uint32_t>(p.knob("preempt", 256));
    k.short_io_per_1024 = static_cast<std::uint32_t>(p.knob("short_io", 128));
    k.deschedule_per_65536 = static_cast<std::uint32_t>(p.knob("deschedule", 0));
    k.max_steps = 6'000'000;
    return k;
}

void exec_c14(const Plan& p, Ctx& ctx) {
    NodeProc A, B;
    en::Config ca = base_config(101), cb = base_config(202);
    ca.cleanup_interval = cb.cleanup_interval = seconds(3600);
    const bool rotating = p.knob("rotation", 3600) < 3600;
    ca.key_rotation_interval = cb.key_rotation_interval = seconds(p.knob("rotation", 3600));  // what the two ends do around their own ticks is C39's subject
    A.start("nodeA", sk::ip(10, 0, 1, 1), kA, ca, p.knob("tick_ms", 1000) * kMs, 100 * kMs);
    B.start("nodeB", sk::ip(10, 0, 1, 2), kB, cb, p.knob("tick_ms", 1000) * kMs, 350 * kMs);
    sk::tap_enable(true);
    if (!link_nodes(A, B)) { ctx.violate("C14.setup_failed", "two honest nodes could not establish a session"); A.stop(); B.stop(); return; }
    // wait until both ends see the session
    bool both = false;
    for (int i = 0; i < 200 && !both; ++i) {
        bool a = false, b = false;
        A.run([&](en::Node& n) { a = n.sessions_.is_connected(kB); });
        B.run([&](en::Node& n) { b = n.sessions_.is_connected(kA); });
        both = a && b;
        if (!both) sk::sleep_ns(10 * kMs);
    }
    if (!both) { ctx.violate("C14.setup_failed", "session not visible on both ends after 2 s"); A.stop(); B.stop(); return; }

    std::vector<Sent> sent;
    int seq[2][4] = {{0}};
    bool reset_injected = false;
    if (rotating) A.actor.tick_enabled = B.actor.tick_enabled = false;
    auto settle = [&] {  // nothing armed, nothing stalling, nothing in flight
        A.stall_next_message_ns = B.stall_next_message_ns = 0;
        sk::wait_until([&] { return A.stalls_in_progress == 0 && B.stalls_in_progress == 0; }, 120 * kSec);
        std::size_t la = A.inbox.size() + 1, lb = B.inbox.size() + 1;
        for (int i = 0; i < 60 && (la != A.inbox.size() || lb != B.inbox.size()); ++i) { la = A.inbox.size(); lb = B.inbox.size(); sk::sleep_ns(500 * kMs + p.knob("lat_max_us", 2000) * 4000); }
    };

    for (auto& op : p.ops) {
        ++ctx.ops_done;
        if (op.k == "burst") {
            const int dir = static_cast<int>(op.at(0)), senders = static_cast<int>(op.at(1)), count = static_cast<int>(op.at(2));
            const std::size_t size = static_cast<std::size_t>(op.at(3));
            NodeProc& from = dir == 0 ? A : B;
            const en::PeerId to = dir == 0 ? kB : kA;
            if (senders > 1) ctx.boundary("concurrent_senders");
            if (size >= (1u << 20) - 1) ctx.boundary("payload_at_size_limit");
            // shared state lives on the heap: a sender that is still blocked when the burst is abandoned
            // must not touch a dead stack frame
            struct Res { int q; bool ok; std::int64_t took; };
            struct Burst { std::vector<std::vector<Res>> results; int finished = 0; };
            auto burst = std::make_shared<Burst>();
            burst->results.resize(static_cast<std::size_t>(senders));
            en::Node* node = from.node.get();
            int (*seqp)[4] = seq;
            // no timing oracle: the bound only has to exceed the slowest legal transfer (every byte may
            // need its own segment through a 1-byte buffer at maximum latency)
            const std::int64_t budget = 600 * kSec + static_cast<std::int64_t>(senders) * count * static_cast<std::int64_t>(size + 64) * (p.knob("lat_max_us", 2000) * 1000 + kMs) * 2;
            const bool completed = from.actor.call([=] {
                for (int s = 0; s < senders; ++s) {
                    sk::go("sender" + std::to_string(s), [=] {
                        for (int i = 0; i < count; ++i) {
                            const int q = seqp[dir][s]++;
                            const auto payload = tagged_payload(dir, s, q, size);
                            const std::int64_t t0 = sk::now_ns();
                            const bool ok = node->send_secure(to, payload);
                            burst->results[static_cast<std::size_t>(s)].push_back({q, ok, sk::now_ns() - t0});
                        }
                        ++burst->finished;
                    });
                }
                sk::wait_until([=] { return burst->finished == senders; }, budget);
            }, budget + 300 * kSec);
            if (!from.actor.alive()) {
                ctx.violate("C14.node_process_died", "the sending node's process died during a burst: " + sk::info(from.actor.pid).exit_detail);
                break;
            }
            if (!completed || burst->finished != senders) {
                ctx.violate("C14.send_stuck", fmt("a sender fiber (dir %d, %zu-byte payloads) did not finish within %.0f simulated seconds (worst-case transfer bound)", dir, size, budget / 1e9));
                for (int s = 0; s < senders; ++s)
                    for (auto& r : burst->results[static_cast<std::size_t>(s)]) sent.push_back({s, r.q, size, dir, r.ok, r.took});
                break;  // the run cannot continue meaningfully
            }
            for (int s = 0; s < senders; ++s)
                for (auto& r : burst->results[static_cast<std::size_t>(s)]) sent.push_back({s, r.q, size, dir, r.ok, r.took});
        } else if (op.k == "oversend") {
            const int dir = static_cast<int>(op.at(0));
            NodeProc& from = dir == 0 ? A : B;
            const en::PeerId to = dir == 0 ? kB : kA;
            const std::size_t before = sk::tap().size();
            bool ok = true;
            std::vector<std::uint8_t> big((1u << 20) + 1, 0x42);
            from.run([&](en::Node& n) { ok = n.send_secure(to, big); });
            ctx.boundary("send_above_limit");
            if (ok) ctx.violate("C14.oversized_send_accepted", "send of 1 MiB + 1 bytes returned true");
            std::size_t wire = 0;
            for (std::size_t i = before; i < sk::tap().size(); ++i) if (sk::tap()[i].from_pid == from.actor.pid) wire += sk::tap()[i].bytes.size();
            if (wire > 4096) ctx.violate("C14.oversized_send_on_wire", fmt("%zu bytes hit the wire for a rejected oversized send", wire));
        } else if (op.k == "raw_oversize") {
            // a scripted peer with a valid session announces a frame longer than 1 MiB
            Actor peer;
            peer.start("rawpeer", sk::ip(10, 0, 2, 9));
            const PeerIdentity me = PeerIdentity::make(0x77, 123457);
            bool closed = false, shook = false;
            std::uint32_t bpub = 0;
            B.run([&](en::Node& n) { bpub = n.public_identity(); });
            peer.call([&] {
                PeerConn c;
                shook = scripted_handshake(c, me, kB, bpub, 0, ip_text(B.actor.host), B.port);
                if (!shook) return;
                std::uint8_t hdr[16] = {0};
                const std::uint32_t len = static_cast<std::uint32_t>(op.at(0));
                hdr[12] = len >> 24; hdr[13] = len >> 16; hdr[14] = len >> 8; hdr[15] = len;
                c.send_all(hdr, 16);
                std::vector<std::uint8_t> extra(static_cast<std::size_t>(op.at(1)), 0x99);
                if (!extra.empty()) c.send_all(extra.data(), extra.size());
                auto state = c.rx;
                sk::wait_until([state] { return state->closed; }, 10 * kSec);
                closed = state->closed;
                c.close_now();
            }, 60 * kSec);
            peer.shutdown();
            ctx.boundary("oversized_length_prefix");
            if (shook && !closed) ctx.violate("C14.oversized_frame_not_refused", fmt("a frame announcing %lld bytes did not end the session within 10 s", (long long)op.at(0)));
            bool still = true;
            B.run([&](en::Node& n) { still = n.sessions_.is_connected(me.id); });
            if (shook && still) {
                sk::sleep_ns(200 * kMs);
                B.run([&](en::Node& n) { still = n.sessions_.is_connected(me.id); });
                if (still) ctx.violate("C14.oversized_frame_session_kept", "session still registered after an oversized length prefix");
            }
        } else if (op.k == "reset") {
            if (sk::fault_reset_stream(op.at(0) == 0 ? A.actor.pid : B.actor.pid, 0)) { reset_injected = true; ctx.fault("conn_reset_injected"); }
        } else if (op.k == "rotate") {
            if (!rotating) continue;
            // both ends pass op.at(0) rotation boundaries at one quiet instant: everything sent so far has been delivered, then both tick
            settle();
            sk::sleep_ns(op.at(0) * 5 * kSec + 100 * kMs);
            std::optional<std::array<std::uint8_t, 32>> ka0, ka1, kb1;
            A.run([&](en::Node& n) { ka0 = n.session_key(kB); n.tick(); ka1 = n.session_key(kB); });
            B.run([&](en::Node& n) { n.tick(); kb1 = n.session_key(kA); });
            // the two ends count their periods from instants a little apart (each from the moment it accepted the handshake): right after one
            // end's boundary the other may still be in the previous period. Let both tick again until they agree; nothing is sent meanwhile.
            for (int i = 0; i < 8 && ka1 && kb1 && *ka1 != *kb1; ++i) {
                ctx.probe("rotate_waited_for_the_other_end");
                sk::sleep_ns(700 * kMs);
                A.run([&](en::Node& n) { n.tick(); ka1 = n.session_key(kB); });
                B.run([&](en::Node& n) { n.tick(); kb1 = n.session_key(kA); });
            }
            if (ka0 && ka1 && kb1 && *ka0 != *ka1 && *ka1 == *kb1) ctx.boundary("session_key_rotated_between_bursts");
            else if (ka1 && kb1 && *ka1 != *kb1) { ctx.probe("rotate_left_the_ends_on_different_keys_not_judged"); reset_injected = true; }  // C39's subject; delivery is not judged from here on
            else ctx.probe("rotate_without_effect");
        } else if (op.k == "pause") {
            sk::sleep_ns(op.at(0) * kMs);
        } else if (op.k == "stall") {
            (op.at(0) == 0 ? A : B).stall_next_message_ns = op.at(1) * kMs;
            ctx.boundary("receiver_stalled");
        }
    }
    // quiesce: no further stalls are armed; a handler that is stalling right now finishes first; then let everything in flight arrive
    A.stall_next_message_ns = B.stall_next_message_ns = 0;
    sk::wait_until([&] { return A.stalls_in_progress == 0 && B.stalls_in_progress == 0; }, 120 * kSec);
    sk::sleep_ns(5 * kSec);
    std::size_t last_a = 0, last_b = 0;
    for (int i = 0; i < 100; ++i) {
        sk::sleep_ns(500 * kMs);
        if (A.inbox.size() == last_a && B.inbox.size() == last_b && i > 2) break;
        last_a = A.inbox.size(); last_b = B.inbox.size();
    }

    // ---- oracle over the recorded history
    // A sender does not wait for ever for a peer that has stopped draining its socket: a send that was refused after it had been
    // blocked for about the stall timeout (5 s) ends the session, like a reset does; what was in flight then may be lost and
    // later sends are refused. A refusal that comes sooner on a session nobody disturbed is still a violation.
    bool gave_up = false;
    for (auto& s : sent) if (!s.accepted && s.took_ns >= 4900 * kMs) gave_up = true;
    if (gave_up) ctx.boundary("sender_gave_up_on_a_peer_that_does_not_drain");
    for (int dir = 0; dir < 2; ++dir) {
        const auto& inbox = dir == 0 ? B.inbox : A.inbox;
        const en::PeerId from = dir == 0 ? kA : kB;
        std::map<std::pair<int, int>, int> seen;      // (sender, seq) -> deliveries
        std::map<int, int> last_seq;
        for (auto& m : inbox) {
            if (m.peer_id != from) continue;           // traffic of the scripted raw peer
            // identify by tag
            bool matched = false;
            for (auto& s : sent) {
                if (s.dir != dir || s.size != m.payload.size()) continue;
                if (m.payload == tagged_payload(dir, s.sender, s.seq, s.size)) {
                    if (m.payload.size() < 8) {
                        // tiny payloads carry no tag: count them against any not yet fully delivered send of that size
                        auto& cnt = seen[{s.sender, s.seq}];
                        if (cnt >= 1) continue;
                    }
                    matched = true;
                    if (++seen[{s.sender, s.seq}] > 1 && m.payload.size() >= 8)
                        ctx.violate("C14.delivered_twice", fmt("payload (dir %d sender %d seq %d, %zu bytes) delivered more than once", dir, s.sender, s.seq, s.size));
                    if (m.payload.size() >= 8) {
                        auto it = last_seq.find(s.sender);
                        if (it != last_seq.end() && s.seq < it->second)
                            ctx.violate("C14.out_of_order", fmt("dir %d sender %d: seq %d delivered after seq %d", dir, s.sender, s.seq, it->second));
                        last_seq[s.sender] = std::max(last_seq[s.sender], s.seq);
                    }
                    break;
                }
            }
            if (!matched)
                ctx.violate("C14.corrupt_delivery", fmt("handler of %s received %zu bytes that match no payload sent to it (partial, mixed or altered frame)", dir == 0 ? "B" : "A", m.payload.size()));
        }
        if (!reset_injected && !gave_up) {
            for (auto& s : sent) {
                if (s.dir != dir) continue;
                if (!s.accepted) { ctx.violate("C14.send_refused", fmt("send of %zu bytes (dir %d) returned false on a healthy session", s.size, dir)); continue; }
                if (!seen.count({s.sender, s.seq}))
                    ctx.violate("C14.not_delivered", fmt("payload (dir %d sender %d seq %d, %zu bytes) was accepted by send but never delivered", dir, s.sender, s.seq, s.size));
            }
        }
    }
    // wire: no plaintext, no nonce reuse
    {
        std::map<std::pair<int, int>, std::vector<std::uint8_t>> streams;
        for (auto& t : sk::tap()) { auto& v = streams[{t.from_port, t.to_port}]; v.insert(v.end(), t.bytes.begin(), t.bytes.end()); }
        for (auto& s : sent) {
            if (s.size < 32) continue;
            const auto pl = tagged_payload(s.dir, s.sender, s.seq, s.size);
            for (auto& [k, v] : streams) {
                if (v.size() < 32) continue;
                if (std::search(v.begin(), v.end(), pl.begin(), pl.begin() + 32) != v.end()) { ctx.violate("C14.plaintext_on_wire", "a payload prefix appears unencrypted on the wire"); break; }
            }
        }
        if (!reset_injected) {
            // the A->B connector stream: 32 id + (4+len) handshake, then frames; nonces must be unique
            for (auto& kv : streams) {
                const auto& v = kv.second;
                std::size_t pos = 0;
                std::set<std::string> nonces;
                // detect direction by trying both layouts: connector streams start with an identity + handshake
                auto parse = [&](std::size_t start) {
                    std::size_t q = start;
                    std::set<std::string> ns;
                    while (q + 16 <= v.size()) {
                        const std::uint32_t len = (std::uint32_t(v[q + 12]) << 24) | (std::uint32_t(v[q + 13]) << 16) | (std::uint32_t(v[q + 14]) << 8) | v[q + 15];
                        if (len > (1u << 20) || q + 16 + len > v.size()) return false;
                        if (!ns.insert(std::string(v.begin() + static_cast<long>(q), v.begin() + static_cast<long>(q) + 12)).second) { nonces.clear(); nonces.insert("dup"); return true; }
                        q += 16 + len;
                    }
                    if (q != v.size()) return false;
                    nonces = ns;
                    return true;
                };
                bool ok = parse(0);
                if (!ok && v.size() > 36) {
                    const std::uint32_t hl = (std::uint32_t(v[32]) << 24) | (std::uint32_t(v[33]) << 16) | (std::uint32_t(v[34]) << 8) | v[35];
                    if (hl < 4096) ok = parse(36 + hl);
                }
                (void)pos;
                if (ok && nonces.count("dup")) ctx.violate("C14.nonce_reuse", "two frames of one session carry the same nonce");
                if (ok) ctx.probe("wire_streams_parsed");
            }
        }
    }
    ctx.state(sent.size() * 131 + A.inbox.size() * 17 + B.inbox.size());
    A.stop();
    B.stop();
}

Scenario make_c14() {
    Scenario s;
    s.id = "C14"; s.world = "W2"; s.level = "exploration";
    s.technique = "deterministic simulation: two real Nodes with real SessionManagers (accept/reader threads as fibers) over simulated TCP with seeded buffer sizes, latencies, short I/O and schedules; concurrent sender fibers; history oracle over the receiving handlers and the wire tap";
    s.real_components = {"Node", "SessionManager (connect, accept_loop, receive_loop, send, handshake, teardown)", "KeyManager", "ChaCha20", "Message codec"};
    s.stub_components = {"OS: threads -> fibers, sockets -> simulated TCP, clock, entropy", "peers learn each other's public identity out of band (as the repository's tests do)"};
    s.assumptions = {"a blocking send() may be interleaved with another thread's send() on the same socket only while it waits for buffer space (Linux releases the socket lock there)",
                     "after an injected connection reset delivery is only required to be at-most-once and never partial"};
    s.rule = "plan = socket buffer range (1 B..256 KiB), latency, preemption and short-I/O rates + 2..10 ops (bursts of 1..3 concurrent senders x 1..5 payloads of sizes {0,1,63,64,65,4095,64Ki,1Mi-1,1Mi}, sends above the limit, scripted peer announcing an oversized frame, connection reset, a receiver whose handler stalls for 0.8..30 s so that senders block on full buffers, pause); non-trivial = concurrent senders, a payload at the size limit, an oversized frame/send, or an injected reset; distinct = plan hash";
    s.gen = gen_c14; s.exec = exec_c14; s.kernel_knobs = knobs_c14;
    s.quick_runs = 1500; s.thorough_runs = 60000; s.quick_secs = 60; s.thorough_secs = 900;
    return s;
}
Registrar reg_c14(make_c14);

}  // namespace
