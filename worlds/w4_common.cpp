#include "worlds/w4_common.hpp"

#include <iostream>
#include <map>
#include <streambuf>

namespace wl {

namespace {

std::map<int, std::string> g_out, g_err;

class ProcBuf : public std::streambuf {
public:
    explicit ProcBuf(bool err) : err_(err) {}
protected:
    int_type overflow(int_type ch) override {
        if (ch != traits_type::eof() && sk::in_sim()) {
            sk::Quiet quiet;  // the capture stands in for the process's stdio, which serialises writers itself
            (err_ ? g_err : g_out)[sk::current_pid()].push_back(static_cast<char>(ch));
        }
        return ch;
    }
    std::streamsize xsputn(const char* s, std::streamsize n) override {
        if (sk::in_sim()) {
            sk::Quiet quiet;
            auto& dst = (err_ ? g_err : g_out)[sk::current_pid()];
            if (dst.size() < (8u << 20)) dst.append(s, static_cast<std::size_t>(n));
        }
        return n;
    }
private:
    bool err_;
};

ProcBuf g_buf_out(false), g_buf_err(true);

struct Installer {
    Installer() {
        std::cout.rdbuf(&g_buf_out);
        std::cerr.rdbuf(&g_buf_err);
        std::clog.rdbuf(&g_buf_err);
    }
} g_installer;

}  // namespace

std::string& proc_stdout(int pid) { return g_out[pid]; }
std::string& proc_stderr(int pid) { return g_err[pid]; }
void capture_reset() { g_out.clear(); g_err.clear(); }

std::string ctl_headers(const std::vector<std::pair<std::string, std::string>>& fields) {
    std::string s;
    for (auto& [k, v] : fields) s += k + ":" + v + "\n";
    s += "\n";
    return s;
}

CtlReply ctl_exchange(const std::string& host, std::uint16_t port, const std::string& headers, const std::vector<std::uint8_t>& body,
                      bool withhold_body, std::int64_t timeout_ms, int fragments) {
    CtlReply rep;
    const int fd = ::socket(AF_INET, SOCK_STREAM, 0);
    if (fd < 0) return rep;
    sockaddr_in a{};
    a.sin_family = AF_INET;
    a.sin_port = htons(port);
    inet_pton(AF_INET, host.c_str(), &a.sin_addr);
    if (::connect(fd, reinterpret_cast<sockaddr*>(&a), sizeof a) != 0) { ::close(fd); return rep; }
    rep.connected = true;
    timeval tv{static_cast<time_t>(timeout_ms / 1000), static_cast<suseconds_t>((timeout_ms % 1000) * 1000)};
    ::setsockopt(fd, SOL_SOCKET, SO_RCVTIMEO, &tv, sizeof tv);
    auto send_all = [&](const void* p, std::size_t n) {
        const auto* b = static_cast<const std::uint8_t*>(p);
        std::size_t off = 0;
        const std::size_t piece = std::max<std::size_t>(1, n / static_cast<std::size_t>(std::max(fragments, 1)));
        while (off < n) {
            const std::size_t want = std::min(piece, n - off);
            const ssize_t r = ::send(fd, b + off, want, MSG_NOSIGNAL);
            if (r <= 0) return false;
            off += static_cast<std::size_t>(r);
            if (fragments > 1) sk::sleep_ns(100'000);
        }
        return true;
    };
    bool sent = send_all(headers.data(), headers.size());
    if (sent && !withhold_body && !body.empty()) sent = send_all(body.data(), body.size());
    // read everything until EOF / timeout
    char buf[4096];
    for (;;) {
        const ssize_t r = ::recv(fd, buf, sizeof buf, 0);
        if (r <= 0) break;
        rep.raw.append(buf, static_cast<std::size_t>(r));
        if (rep.raw.size() > (64u << 20)) break;
    }
    ::shutdown(fd, SHUT_RDWR);
    ::close(fd);
    // independent parse: header lines up to the first empty line, then PAYLOAD-LENGTH bytes
    std::size_t pos = 0;
    std::size_t payload_len = 0;
    bool have_len = false;
    while (pos < rep.raw.size()) {
        const std::size_t nl = rep.raw.find('\n', pos);
        if (nl == std::string::npos) { pos = rep.raw.size(); break; }
        std::string line = rep.raw.substr(pos, nl - pos);
        pos = nl + 1;
        if (!line.empty() && line.back() == '\r') line.pop_back();
        if (line.empty()) break;
        const std::size_t c = line.find(':');
        if (c == std::string::npos) { rep.lines.push_back({line, ""}); continue; }
        const std::string k = line.substr(0, c), v = line.substr(c + 1);
        rep.lines.push_back({k, v});
        if (k == "STATUS") { rep.got_status = true; rep.ok = v == "OK"; }
        if (k == "PAYLOAD-LENGTH") { have_len = true; payload_len = static_cast<std::size_t>(strtoull(v.c_str(), nullptr, 10)); }
    }
    if (have_len) {
        const std::size_t avail = rep.raw.size() - pos;
        rep.payload.assign(rep.raw.begin() + static_cast<long>(pos), rep.raw.begin() + static_cast<long>(pos + std::min(avail, payload_len)));
        rep.payload_complete = avail >= payload_len;
    }
    return rep;
}

std::array<std::uint8_t, 32> store_pow_digest(const std::vector<std::uint8_t>& payload, const std::string& name, std::uint64_t nonce) {
    const auto chunk_id = en::crypto::Sha256::digest(std::span<const std::uint8_t>(payload));
    en::crypto::Sha256 h;
    h.update(std::span<const std::uint8_t>(chunk_id));
    std::uint8_t b8[8];
    be64(payload.size(), b8);
    h.update(std::span<const std::uint8_t>(b8, 8));
    const std::uint32_t n = static_cast<std::uint32_t>(name.size());
    const std::uint8_t b4[4] = {static_cast<std::uint8_t>(n >> 24), static_cast<std::uint8_t>(n >> 16), static_cast<std::uint8_t>(n >> 8), static_cast<std::uint8_t>(n)};
    h.update(std::span<const std::uint8_t>(b4, 4));
    if (!name.empty()) h.update(std::span<const std::uint8_t>(reinterpret_cast<const std::uint8_t*>(name.data()), name.size()));
    be64(nonce, b8);
    h.update(std::span<const std::uint8_t>(b8, 8));
    return h.finalize();
}

bool ref_store_pow_ok(const std::vector<std::uint8_t>& payload, const std::string& name, std::uint64_t nonce, int difficulty) {
    if (difficulty <= 0) return true;
    return leading_zero_bits(store_pow_digest(payload, name, nonce)) >= difficulty;
}
std::uint64_t ref_solve_store_pow(const std::vector<std::uint8_t>& payload, const std::string& name, int difficulty, bool valid) {
    if (payload.size() < 4096) { for (std::uint64_t n = 1;; ++n) if (ref_store_pow_ok(payload, name, n, difficulty) == valid) return n; }
    // large payloads: hash the payload once (same digest as store_pow_digest, which stays the single-shot reference)
    const auto chunk_id = en::crypto::Sha256::digest(std::span<const std::uint8_t>(payload));
    for (std::uint64_t nonce = 1;; ++nonce) {
        en::crypto::Sha256 h;
        h.update(std::span<const std::uint8_t>(chunk_id));
        std::uint8_t b8[8];
        be64(payload.size(), b8);
        h.update(std::span<const std::uint8_t>(b8, 8));
        const std::uint32_t n = static_cast<std::uint32_t>(name.size());
        const std::uint8_t b4[4] = {static_cast<std::uint8_t>(n >> 24), static_cast<std::uint8_t>(n >> 16), static_cast<std::uint8_t>(n >> 8), static_cast<std::uint8_t>(n)};
        h.update(std::span<const std::uint8_t>(b4, 4));
        if (!name.empty()) h.update(std::span<const std::uint8_t>(reinterpret_cast<const std::uint8_t*>(name.data()), name.size()));
        be64(nonce, b8);
        h.update(std::span<const std::uint8_t>(b8, 8));
        const bool ok = difficulty <= 0 || leading_zero_bits(h.finalize()) >= difficulty;
        if (ok == valid) return nonce;
    }
}

CliRun run_eph(std::uint32_t host, const std::vector<std::string>& args, std::int64_t timeout_ns) {
    CliRun r;
    r.pid = sk::spawn("eph-cli", host, [args] { return verif_w4::run_cli(args); }, 64u << 20);
    r.finished = sk::wait_exit(r.pid, timeout_ns);
    const auto info = sk::info(r.pid);
    r.kind = info.exit;
    r.exit_code = info.exit_code;
    r.out = proc_stdout(r.pid);
    r.err = proc_stderr(r.pid);
    if (!r.finished) sk::kill(r.pid);
    return r;
}

sk::Knobs w4_knobs(const Plan& p) {
    sk::Knobs k;
    k.sock_buf_min = static_cast<std::uint32_t>(p.knob("buf_min", 16384));
    k.sock_buf_max = static_cast<std::uint32_t>(p.knob("buf_max", 262144));
    k.lat_max_ns = p.knob("lat_max_us", 1000) * 1000;
    k.preempt_per_1024 = static_cast<std::uint32_t>(p.knob("preempt", 256));
    k.short_io_per_1024 = static_cast<std::uint32_t>(p.knob("short_io", 128));
    k.max_steps = 8'000'000;
    return k;
}
void gen_w4_knobs(Plan& p, sk::Rng& r) {
    p.knobs["buf_min"] = r.pick<std::int64_t>({256, 4096, 65536});
    p.knobs["buf_max"] = r.pick<std::int64_t>({65536, 262144});
    p.knobs["lat_max_us"] = r.pick<std::int64_t>({0, 300, 5000});
    p.knobs["preempt"] = r.pick<std::int64_t>({0, 128, 512});
    p.knobs["short_io"] = r.pick<std::int64_t>({0, 128, 512});
}

}  // namespace wl
