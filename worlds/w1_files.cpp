// W1 + file seam — C04: persisted chunk files do not outlive the chunk.
// A real Node with persistence + wipe-on-expiry writes into the run's scratch directory; the
// simulated file seam observes every mutating call, injects disk errors, and models a process
// crash at the k-th file operation of an operation by freezing the directory (DESIGN §3.6).
#include "worlds/common.hpp"

#include <dirent.h>
#include <errno.h>
#include <sys/stat.h>

#include <algorithm>
#include <fstream>
#include <sstream>

using namespace wl;

namespace {

const en::PeerId kSelf = make_id(0xA1, 0x11);

struct CurChunk { en::ChunkData cipher; std::int64_t deadline; bool persisted; };
struct Orphan { std::int64_t deadline; };

std::string read_file(const std::string& path) {
    std::ifstream in(path, std::ios::binary);
    std::stringstream ss;
    ss << in.rdbuf();
    return ss.str();
}

bool is_chunk_file_name(const std::string& n) {
    if (n.size() < 64) return false;
    for (std::size_t i = 0; i < 64; ++i) if (!std::isxdigit(static_cast<unsigned char>(n[i]))) return false;
    return true;
}
// the name under which the store keeps the chunk that file `n` belongs to
std::string canonical_name(const std::string& n) { return n.substr(0, 64) + ".chunk"; }

std::vector<std::string> list_chunk_files(const std::string& dir) {
    std::vector<std::string> v;
    if (DIR* d = opendir(dir.c_str())) {
        while (dirent* e = readdir(d)) {
            std::string n = e->d_name;
            // every file whose name starts with a chunk id belongs to that chunk, whatever its suffix (staging, backup, ...)
            if (is_chunk_file_name(n)) v.push_back(n);
        }
        closedir(d);
    }
    std::sort(v.begin(), v.end());
    return v;
}

Plan base_plan(sk::Rng& r) {
    Plan p;
    p.knobs["passes"] = r.range(1, 3);
    p.knobs["min_ttl"] = r.pick<std::int64_t>({1, 2, 5});
    p.knobs["max_ttl"] = 600;
    p.knobs["def_ttl"] = r.pick<std::int64_t>({5, 30});
    p.knobs["cleanup"] = r.pick<std::int64_t>({1, 2, 10});
    return p;
}

Plan gen_c04(sk::Rng& r, Tier) {
    Plan p = base_plan(r);
    const bool faulty = r.chance(1, 2);
    p.knobs["faulty"] = faulty;
    const int n = static_cast<int>(r.range(4, 30));
    for (int i = 0; i < n; ++i) {
        Op op;
        const auto c = r.below(100);
        if (c < 26) { op.k = "put"; op.a = {static_cast<std::int64_t>(r.below(3)), r.pick<std::int64_t>({0, 1, 100, 4096, 4097, 9000}), r.pick<std::int64_t>({0, 1, 2, 5, 30}), static_cast<std::int64_t>(r.below(2))}; }
        else if (c < 40) { op.k = "get"; op.a = {static_cast<std::int64_t>(r.below(3)), static_cast<std::int64_t>(r.below(3))}; }
        else if (c < 52) { op.k = "sweep"; }
        else if (c < 60) { op.k = "tick"; }
        else if (c < 72) { op.k = "adv"; op.a = {r.pick<std::int64_t>({10, 999, 1000, 1001, 2500, 10000, 40000})}; }
        else if (c < 82) { op.k = "adv_to"; op.a = {static_cast<std::int64_t>(r.below(3)), r.pick<std::int64_t>({-1, 0, 1, 300})}; }
        else if (c < 88) { op.k = "restart"; }
        else if (faulty && c < 94) { op.k = "crash"; op.a = {static_cast<std::int64_t>(r.below(14))}; }
        else if (faulty) { op.k = "fault"; op.a = {static_cast<std::int64_t>(r.below(10)), static_cast<std::int64_t>(r.below(3)), r.pick<std::int64_t>({0, 1, 100, 4095})}; }
        else { op.k = "sweep"; }
        p.ops.push_back(op);
    }
    return p;
}

// enumerated crash points: for each operation shape and each k, crash at the k-th file call
std::vector<Plan> enum_c04(Tier tier) {
    std::vector<Plan> out;
    const int kmax = tier == Tier::Quick ? 16 : 40;
    for (int passes = 1; passes <= 3; ++passes) {
        for (int shape = 0; shape < 6; ++shape) {
            for (int k = 0; k < kmax; ++k) {
                Plan p;
                p.knobs["passes"] = passes; p.knobs["min_ttl"] = 1; p.knobs["max_ttl"] = 600; p.knobs["def_ttl"] = 5; p.knobs["cleanup"] = 1;
                p.knobs["faulty"] = 1; p.knobs["enumerated"] = 1;
                auto put = [](int id, int size, int ttl, int via) { return Op{"put", {id, size, ttl, via}, ""}; };
                switch (shape) {
                    case 0: p.ops = {Op{"crash", {k}, ""}, put(0, 5000, 2, 0)}; break;                                        // crash inside a fresh put
                    case 1: p.ops = {put(0, 5000, 30, 1), Op{"crash", {k}, ""}, put(0, 300, 2, 1)}; break;                   // crash inside an overwriting put (wipe + rewrite)
                    case 2: p.ops = {put(0, 9000, 2, 0), Op{"adv", {2500}, ""}, Op{"crash", {k}, ""}, Op{"sweep", {}, ""}}; break;   // crash inside the wipe of a sweep
                    case 3: p.ops = {put(0, 100, 1, 1), put(1, 4097, 1, 1), Op{"adv", {1500}, ""}, Op{"crash", {k}, ""}, Op{"tick", {}, ""}}; break;  // crash inside a cleanup tick wiping two files
                    case 4: p.ops = {put(0, 5000, 2, 0), Op{"adv_to", {0, 0}, ""}, Op{"get", {0, 0}, ""}, Op{"crash", {k}, ""}, Op{"sweep", {}, ""}}; break;  // expiry first noticed by a lookup, crash in the sweep
                    default: p.ops = {put(0, 4096, 2, 1), Op{"restart", {}, ""}, Op{"crash", {k}, ""}, put(0, 10, 2, 1)}; break;  // inherited file, crash inside its replacement
                }
                out.push_back(std::move(p));
            }
        }
    }
    return out;
}

void exec_c04(const Plan& p, Ctx& ctx) {
    const std::string dir = sk::scratch_dir() + "/store";
    en::Config c = base_config(41);
    c.storage_persistent_enabled = true;
    c.storage_wipe_on_expiry = true;
    c.storage_wipe_passes = static_cast<std::uint8_t>(p.knob("passes", 1));
    c.storage_directory = dir;
    c.min_manifest_ttl = seconds(p.knob("min_ttl", 1)); c.max_manifest_ttl = seconds(p.knob("max_ttl", 600)); c.default_chunk_ttl = seconds(p.knob("def_ttl", 5));
    c.cleanup_interval = seconds(p.knob("cleanup", 1));
    sk::fs_log_enable(true);
    auto node = std::make_unique<en::Node>(kSelf, c);
    const std::int64_t mn = node->config().min_manifest_ttl.count(), mx = node->config().max_manifest_ttl.count(), df = node->config().default_chunk_ttl.count();
    const int passes = static_cast<int>(p.knob("passes", 1));

    std::map<std::string, CurChunk> cur;     // file name -> chunk of the current instance
    std::map<std::string, Orphan> orphans;   // file name -> deadline of a file left by an earlier instance
    std::set<std::string> removal_faulted;   // files whose unlink itself received an injected error: they may stay
    std::set<std::string> wipe_faulted;      // files whose overwrite received an injected error: they may go without a full wipe, but they must go
    std::size_t log_pos = 0;
    int pending_crash = -1;
    bool pending_fault = false;
    std::uint64_t tag = 1;

    auto fname = [&](int id) { return en::chunk_id_to_string(make_id(static_cast<std::uint8_t>(id + 1))) + ".chunk"; };
    auto base = [](const std::string& path) { const auto s = path.rfind('/'); return s == std::string::npos ? path : path.substr(s + 1); };

    // (d) wipe evidence from the file log: every unlink of a chunk file by this instance must be
    // preceded by >= passes full zero overwrites of the file since its last data write
    std::map<std::string, std::int64_t> data_size, zero_bytes;
    auto digest_log = [&](bool frozen) {
        auto& log = sk::fs_log();
        for (; log_pos < log.size(); ++log_pos) {
            const auto& e = log[log_pos];
            const std::string f = base(e.path);
            if (!is_chunk_file_name(f)) continue;
            if (e.result != 0) {
                if (!frozen && e.kind == "unlink") { removal_faulted.insert(f); ctx.fault("disk_error_on_unlink"); }
                else if (!frozen && e.kind == "write" && e.all_zero) { wipe_faulted.insert(f); ctx.fault("disk_error_on_wipe_overwrite"); }
                else if (!frozen) ctx.fault("disk_error_on_data_path");
                continue;
            }
            if (e.kind == "open_w") { data_size[f] = 0; zero_bytes[f] = 0; wipe_faulted.erase(f); }
            else if (e.kind == "write") {
                if (e.len <= 0) continue;
                if (e.all_zero) zero_bytes[f] += e.len;
                else { data_size[f] = std::max<std::int64_t>(data_size[f], e.off + e.len); zero_bytes[f] = 0; }
            } else if (e.kind == "unlink") {
                const std::int64_t need = data_size[f] * passes;
                if (!frozen && !removal_faulted.count(f) && !wipe_faulted.count(f) && data_size.count(f) && zero_bytes[f] < need)
                    ctx.violate("C04.removed_without_full_wipe", fmt("file %s (%lld data bytes) unlinked after only %lld zero bytes were written over it; %d pass(es) configured", f.substr(0, 8).c_str(), (long long)data_size[f], (long long)zero_bytes[f], passes));
                if (data_size[f] > 0) ctx.probe("wiped_files");
                data_size.erase(f); zero_bytes.erase(f);
            }
        }
    };

    auto check_dir = [&](const char* when, bool after_cleanup) {
        const std::int64_t now = sk::now_ns();
        const auto files = list_chunk_files(dir);
        std::set<std::string> present(files.begin(), files.end());
        for (auto& f : files) {
            if (removal_faulted.count(f)) continue;  // narrow relaxation: its own removal was hit by an injected error
            if (f != canonical_name(f)) {
                // a side file of a chunk (e.g. a staging file): it may exist while its chunk lives, never after the cleanup
                // that follows the chunk's deadline
                ctx.probe("side_file_seen");
                std::int64_t dl = -1;
                if (auto ci = cur.find(canonical_name(f)); ci != cur.end()) dl = ci->second.deadline;
                if (auto oi = orphans.find(f); oi != orphans.end()) dl = dl < 0 ? oi->second.deadline : std::min(dl, oi->second.deadline);
                if (dl < 0) ctx.violate("C04.file_outlives_chunk", fmt("file %s... exists but no live chunk owns it (%s)", f.substr(0, 8).c_str(), when));
                else if (after_cleanup && dl <= now)
                    ctx.violate("C04.side_file_after_cleanup", fmt("file %s...%s still exists after a cleanup at t=%.3f; its chunk's deadline was %.3f (%s)", f.substr(0, 8).c_str(), f.substr(64).c_str(), now / 1e9, dl / 1e9, when));
                continue;
            }
            auto it = cur.find(f);
            if (it != cur.end()) {
                if (!it->second.persisted && !orphans.count(f))
                    ctx.violate("C04.file_without_persisted_record", fmt("file %s exists although the store reported the chunk as not persisted (%s)", f.substr(0, 8).c_str(), when));
                if (after_cleanup && it->second.deadline <= now)
                    ctx.violate("C04.file_after_cleanup", fmt("file %s still exists after a cleanup at t=%.3f; its chunk expired at %.3f (%s)", f.substr(0, 8).c_str(), now / 1e9, it->second.deadline / 1e9, when));
                if (it->second.persisted && now < it->second.deadline) {
                    const std::string content = read_file(dir + "/" + f);
                    if (content.size() != it->second.cipher.size() || (!content.empty() && std::memcmp(content.data(), it->second.cipher.data(), content.size()) != 0))
                        ctx.violate("C04.file_content_differs", fmt("file %s holds %zu bytes that differ from the %zu stored encrypted bytes (%s)", f.substr(0, 8).c_str(), content.size(), it->second.cipher.size(), when));
                }
                continue;
            }
            auto ot = orphans.find(f);
            if (ot != orphans.end()) {
                if (after_cleanup && ot->second.deadline <= now)
                    ctx.violate("C04.orphan_after_cleanup", fmt("file %s written by an earlier instance (chunk deadline %.3f) still exists after a cleanup at t=%.3f (%s)", f.substr(0, 8).c_str(), ot->second.deadline / 1e9, now / 1e9, when));
                continue;
            }
            ctx.violate("C04.file_outlives_chunk", fmt("file %s exists but no live chunk owns it (%s)", f.substr(0, 8).c_str(), when));
        }
        for (auto& [f, ch] : cur) {
            if (ch.persisted && now < ch.deadline && !present.count(f) && !removal_faulted.count(f) && !wipe_faulted.count(f))
                ctx.violate("C04.live_file_missing", fmt("live persisted chunk %s has no file (%s)", f.substr(0, 8).c_str(), when));
        }
        // forget orphans that are gone
        for (auto it = orphans.begin(); it != orphans.end();) it = present.count(it->first) ? std::next(it) : orphans.erase(it);
        ctx.state(files.size() * 64 + cur.size() * 8 + orphans.size());
    };

    auto restart = [&](bool crashed) {
        // whatever is on disk now belongs to an earlier instance
        for (auto& f : list_chunk_files(dir)) {
            std::int64_t dl = sk::now_ns();
            if (auto it = cur.find(canonical_name(f)); it != cur.end()) dl = it->second.deadline;
            else if (auto ot = orphans.find(f); ot != orphans.end()) dl = ot->second.deadline;
            orphans[f] = {dl};
        }
        cur.clear();
        node.reset();                  // a crashed instance cannot write: the directory is frozen
        digest_log(crashed);
        sk::fs_freeze_at(0, -1);
        sk::fs_reset_counters(0);
        removal_faulted.clear(); wipe_faulted.clear();
        node = std::make_unique<en::Node>(kSelf, c);
        digest_log(false);
        ctx.probe(crashed ? "restart_after_crash" : "clean_restart");
        if (!orphans.empty()) ctx.boundary("restart_with_inherited_files");
        check_dir("after restart", false);
    };

    for (std::size_t oi = 0; oi < p.ops.size(); ++oi) {
        const auto& op = p.ops[oi];
        ++ctx.ops_done;
        if (op.k == "crash") { pending_crash = static_cast<int>(op.at(0)); continue; }
        if (op.k == "fault") {
            const int kind = static_cast<int>(op.at(1));
            sk::fs_fault_at(0, static_cast<int>(op.at(0)), kind == 1 ? ENOSPC : EIO, kind == 2 ? op.at(2) : -1);
            pending_fault = true;
            continue;
        }
        if (op.k == "adv") { sk::sleep_ns(op.at(0) * kMs); continue; }
        if (op.k == "adv_to") {
            auto it = cur.find(fname(static_cast<int>(op.at(0))));
            if (it != cur.end()) { const std::int64_t target = it->second.deadline + op.at(1) * kMs; if (target > sk::now_ns()) sk::sleep_ns(target - sk::now_ns()); }
            continue;
        }
        if (op.k == "restart") { restart(false); continue; }
        const bool arm_crash = pending_crash >= 0;
        if (arm_crash) sk::fs_freeze_at(0, pending_crash);
        pending_crash = -1;
        bool cleanup = false;
        if (op.k == "put") {
            const int id = static_cast<int>(op.at(0));
            const auto cid = make_id(static_cast<std::uint8_t>(id + 1));
            const std::int64_t now = sk::now_ns();
            std::int64_t ttl_eff;
            if (op.at(3) == 1) {
                node->store_chunk(cid, make_payload(static_cast<std::size_t>(op.at(1)), tag++), seconds(op.at(2)));
                ttl_eff = model_ttl(op.at(2), df, mn, mx);
            } else {
                node->chunk_store_.put(cid, make_payload(static_cast<std::size_t>(op.at(1)), tag++), seconds(op.at(2)), {}, true);
                ttl_eff = std::max<std::int64_t>(op.at(2) > 0 ? op.at(2) : df, 1);
            }
            const auto key = en::chunk_id_to_string(cid);
            auto rit = node->chunk_store_.chunks_.find(key);
            if (rit != node->chunk_store_.chunks_.end()) {
                if (cur.count(fname(id)) || orphans.count(fname(id))) ctx.probe("overwrite_existing_file");
                cur[fname(id)] = {rit->second.data, now + ttl_eff * kSec, rit->second.persisted};
            }
        } else if (op.k == "get") {
            const int id = static_cast<int>(op.at(0));
            const auto cid = make_id(static_cast<std::uint8_t>(id + 1));
            auto it = cur.find(fname(id));
            if (it != cur.end() && sk::now_ns() >= it->second.deadline && list_chunk_files(dir).size() > 0) ctx.boundary("lookup_between_deadline_and_sweep");
            switch (op.at(1)) {
                case 0: node->chunk_store_.get_record(cid); break;
                case 1: node->fetch_chunk(cid); break;
                default: node->chunk_store_.get(cid); break;
            }
        } else if (op.k == "sweep") {
            node->chunk_store_.sweep_expired();
            cleanup = true;
        } else if (op.k == "tick") {
            node->tick();
            cleanup = steady_to_sim(node->last_cleanup_) == sk::now_ns();
        }
        const bool frozen = sk::fs_frozen(0);
        if (arm_crash && frozen) {
            ctx.fault("crash_inside_operation");
            ctx.probe("crash_in_" + op.k);
            // an interrupted put leaves (part of) a file whose chunk had the deadline the put would have given it
            restart(true);
            continue;
        }
        if (arm_crash) { sk::fs_freeze_at(0, -1); ctx.probe("crash_point_beyond_operation"); }
        digest_log(false);
        if (pending_fault) { pending_fault = false; }
        if (cleanup) {
            // forget current-instance chunks the cleanup removed from memory
            for (auto it = cur.begin(); it != cur.end();) {
                const std::string key = it->first.substr(0, it->first.size() - 6);
                if (!node->chunk_store_.chunks_.count(key) && it->second.deadline <= sk::now_ns()) {
                    // its file must be gone (checked in check_dir through `present`): keep the entry if the file is still there
                    struct stat st;
                    if (stat((dir + "/" + it->first).c_str(), &st) != 0) { it = cur.erase(it); continue; }
                }
                ++it;
            }
        }
        check_dir(op.k.c_str(), cleanup);
    }
    // settle: beyond every deadline, one more cleanup tick, nothing may remain
    std::int64_t last = sk::now_ns();
    for (auto& [f, ch] : cur) last = std::max(last, ch.deadline);
    for (auto& [f, o] : orphans) last = std::max(last, o.deadline);
    sk::sleep_ns(last - sk::now_ns() + (p.knob("cleanup", 1) + 1) * kSec);
    node->tick();
    digest_log(false);
    check_dir("final cleanup", true);
    node.reset();
}

Scenario make_c04() {
    Scenario s;
    s.id = "C04"; s.world = "W1+files"; s.level = "fault_enumeration";
    s.technique = "deterministic simulation with a fault-injecting file seam: crash points enumerated per operation (freeze of the directory at the k-th file call, then restart on the same directory), disk errors attached to individual calls, seeded histories around them; directory contents and the file-operation log checked after every operation";
    s.real_components = {"Node (store_chunk, tick)", "ChunkStore (put, get_record, sweep_expired, persist_chunk_to_disk, secure_wipe_file)", "libstdc++ fstream/filesystem on a real scratch directory"};
    s.stub_components = {"file system calls observed/faulted by link-time interposition (fopen/open/write/writev/unlink/remove/mkdir/truncate/rename)", "OS clock -> simulated", "crash = directory freeze + new instance (process-crash model: completed writes survive; no power-loss model, the code never fsyncs)"};
    s.assumptions = {"a removal (unlink or zero overwrite) that itself received an injected error may leave its file; nothing else is relaxed",
                     "a file inherited from an earlier instance keeps the deadline its chunk had"};
    s.rule = "enumerated part: 6 operation shapes (fresh put, overwriting put, sweep wipe, cleanup tick over two files, expiry first noticed by a lookup, replacement of an inherited file) x passes 1..3 x crash at file call k=0..15 (quick) / 0..39 (thorough); random part: 4..30 ops (put/get/sweep/tick/advance/restart/crash-at-k/disk-fault); non-trivial = a crash landed inside an operation, a disk error fired, a restart inherited files, or a lookup hit a chunk between deadline and sweep; distinct = plan hash";
    s.gen = gen_c04; s.exec = exec_c04; s.enumerate = enum_c04;
    s.kernel_knobs = [](const Plan&) { sk::Knobs k; k.preempt_per_1024 = 0; return k; };
    s.quick_runs = 12000; s.thorough_runs = 600000; s.quick_secs = 45; s.thorough_secs = 900;
    return s;
}
Registrar reg_c04(make_c04);

}  // namespace
