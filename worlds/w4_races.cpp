// W4 — C36: daemon threads never race on shared node state.
// The real `eph serve` main runs under ThreadSanitizer's fiber mode (tsan build variant): every
// daemon thread is a fiber the seeded scheduler interleaves; fiber switches carry no
// synchronisation, so happens-before comes only from the program's own mutexes (annotated in the
// interposed pthread_mutex_*), thread creation/join and atomics. Concurrent control requests,
// inbound handshakes and signed messages on several sessions, and ticks with frequent key rotation
// run against each other; any TSan data-race report whose two stacks both lie in the repository is
// a violation (collected by the runner from the sanitizer log).
#include "worlds/w4_common.hpp"

#include "ephemeralnet/protocol/Manifest.hpp"

using namespace wl;

namespace {

namespace pr = ephemeralnet::protocol;

Plan gen_c36(sk::Rng& r, Tier) {
    Plan p;
    gen_w4_knobs(p, r);
    p.knobs["preempt"] = r.pick<std::int64_t>({128, 512, 900});
    p.knobs["rotation"] = r.pick<std::int64_t>({1, 2, 5, 3600});
    // long preemptions: a daemon thread loses the processor for up to 1.5 s at an arbitrary scheduling point, so that periodic work
    // (the tick) lands in the middle of whatever another thread was doing
    p.knobs["deschedule"] = r.pick<std::int64_t>({0, 60, 200, 600});
    p.knobs["peers"] = r.range(1, 3);
    p.knobs["control_clients"] = r.range(1, 2);
    p.knobs["steps"] = r.range(3, 8);
    p.knobs["mix"] = static_cast<std::int64_t>(r.below(1u << 30));
    // shutdown racing the traffic: 0 = after the storm, 1 = SIGTERM in the middle of it, 2 = control STOP in the middle of it
    p.knobs["stop_mode"] = r.pick<std::int64_t>({0, 0, 0, 1, 2});
    p.knobs["stop_after_ms"] = r.pick<std::int64_t>({300, 1200, 2500, 4000});
    Op op; op.k = "storm"; p.ops.push_back(op);
    return p;
}

void exec_c36(const Plan& p, Ctx& ctx) {
    capture_reset();
    Daemon d;
    d.extra_args = {"--min-ttl", "5", "--max-ttl", "7200", "--default-ttl", "900", "--key-rotation", std::to_string(p.knob("rotation", 2))};
    d.start();
    if (!d.wait_ready()) { ctx.violate("C36.setup_failed", "daemon did not answer PING: " + sk::info(d.pid).exit_detail); d.stop(); return; }
    const std::string host = ip_text(d.host);
    Actor setup;
    setup.scripted = true;
    setup.start("setup", sk::ip(10, 0, 9, 1));
    pr::Manifest stored;
    std::string stored_uri;
    {
        const auto pl = make_payload(600, 36001);
        std::vector<std::uint8_t> body(pl.begin(), pl.end());
        CtlReply rep;
        setup.call([&] { rep = ctl_exchange(host, d.control_port, ctl_headers({{"COMMAND", "STORE"}, {"TTL", "900"}, {"STORE-POW", std::to_string(ref_solve_store_pow(body, "", 6))}, {"PAYLOAD-LENGTH", std::to_string(body.size())}}), body); });
        if (!rep.ok) { ctx.violate("C36.setup_failed", "STORE failed"); setup.shutdown(); d.stop(); return; }
        stored_uri = rep.field("MANIFEST");
        try { stored = pr::decode_manifest(stored_uri); } catch (...) { ctx.violate("C36.setup_failed", "manifest undecodable"); setup.shutdown(); d.stop(); return; }
    }
    const auto daemon_id = en::peer_id_from_string(stored.metadata["publisher_peer"]).value_or(en::PeerId{});
    const auto daemon_pub = static_cast<std::uint32_t>(std::stoul(stored.metadata["publisher_public"]));
    const int hs_bits = stored.security.token_challenge_bits;
    const int announce_bits = en::Config{}.announce_pow_difficulty;
    // a foreign manifest for announces
    pr::Manifest foreign;
    std::string foreign_uri;
    {
        en::Node other(make_id(0x36, 0x01), base_config(3636));
        const auto pl = make_payload(200, 36002);
        en::ChunkData data(pl.begin(), pl.end());
        en::ChunkId id{};
        const auto dg = en::crypto::Sha256::digest(std::span<const std::uint8_t>(data));
        std::copy(dg.begin(), dg.end(), id.begin());
        foreign = other.store_chunk(id, data, std::chrono::seconds(900));
        foreign_uri = pr::encode_manifest(foreign);
    }

    const int steps = static_cast<int>(p.knob("steps", 5));
    const std::uint64_t mix = static_cast<std::uint64_t>(p.knob("mix", 1));
    std::vector<std::unique_ptr<Actor>> actors;
    std::vector<std::uint64_t> tickets;
    int finished = 0;
    // ---- control clients: independent simulated processes issuing requests back to back
    for (int c = 0; c < static_cast<int>(p.knob("control_clients", 1)); ++c) {
        actors.push_back(std::make_unique<Actor>());
        Actor& a = *actors.back();
        a.scripted = true;
        a.start("ctl" + std::to_string(c), sk::ip(10, 0, 9, static_cast<std::uint8_t>(20 + c)));
        tickets.push_back(a.post([&, c] {
            sk::Rng g(mix + 100 + static_cast<std::uint64_t>(c));
            for (int i = 0; i < steps; ++i) {
                const char* cmds[] = {"STATUS", "LIST", "DEFAULTS", "METRICS", "DIAGNOSTICS", "FETCH", "STORE", "PING"};
                const std::string cmd = cmds[g.below(8)];
                if (cmd == "FETCH") (void)ctl_exchange(host, d.control_port, ctl_headers({{"COMMAND", "FETCH"}, {"MANIFEST", stored_uri}, {"STREAM", "client"}}), {});
                else if (cmd == "STORE") {
                    const auto pl = make_payload(100 + g.below(200), 36100 + mix % 1000 + static_cast<std::uint64_t>(c * 100 + i));
                    std::vector<std::uint8_t> body(pl.begin(), pl.end());
                    (void)ctl_exchange(host, d.control_port, ctl_headers({{"COMMAND", "STORE"}, {"TTL", "600"}, {"STORE-POW", std::to_string(ref_solve_store_pow(body, "", 6))}, {"PAYLOAD-LENGTH", std::to_string(body.size())}}), body);
                } else (void)ctl_exchange(host, d.control_port, ctl_headers({{"COMMAND", cmd}}), {});
                ctx.probe("control_" + cmd);
                sk::sleep_ns(static_cast<std::int64_t>(g.below(700)) * kMs);
            }
            ++finished;
        }));
    }
    // ---- transport peers: handshake, signed traffic, reconnects
    for (int k = 0; k < static_cast<int>(p.knob("peers", 2)); ++k) {
        actors.push_back(std::make_unique<Actor>());
        Actor& a = *actors.back();
        a.scripted = true;
        a.start("peer" + std::to_string(k), sk::ip(10, 0, 9, static_cast<std::uint8_t>(40 + k)));
        tickets.push_back(a.post([&, k] {
            sk::Rng g(mix + 500 + static_cast<std::uint64_t>(k));
            PeerIdentity me = PeerIdentity::make(static_cast<std::uint8_t>(0x90 + k), 2000003u + static_cast<std::uint32_t>(k) * 7919u + static_cast<std::uint32_t>(mix % 1000));
            PeerConn c;
            bool up = false;
            int incarnation = 0;
            for (int i = 0; i < steps; ++i) {
                // half of the reconnections come from a peer the daemon has never seen (a new entry in its key, reputation and handshake tables)
                if (!up && incarnation > 0 && g.chance(1, 2)) { me = PeerIdentity::make(static_cast<std::uint8_t>(0x90 + k + 8 * incarnation), 2000003u + static_cast<std::uint32_t>(k + 8 * incarnation) * 7919u + static_cast<std::uint32_t>(mix % 1000)); ctx.probe("peer_new_identity"); }
                if (!up) ++incarnation;
                if (!up) { c = PeerConn{}; up = scripted_handshake(c, me, daemon_id, daemon_pub, hs_bits, host, d.transport_port, 8000); ctx.probe(up ? "peer_handshake_ok" : "peer_handshake_failed"); if (!up) { c.close_now(); sk::sleep_ns(500 * kMs); continue; } }
                const auto act = g.below(6);
                pr::Message m{};
                bool ok = true;
                if (act == 0) {
                    m.type = pr::MessageType::Announce;
                    pr::AnnouncePayload an{};
                    an.chunk_id = foreign.chunk_id; an.peer_id = me.id; an.endpoint = ip_text(a.host) + ":46000"; an.ttl = std::chrono::seconds(600); an.manifest_uri = foreign_uri; an.assigned_shards = {1};
                    ref_solve_announce_pow(an, announce_bits);
                    m.payload = an;
                    ok = c.send_signed(m);
                    ctx.probe("peer_announce");
                } else if (act == 1) { m.type = pr::MessageType::Request; m.payload = pr::RequestPayload{stored.chunk_id, me.id}; ok = c.send_signed(m); ctx.probe("peer_request"); }
                else if (act == 2) { m.type = pr::MessageType::Acknowledge; m.payload = pr::AcknowledgePayload{stored.chunk_id, me.id, true}; ok = c.send_signed(m); ctx.probe("peer_ack"); }
                else if (act == 3) { m.type = pr::MessageType::Chunk; pr::ChunkPayload cp{}; cp.chunk_id = foreign.chunk_id; cp.data.assign(200, 7); cp.ttl = std::chrono::seconds(600); m.payload = cp; ok = c.send_signed(m); ctx.probe("peer_chunk"); }
                else if (act == 4) { c.close_now(); up = false; ctx.probe("peer_reconnect"); }
                else { sk::sleep_ns(static_cast<std::int64_t>(g.below(1500)) * kMs); }
                if (!ok) { c.close_now(); up = false; }
                sk::sleep_ns(static_cast<std::int64_t>(g.below(400)) * kMs);
            }
            c.close_now();
            ++finished;
        }));
    }
    // shutdown in the middle of the storm: the daemon's stop paths (serve loop exit, ControlServer::stop, SessionManager::stop,
    // Node destruction) run against reader threads and requests that are still in progress
    if (const auto mode = p.knob("stop_mode", 0); mode != 0) {
        sk::sleep_ns(p.knob("stop_after_ms", 1200) * kMs);
        ctx.boundary(mode == 1 ? "sigterm_during_traffic" : "control_stop_during_traffic");
        if (mode == 1) sk::deliver_signal(d.pid, SIGTERM);
        else setup.call([&] { (void)ctl_exchange(host, d.control_port, ctl_headers({{"COMMAND", "STOP"}}), {}, false, 5000); });
        sk::wait_exit(d.pid, 120 * kSec);
        if (sk::alive(d.pid)) ctx.violate("C36.daemon_did_not_stop", "the daemon did not finish within 120 simulated seconds of a stop request issued during traffic");
    }
    // let the storm run, then wait for everyone
    for (std::size_t i = 0; i < actors.size(); ++i) actors[i]->wait(tickets[i], 600 * kSec);
    ctx.ops_done = finished;
    ctx.boundary("concurrent_control_transport_tick");
    sk::sleep_ns(2500 * kMs);  // a few more ticks (rotation, cleanup) against the idle sessions
    if (!sk::alive(d.pid)) ctx.probe("daemon_ended_during_storm");
    for (auto& a : actors) a->shutdown();
    setup.shutdown();
    d.stop();
    ctx.state(static_cast<std::uint64_t>(finished));
}

Scenario make_c36() {
    Scenario s;
    s.id = "C36"; s.world = "W4"; s.level = "exploration";
    s.technique = "deterministic simulation under ThreadSanitizer fiber mode: the real `eph serve` main's threads (serve/tick loop, control accept thread, transport accept thread, per-session reader threads) are fibers interleaved by the seeded scheduler with no implicit synchronisation at switches; concurrent control requests, handshakes, signed messages, reconnects and ticks with key rotation every 1-5 s; every TSan data-race report with both stacks in the repository is a violation, identified by the pair of innermost repository frames";
    s.real_components = {"src/main.cpp serve loop (uninstrumented, its locking is seen through the interposed mutex calls)", "ControlServer, Node, SessionManager, KeyManager, ReputationManager, KademliaTable, ChunkStore (TSan-instrumented)"};
    s.stub_components = {"OS seams; pthread mutexes are modelled and annotated with __tsan_acquire/__tsan_release; thread create/join annotated", "clients and peers are scripted (uninstrumented)"};
    s.assumptions = {"accesses inside libstdc++.so and the uninstrumented harness are invisible to TSan: races there are missed, never mis-reported",
                     "reports whose location is thread-local storage are ignored: fibers share one OS thread's TLS, which real threads would not"};
    s.rule = "plan = network/scheduler knobs, key rotation interval, 1..3 transport peers, 1..2 control clients, 3..8 actions each, action mix seed, long preemptions of arbitrary threads, shutdown after or in the middle of the traffic (SIGTERM or control STOP); non-trivial = every run (concurrent control + transport + tick); distinct = plan hash";
    s.gen = gen_c36; s.exec = exec_c36;
    s.kernel_knobs = [](const Plan& p) { sk::Knobs k = w4_knobs(p); k.deschedule_per_65536 = static_cast<std::uint32_t>(p.knob("deschedule", 0)); return k; };
    s.quick_runs = 1200; s.thorough_runs = 30000; s.quick_secs = 55; s.thorough_secs = 1200;
    return s;
}
Registrar reg_c36(make_c36);

}  // namespace
