// W2 — C20 (inbound handshakes need a valid key and valid PoW), C12 (a mutual handshake yields
// one shared key), C13 (signed messages need the exact MAC over the exact bytes).
// A real Node with its real SessionManager listens on the simulated TCP; scripted peers speak the
// wire format from their own simulated processes.
#include "worlds/net_common.hpp"

using namespace wl;

namespace {

const en::PeerId kN = make_id(0xA1, 0x11);
constexpr std::uint32_t kP = en::network::KeyExchange::kPrime;

sk::Knobs net_knobs(const Plan& p) {
    sk::Knobs k;
    k.sock_buf_min = static_cast<std::uint32_t>(p.knob("buf_min", 64));
    k.sock_buf_max = static_cast<std::uint32_t>(p.knob("buf_max", 65536));
    k.lat_max_ns = p.knob("lat_max_us", 2000) * 1000;
    k.preempt_per_1024 = static_cast<std::uint32_t>(p.knob("preempt", 256));
    k.short_io_per_1024 = static_cast<std::uint32_t>(p.knob("short_io", 128));
    k.max_steps = 4'000'000;
    return k;
}
void gen_net_knobs(Plan& p, sk::Rng& r) {
    p.knobs["buf_min"] = r.pick<std::int64_t>({8, 64, 4096});
    p.knobs["buf_max"] = r.pick<std::int64_t>({4096, 65536});
    p.knobs["lat_max_us"] = r.pick<std::int64_t>({0, 500, 5000, 50000});
    p.knobs["preempt"] = r.pick<std::int64_t>({0, 128, 512});
    p.knobs["short_io"] = r.pick<std::int64_t>({0, 128, 512});
}

// ================================================================ C20
struct Holder { int conn = -1; std::array<std::uint8_t, 32> key{}; };

Plan gen_c20(sk::Rng& r, Tier) {
    Plan p;
    gen_net_knobs(p, r);
    p.knobs["difficulty"] = r.chance(1, 2) ? r.pick<std::int64_t>({0, 1, 4, 8}) : r.range(1, 13);   // every residue modulo 8, across a byte boundary
    p.knobs["cooldown"] = r.pick<std::int64_t>({0, 1, 5, 5, 60});
    const int n = static_cast<int>(r.range(2, 9));
    for (int i = 0; i < n; ++i) {
        Op op;
        // claimed id, public-key kind, pow kind, gap before (ms)
        op.k = "offer";
        op.a = {static_cast<std::int64_t>(r.below(3)),
                r.pick<std::int64_t>({0, 0, 0, 0, 1, 2}),
                r.pick<std::int64_t>({0, 0, 0, 1, 4, 4, 2, 3}),
                r.pick<std::int64_t>({0, 10, 900, 1000, 4999, 5000, 5001, 61000}),
                static_cast<std::int64_t>(r.below(8))};
        p.ops.push_back(op);
        if (r.chance(1, 3)) p.ops.push_back(Op{"probe", {static_cast<std::int64_t>(r.below(3))}, ""});
    }
    return p;
}

void exec_c20(const Plan& p, Ctx& ctx) {
    const int difficulty = static_cast<int>(p.knob("difficulty", 4));
    NodeProc N;
    en::Config c = base_config(77);
    c.handshake_pow_difficulty = static_cast<std::uint8_t>(difficulty);
    c.handshake_cooldown = seconds(p.knob("cooldown", 5));
    c.key_rotation_interval = seconds(3600);
    N.start("node", sk::ip(10, 0, 1, 1), kN, c, 1000 * kMs, 200 * kMs);
    std::uint32_t npub = 0;
    N.run([&](en::Node& n) { npub = n.public_identity(); });

    Actor script;
    script.start("peers", sk::ip(10, 0, 3, 1));
    std::vector<std::unique_ptr<PeerConn>> conns;
    std::map<int, Holder> holder;  // claimed index -> connection that currently owns the node's session
    const PeerIdentity ids[3] = {PeerIdentity::make(0x31, 1000003), PeerIdentity::make(0x32, 2000003), PeerIdentity::make(0x33, 3000017)};
    const std::uint32_t other_scalar = 4000037;
    const std::uint32_t bad_pubs[8] = {0, 1, kP, kP + 1, 0xffffffffu, kP + 12345, 0x80000000u, kP};
    const en::PeerId other_responder = make_id(0xEE, 0x55);

    auto probe = [&](int who, const char* when) {
        auto it = holder.find(who);
        if (it == holder.end()) return;
        bool ok = false;
        std::string err;
        script.call([&] {
            PeerConn& cn = *conns[static_cast<std::size_t>(it->second.conn)];
            en::protocol::Message m{};
            m.type = en::protocol::MessageType::Request;
            m.payload = en::protocol::RequestPayload{make_id(0xCC, 0x99), ids[who].id};
            cn.set_timeout(8000);
            if (!cn.send_signed(m)) { err = "send failed: " + cn.last_error; return; }
            for (int tries = 0; tries < 4; ++tries) {
                auto reply = cn.recv_message();
                if (!reply) { err = "no reply: " + cn.last_error; return; }
                if (reply->type == en::protocol::MessageType::Acknowledge) { ok = true; return; }
            }
        }, 60 * kSec);
        ctx.probe("session_probes");
        if (!ok) ctx.violate("C20.established_session_broken", fmt("session of peer %d stopped working %s (%s)", who, when, err.c_str()));
    };

    for (auto& op : p.ops) {
        ++ctx.ops_done;
        if (op.k == "probe") { probe(static_cast<int>(op.at(0)), "at a quiet moment"); continue; }
        const int who = static_cast<int>(op.at(0));
        const int pub_kind = static_cast<int>(op.at(1)), pow_kind = static_cast<int>(op.at(2));
        sk::sleep_ns(op.at(3) * kMs);
        const PeerIdentity& me = ids[who];
        std::uint32_t scalar = me.scalar, pub = me.pub;
        if (pub_kind == 1) { pub = bad_pubs[op.at(4) % 8]; }
        else if (pub_kind == 2) { scalar = other_scalar + static_cast<std::uint32_t>(who); pub = en::network::KeyExchange::compute_public(scalar); }
        std::uint64_t nonce = 0;
        switch (pow_kind) {
            case 0: nonce = ref_solve_handshake_pow(me.id, kN, pub, difficulty); break;
            case 1: nonce = difficulty > 0 ? ref_find_invalid_handshake_nonce(me.id, kN, pub, difficulty) : 12345; break;
            case 4: nonce = difficulty > 0 ? ref_find_near_miss_handshake_nonce(me.id, kN, pub, difficulty) : 12345; if (difficulty > 0) ctx.boundary("offer_pow_one_bit_short"); break;  // exactly one zero bit short
            case 2: nonce = ref_solve_handshake_pow(me.id, other_responder, pub, std::max(difficulty, 1), 1000); break;   // valid for another responder
            default: nonce = ref_solve_handshake_pow(me.id, kN, pub ^ 0x5a5a, std::max(difficulty, 1), 2000); break;      // valid for another key
        }
        const bool pub_ok = pub > 1 && pub < kP;
        const bool pow_ok = ref_handshake_pow_ok(me.id, kN, pub, nonce, difficulty);
        const bool valid = pub_ok && pow_ok;
        if (!pub_ok) ctx.boundary("offer_invalid_public");
        if (pub_ok && !pow_ok) ctx.boundary("offer_invalid_pow");
        // state before
        std::optional<std::array<std::uint8_t, 32>> key_before;
        int rep_before = 0;
        std::int64_t last_ok_at = -1;
        N.run([&](en::Node& n) {
            key_before = n.session_key(me.id);
            rep_before = n.reputation_score(me.id);
            auto it = n.handshake_state_.find(en::peer_id_to_string(me.id));
            if (it != n.handshake_state_.end() && it->second.success) last_ok_at = steady_to_sim(it->second.last_attempt);
        });
        if (!valid && last_ok_at >= 0 && sk::now_ns() - last_ok_at < p.knob("cooldown", 5) * kSec) ctx.boundary("invalid_offer_inside_cooldown_of_a_success");
        // the offer
        conns.push_back(std::make_unique<PeerConn>());
        const int ci = static_cast<int>(conns.size()) - 1;
        bool got_frame = false, closed = false, sent = false;
        script.call([&] {
            PeerConn& cn = *conns[static_cast<std::size_t>(ci)];
            if (!cn.open(ip_text(N.actor.host), N.port)) return;
            cn.set_timeout(6000);
            cn.key = ref_session_key(scalar, pub, npub);
            sent = cn.send_identity(me.id) && cn.send_handshake(pub, nonce);
            if (!sent) return;
            std::uint8_t hdr[16];
            const int r = cn.recv_all(hdr, 16);
            if (r == 1) {
                got_frame = true;
                const std::uint32_t len = (std::uint32_t(hdr[12]) << 24) | (std::uint32_t(hdr[13]) << 16) | (std::uint32_t(hdr[14]) << 8) | hdr[15];
                std::vector<std::uint8_t> rest(std::min<std::uint32_t>(len, 1u << 16));
                if (!rest.empty()) cn.recv_all(rest.data(), rest.size());
                cn.start_reader();
            } else {
                closed = true;
            }
        }, 60 * kSec);
        if (!sent) { ctx.probe("offer_not_sent"); continue; }
        sk::sleep_ns(50 * kMs);
        // state after
        std::optional<std::array<std::uint8_t, 32>> key_after;
        int rep_after = 0;
        bool registered_for_this_socket = false;
        const std::string my_endpoint_port = ":" + std::to_string(0);
        (void)my_endpoint_port;
        N.run([&](en::Node& n) {
            key_after = n.session_key(me.id);
            rep_after = n.reputation_score(me.id);
            std::scoped_lock lock(n.sessions_.sessions_mutex_);
            auto it = n.sessions_.sessions_.find(en::peer_id_to_string(me.id));
            if (it != n.sessions_.sessions_.end() && it->second && it->second->running.load()) {
                // is the registered session the one of THIS offer? compare the remote port
                sockaddr_in a{}; socklen_t l = sizeof a;
                sockaddr_in mine{}; socklen_t ml = sizeof mine;
                if (::getpeername(static_cast<int>(it->second->socket), reinterpret_cast<sockaddr*>(&a), &l) == 0 &&
                    ::getsockname(conns[static_cast<std::size_t>(ci)]->fd, reinterpret_cast<sockaddr*>(&mine), &ml) == 0)
                    registered_for_this_socket = a.sin_port == mine.sin_port;
            }
        });
        if (valid) {
            ctx.probe("valid_offers");
            if (got_frame && registered_for_this_socket) { holder[who] = {ci, conns[static_cast<std::size_t>(ci)]->key}; ctx.probe("valid_offer_accepted"); }
            else if (got_frame) {
                ctx.probe("valid_offer_acked_but_not_kept");
                // a VALID offer re-keyed the claimed peer although its connection was not kept (existing session
                // preferred): if the key differs, the old connection can no longer talk to the node. That is the
                // effect of an accepted handshake, not of a rejected one, so it is outside this property.
                auto it = holder.find(who);
                if (it != holder.end() && it->second.key != conns[static_cast<std::size_t>(ci)]->key) { holder.erase(it); ctx.probe("holder_rekeyed_by_valid_offer"); }
            }
        } else {
            ctx.probe("invalid_offers");
            if (got_frame)
                ctx.violate("C20.invalid_offer_acknowledged", fmt("offer with %s public key and %s PoW for claimed peer %d was acknowledged", pub_ok ? "valid" : "invalid", pow_ok ? "valid" : "invalid", who));
            if (registered_for_this_socket)
                ctx.violate("C20.invalid_offer_registered", fmt("offer with %s public key and %s PoW for claimed peer %d got a registered session", pub_ok ? "valid" : "invalid", pow_ok ? "valid" : "invalid", who));
            if (key_before != key_after)
                ctx.violate("C20.rejected_offer_changed_key", fmt("session key of claimed peer %d changed although the offer was invalid", who));
            if (!(rep_after < rep_before) && rep_before > -98)
                ctx.violate("C20.rejected_offer_reputation", fmt("reputation of claimed peer %d went %d -> %d after an invalid offer", who, rep_before, rep_after));
            if (!got_frame && !closed) ctx.probe("invalid_offer_left_open");
            probe(who, "after a rejected offer for the same claimed id");
        }
        ctx.state(static_cast<std::uint64_t>(who * 64 + pub_kind * 16 + pow_kind * 4 + (got_frame ? 2 : 0) + (registered_for_this_socket ? 1 : 0)));
    }
    script.call([&] { for (auto& cn : conns) cn->close_now(); });
    script.shutdown();
    N.stop();
}

Scenario make_c20() {
    Scenario s;
    s.id = "C20"; s.world = "W2"; s.level = "exploration";
    s.technique = "deterministic simulation: scripted initiators on simulated TCP offer every combination of valid/invalid public key and valid/invalid/misdirected PoW to a real Node at spacings inside and outside the handshake cooldown; acceptance (ACK frame, registered session) compared with an independent PoW/key reference; side effects read from the node";
    s.real_components = {"Node (handle_transport_handshake, perform_handshake)", "SessionManager (accept_loop, handle_pending_handshake, replace_session)", "KeyManager", "ReputationManager", "Message codec"};
    s.stub_components = {"OS: threads -> fibers, sockets -> simulated TCP, clock, entropy", "initiators are scripted processes using the repository's codec"};
    s.assumptions = {"one-directional: a valid offer may still be dropped (session preference rules); only invalid offers are required to be refused without side effects"};
    s.rule = "plan = PoW difficulty 0..13, cooldown {0,1,5,60 s}, network knobs + 2..9 offers (3 claimed ids x {own key, invalid public value, other valid key} x {valid, invalid, one-zero-bit-short, valid-for-other-responder, valid-for-other-key PoW} x gaps 0 ms..61 s) with session probes; non-trivial = an invalid offer (bad key or bad PoW), esp. inside the cooldown of an earlier success; distinct = plan hash";
    s.gen = gen_c20; s.exec = exec_c20; s.kernel_knobs = net_knobs;
    s.quick_runs = 2500; s.thorough_runs = 100000; s.quick_secs = 50; s.thorough_secs = 900;
    return s;
}
Registrar reg_c20(make_c20);

// ================================================================ C12
Plan gen_c12(sk::Rng& r, Tier) {
    Plan p;
    gen_net_knobs(p, r);
    p.knobs["seed_a"] = static_cast<std::int64_t>(r.below(1u << 31));
    p.knobs["seed_b"] = static_cast<std::int64_t>(r.below(1u << 31));
    p.knobs["id_a"] = static_cast<std::int64_t>(r.below(200)) + 1;
    p.knobs["id_b"] = static_cast<std::int64_t>(r.below(200)) + 1;
    p.knobs["difficulty"] = r.pick<std::int64_t>({0, 2, 6});
    // rotation is C39's subject and normally out of the way; in a third of the runs it is short, so that a re-handshake can arrive
    // while the receiver's tick loop is rotating that very session ("race" operations)
    p.knobs["rotation"] = r.pick<std::int64_t>({3600, 3600, 5});  // 5 s is the shortest interval the node accepts
    const int n = static_cast<int>(r.range(2, 8));
    for (int i = 0; i < n; ++i) {
        Op op;
        const auto c = r.below(100);
        if (p.knobs["rotation"] < 3600 && c < 60) { op.k = "race"; op.a = {static_cast<std::int64_t>(r.below(2)), r.pick<std::int64_t>({10, 0, -2, -10, -30, -80, -150, -300}), r.pick<std::int64_t>({1500, 4000, 12000})}; }  // initiator, lead over the receiver's tick (ms; negative = after it began), preemption rate
        else if (c < 30) { op.k = "api_handshake"; op.a = {static_cast<std::int64_t>(r.below(3))}; }          // 0: A<-B, 1: B<-A, 2: both
        else if (c < 50) { op.k = "wire_connect"; op.a = {static_cast<std::int64_t>(r.below(2))}; }       // who connects
        else if (c < 65) { op.k = "bad_public"; op.a = {static_cast<std::int64_t>(r.below(2)), static_cast<std::int64_t>(r.below(8)), static_cast<std::int64_t>(r.below(2))}; }
        else if (c < 75) { op.k = "restart"; op.a = {static_cast<std::int64_t>(r.below(2)), static_cast<std::int64_t>(r.below(2))}; }  // who, change seed?
        else if (c < 85) { op.k = "adv"; op.a = {r.pick<std::int64_t>({100, 4999, 5001, 20000})}; }
        else { op.k = "dh"; op.a = {static_cast<std::int64_t>(r.below(1u << 31)), static_cast<std::int64_t>(r.below(1u << 31))}; }
        p.ops.push_back(op);
    }
    return p;
}

void exec_c12(const Plan& p, Ctx& ctx) {
    en::PeerId ida = make_id(static_cast<std::uint8_t>(p.knob("id_a", 1)), 0x11), idb = make_id(static_cast<std::uint8_t>(p.knob("id_b", 2)), 0x22);
    if (ida == idb) idb[5] ^= 0xff;
    std::uint32_t seed[2] = {static_cast<std::uint32_t>(p.knob("seed_a", 1)), static_cast<std::uint32_t>(p.knob("seed_b", 2))};
    const int difficulty = static_cast<int>(p.knob("difficulty", 0));
    auto cfg = [&](int i) {
        en::Config c = base_config(seed[i]);
        c.handshake_pow_difficulty = static_cast<std::uint8_t>(difficulty);
        c.handshake_cooldown = seconds(5);
        c.key_rotation_interval = seconds(p.knob("rotation", 3600));
        return c;
    };
    const std::int64_t rotation_ns = std::max<std::int64_t>(p.knob("rotation", 3600), 5) * kSec;
    std::unique_ptr<NodeProc> nodes[2];
    std::vector<std::unique_ptr<NodeProc>> graveyard;  // crashed instances (their processes are dead)
    int generation[2] = {0, 0};
    nodes[0] = std::make_unique<NodeProc>();
    nodes[1] = std::make_unique<NodeProc>();
    nodes[0]->start("nodeA", sk::ip(10, 0, 1, 1), ida, cfg(0), 1000 * kMs, 100 * kMs);
    nodes[1]->start("nodeB", sk::ip(10, 0, 1, 2), idb, cfg(1), 1000 * kMs, 400 * kMs);
    const en::PeerId ids[2] = {ida, idb};
    bool ok_flag[2] = {false, false};  // i accepted the other's current identity (API or wire)
    std::map<std::pair<std::uint32_t, std::uint32_t>, std::array<std::uint8_t, 32>> key_by_publics;

    auto publics = [&](std::uint32_t out[2]) {
        for (int i = 0; i < 2; ++i) nodes[i]->run([&, i](en::Node& n) { out[i] = n.public_identity(); });
    };
    auto compare = [&](const char* when) {
        if (!ok_flag[0] || !ok_flag[1]) return;
        std::optional<std::array<std::uint8_t, 32>> ka, kb;
        nodes[0]->run([&](en::Node& n) { ka = n.session_key(ids[1]); });
        nodes[1]->run([&](en::Node& n) { kb = n.session_key(ids[0]); });
        if (rotation_ns < 3600 * kSec) {
            // with a short rotation the two ends switch at their own ticks (C39's subject): only compare keys of the same rotation period
            std::uint64_t ca = 0, cb = 0;
            nodes[0]->run([&](en::Node& n) { auto it = n.key_manager_.contexts_.find(en::peer_id_to_string(ids[1])); if (it != n.key_manager_.contexts_.end()) ca = it->second.counter; });
            nodes[1]->run([&](en::Node& n) { auto it = n.key_manager_.contexts_.find(en::peer_id_to_string(ids[0])); if (it != n.key_manager_.contexts_.end()) cb = it->second.counter; });
            nodes[0]->run([&](en::Node& n) { ka = n.session_key(ids[1]); });
            if (ca != cb || ca != 0) { ctx.probe("compare_skipped_rotation_in_progress"); return; }
        }
        ctx.probe("mutual_success_compared");
        if (!ka || !kb) { ctx.violate("C12.key_missing", fmt("both sides accepted the other's handshake but a session key is missing (%s)", when)); return; }
        if (*ka != *kb) ctx.violate("C12.keys_differ", fmt("both sides accepted the other's handshake yet hold different session keys (%s)", when));
        std::uint32_t pub[2]; publics(pub);
        auto key = std::make_pair(std::min(pub[0], pub[1]), std::max(pub[0], pub[1]));
        // the key depends on both public keys: a different pair must give a different key
        for (auto& [pp, k] : key_by_publics) {
            if (pp != key && k == *ka) ctx.violate("C12.key_independent_of_identity", "two different pairs of public keys produced the same session key");
            if (pp == key && k != *ka) ctx.violate("C12.key_not_function_of_identities", "the same pair of identities produced two different session keys");
        }
        key_by_publics[key] = *ka;
        if (*ka != ref_session_key(0, 0, 0)) ctx.state(static_cast<std::uint64_t>((*ka)[0]) << 8 | (*ka)[1]);
    };

    for (auto& op : p.ops) {
        ++ctx.ops_done;
        if (op.k == "api_handshake") {
            std::uint32_t pub[2]; publics(pub);
            for (int i = 0; i < 2; ++i) {
                if (op.at(0) != 2 && op.at(0) != i) continue;
                const int o = 1 - i;
                std::optional<std::uint64_t> work;
                nodes[o]->run([&](en::Node& n) { work = n.generate_handshake_work(ids[i]); });
                if (!work) continue;
                if (!ref_handshake_pow_ok(ids[o], ids[i], pub[o], *work, difficulty))
                    ctx.violate("C12.solver_nonce_invalid", "generate_handshake_work returned a nonce the reference PoW check rejects");
                bool ok = false;
                nodes[i]->run([&](en::Node& n) { ok = n.perform_handshake(ids[o], pub[o], *work); });
                if (!ok) ctx.violate("C12.valid_handshake_refused", "perform_handshake refused the other node's own public key and solver nonce");
                ok_flag[i] = ok;
            }
            compare("after API handshake");
        } else if (op.k == "race") {
            // The way the node itself re-establishes a session (request_chunk: local handshake, then connect): the initiator restarts its key
            // schedule and connects; the receiver accepts the offer on its accept thread while its tick loop is rotating the keys of that
            // very session, with long preemptions right after mutex releases. Afterwards both ends must count rotations from this handshake.
            const int i = static_cast<int>(op.at(0)), o = 1 - i;
            std::uint32_t pub[2]; publics(pub);
            bool fresh = true;
            for (int k = 0; k < 2; ++k) {  // both ends know each other (and have for at least one rotation period by the time of the race)
                std::optional<std::uint64_t> work;
                nodes[1 - k]->run([&](en::Node& n) { work = n.generate_handshake_work(ids[k]); });
                bool ok = false;
                if (work) nodes[k]->run([&](en::Node& n) { ok = n.perform_handshake(ids[1 - k], pub[1 - k], *work); });
                ok_flag[k] = ok; fresh = fresh && ok;
            }
            if (!fresh) { ctx.probe("race_setup_failed"); continue; }
            std::optional<std::uint64_t> work_o;
            nodes[o]->run([&](en::Node& n) { work_o = n.generate_handshake_work(ids[i]); });
            if (!work_o) continue;
            // the receiver's first tick at which a rotation of this session is due
            const std::int64_t due = sk::now_ns() + rotation_ns;
            std::int64_t tick_at = nodes[o]->actor.next_tick;
            while (tick_at < due) tick_at += nodes[o]->actor.tick_period;
            // long preemptions after mutex releases begin shortly before that tick (a tick takes no simulated time unless it is preempted);
            // the initiator starts at the seeded offset from the tick
            if (tick_at - 20 * kMs > sk::now_ns()) sk::sleep_ns(tick_at - 20 * kMs - sk::now_ns());
            sk::set_deschedule_after_unlock(static_cast<std::uint32_t>(op.at(2)), 300 * kMs);
            ctx.fault("preemption_after_mutex_release_aimed_at_rehandshake");
            const std::int64_t go = tick_at - op.at(1) * kMs;
            if (go > sk::now_ns()) sk::sleep_ns(go - sk::now_ns());
            const std::int64_t t_start = sk::now_ns();
            bool connected = false;
            nodes[i]->run([&](en::Node& n) { if (n.perform_handshake(ids[o], pub[o], *work_o)) connected = n.connect_peer(ids[o], ip_text(nodes[o]->actor.host), nodes[o]->port); }, 60 * kSec);
            sk::sleep_ns(700 * kMs);
            sk::set_deschedule_after_unlock(0, 0);
            sk::sleep_ns(400 * kMs);
            if (!connected) { ctx.probe("race_connect_failed"); continue; }
            std::optional<bool> accepted;
            nodes[o]->run([&](en::Node& n) { accepted = n.last_handshake_success(ids[i]); });
            if (!accepted || !*accepted) { ctx.probe("race_offer_not_accepted"); continue; }
            ctx.boundary("rehandshake_while_the_receiver_rotates");
            struct Ctxv { bool present = false; std::int64_t established = 0; std::uint64_t counter = 0; std::array<std::uint8_t, 32> key{}; } cv[2];
            std::int64_t t_read = 0;
            for (int k = 0; k < 2; ++k)
                nodes[k]->run([&, k](en::Node& n) {
                    std::scoped_lock lock(n.key_manager_.mutex_);
                    auto it = n.key_manager_.contexts_.find(en::peer_id_to_string(ids[1 - k]));
                    if (it == n.key_manager_.contexts_.end()) return;
                    cv[k].present = true; cv[k].established = steady_to_sim(it->second.established); cv[k].counter = it->second.counter; cv[k].key = it->second.current_key;
                    t_read = sk::now_ns();
                });
            if (!cv[0].present || !cv[1].present) { ctx.violate("C12.key_missing", "both sides accepted the other's handshake but a session key is missing (after a re-handshake during rotation)"); continue; }
            // both ends accepted the other's offer after t_start: each counts rotation periods from that acceptance. An end whose key schedule
            // still starts before t_start is on the previous session's schedule: its key differs from the peer's in every period from now on.
            for (int k = 0; k < 2; ++k)
                if (cv[k].established + 5 * kMs < t_start)
                    ctx.violate("C12.keys_differ", fmt("node %c accepted the other's handshake at %.3f s or later, yet its session key still belongs to the schedule started at %.3f s (rotation period %llu of the old session; the peer is in period %llu of the new one; keys %s)",
                                                        k == 0 ? 'A' : 'B', t_start / 1e9, cv[k].established / 1e9, (unsigned long long)cv[k].counter, (unsigned long long)cv[1 - k].counter, cv[0].key == cv[1].key ? "equal at this instant" : "differ"));
            if (cv[0].counter == cv[1].counter && cv[0].established + 5 * kMs >= t_start && cv[1].established + 5 * kMs >= t_start) {
                ctx.probe("race_keys_compared_in_same_period");
                if (cv[0].key != cv[1].key) ctx.violate("C12.keys_differ", fmt("both sides accepted the other's handshake and are in rotation period %llu of the new session, yet hold different keys", (unsigned long long)cv[0].counter));
            }
            (void)t_read;
            // and the key each end's transport session en/decrypts with is the session key it holds
            for (int k = 0; k < 2; ++k) {
                std::optional<std::array<std::uint8_t, 32>> held, used;
                nodes[k]->run([&, k](en::Node& n) {
                    held = n.session_key(ids[1 - k]);
                    std::scoped_lock lock(n.sessions_.sessions_mutex_);
                    auto it = n.sessions_.sessions_.find(en::peer_id_to_string(ids[1 - k]));
                    if (it != n.sessions_.sessions_.end() && it->second && it->second->running.load()) { std::scoped_lock kl(it->second->key_mutex); used = it->second->key; }
                });
                if (held && used) {
                    ctx.probe("race_transport_key_compared");
                    if (*held != *used) ctx.violate("C12.transport_uses_another_key", fmt("node %c: after a re-handshake that arrived while its tick loop was rotating, the open session en/decrypts with a key that is not the session key the node holds", k == 0 ? 'A' : 'B'));
                }
            }
        } else if (op.k == "wire_connect") {
            const int i = static_cast<int>(op.at(0)), o = 1 - i;
            if (!ok_flag[i]) continue;  // the connector must know the responder's public key first
            bool connected = false;
            nodes[i]->run([&](en::Node& n) { connected = n.connect_peer(ids[o], ip_text(nodes[o]->actor.host), nodes[o]->port); }, 60 * kSec);
            if (connected) {
                ctx.probe("wire_handshake_completed");
                // the responder validated the offer on the wire: it has accepted the initiator's identity
                std::optional<bool> last;
                nodes[o]->run([&](en::Node& n) { last = n.last_handshake_success(ids[i]); });
                if (last && *last) ok_flag[o] = true;
                compare("after wire handshake");
            }
        } else if (op.k == "bad_public") {
            const int i = static_cast<int>(op.at(0)), o = 1 - i;
            const std::uint32_t bad[8] = {0, 1, kP, kP + 1, 0xffffffffu, kP - 1 + 2, 0x80000001u, kP + 2};
            const std::uint32_t v = bad[op.at(1) % 8];
            ctx.boundary("public_value_outside_open_interval");
            std::optional<std::array<std::uint8_t, 32>> before, after;
            bool ok = true;
            nodes[i]->run([&](en::Node& n) {
                before = n.session_key(ids[o]);
                ok = n.perform_handshake(ids[o], v, ref_solve_handshake_pow(ids[o], ids[i], v, difficulty));
                after = n.session_key(ids[o]);
            });
            // inside the cooldown of an earlier success the call may report the earlier result; what matters is
            // that the bad value never becomes key material
            if (before != after) ctx.violate("C12.invalid_public_changed_key", fmt("public value %u outside (1,p) changed the session key", v));
            if (ok && !before) ctx.violate("C12.invalid_public_accepted", fmt("public value %u outside (1,p) was accepted", v));
            if (op.at(2)) {
                // also over the wire, from a scripted initiator claiming the other node's id
                Actor s; s.start("bad", sk::ip(10, 0, 3, 3));
                bool acked = false;
                s.call([&] {
                    PeerConn cn;
                    if (!cn.open(ip_text(nodes[i]->actor.host), nodes[i]->port)) return;
                    cn.set_timeout(4000);
                    if (!cn.send_identity(make_id(0x99, 0x12)) || !cn.send_handshake(v, ref_solve_handshake_pow(make_id(0x99, 0x12), ids[i], v, difficulty))) return;
                    std::uint8_t hdr[16];
                    acked = cn.recv_all(hdr, 16) == 1;
                    cn.close_now();
                }, 60 * kSec);
                s.shutdown();
                if (acked) ctx.violate("C12.invalid_public_acknowledged_on_wire", fmt("public value %u outside (1,p) was acknowledged over the wire", v));
            }
        } else if (op.k == "restart") {
            const int i = static_cast<int>(op.at(0));
            nodes[i]->crash();
            graveyard.push_back(std::move(nodes[i]));
            ctx.fault("node_crash_restart");
            if (op.at(1)) { seed[i] = seed[i] * 2654435761u + 17; ctx.boundary("identity_seed_changed"); }
            ++generation[i];
            // same host, same peer id, same (or changed) identity seed; the listener gets a new port
            nodes[i] = std::make_unique<NodeProc>();
            nodes[i]->start(std::string(i == 0 ? "nodeA" : "nodeB") + ".r" + std::to_string(generation[i]), i == 0 ? sk::ip(10, 0, 1, 1) : sk::ip(10, 0, 1, 2), ids[i], cfg(i), 1000 * kMs, 300 * kMs);
            ok_flag[i] = false;      // the new instance knows nobody
            ok_flag[1 - i] = op.at(1) ? false : ok_flag[1 - i];  // the other side's belief is stale if the identity changed
        } else if (op.k == "adv") {
            sk::sleep_ns(op.at(0) * kMs);
        } else if (op.k == "dh") {
            const std::uint32_t a = 2 + static_cast<std::uint32_t>(op.at(0)) % (kP - 3), b = 2 + static_cast<std::uint32_t>(op.at(1)) % (kP - 3);
            using KE = en::network::KeyExchange;
            const auto k1 = KE::derive_shared_secret(a, KE::compute_public(b)), k2 = KE::derive_shared_secret(b, KE::compute_public(a));
            ctx.probe("dh_pairs_checked");
            if (k1.bytes != k2.bytes) ctx.violate("C12.dh_disagreement", fmt("derive_shared_secret(%u, g^%u) != derive_shared_secret(%u, g^%u)", a, b, b, a));
        }
    }
    for (int i = 0; i < 2; ++i) nodes[i]->stop();
}

Scenario make_c12() {
    Scenario s;
    s.id = "C12"; s.world = "W2"; s.level = "exploration";
    s.technique = "deterministic simulation: two real Nodes with seeded identity seeds and peer ids handshake through the API and over simulated TCP in both directions, with crash+restart of one side (same or changed seed) and byzantine public values; keys compared whenever both sides report success; preemptions aimed at the gap after a mutex release place the accept thread's handshake between the tick loop's steps";
    s.real_components = {"Node (perform_handshake, generate_handshake_work, connect_peer, handle_transport_handshake)", "KeyExchange", "KeyManager", "SessionManager"};
    s.stub_components = {"OS: threads -> fibers, sockets -> simulated TCP, clock, entropy"};
    s.assumptions = {"'every pair of private scalars' is sampled (seeded pairs per run), not enumerated"};
    s.rule = "plan = identity seeds, peer ids, PoW difficulty, network knobs + 2..8 ops (API handshake in either/both directions, wire connect, out-of-range public value via API and wire, crash+restart with same/changed seed, advance across the cooldown, DH agreement on a seeded scalar pair); non-trivial = an out-of-range public value was offered, a node was crashed, or a seed changed; distinct = plan hash; in a third of the runs the rotation interval is 5 s and most ops are `race`: both ends handshake, then one re-handshakes the way the node itself does (local handshake + connect) at a seeded offset (+10..-300 ms) from the receiver's tick at which the rotation of that session is due, while mutex releases are followed by long preemptions (rate 2..18 %, up to 300 ms); afterwards both ends must count rotation periods from that handshake, hold equal keys in equal periods, and their transport sessions must use the key they hold";
    s.gen = gen_c12; s.exec = exec_c12; s.kernel_knobs = net_knobs;
    s.quick_runs = 2500; s.thorough_runs = 100000; s.quick_secs = 45; s.thorough_secs = 900;
    return s;
}
Registrar reg_c12(make_c12);

}  // namespace
