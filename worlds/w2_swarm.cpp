// Swarm variant (see swarm_variant.hpp): real Nodes replicate through the repository's own protocol under faults.
#include "worlds/swarm_variant.hpp"
#include "worlds/net_common.hpp"

using namespace wl;

namespace wl {

namespace {
en::PeerId swarm_node_id(int i) { return make_id(static_cast<std::uint8_t>(0xA1 + i * 0x11), static_cast<std::uint8_t>(0x11 + i)); }
std::uint32_t swarm_host(int i) { return sk::ip(10, 0, 1, static_cast<std::uint8_t>(1 + i)); }
}  // namespace

Plan gen_swarm_variant(sk::Rng& r) {
    Plan p;
    p.knobs["swarm_variant"] = 1;
    p.knobs["nodes"] = r.range(2, 4);
    p.knobs["min_ttl"] = r.pick<std::int64_t>({2, 5, 10});
    p.knobs["max_ttl"] = r.pick<std::int64_t>({30, 120, 600});
    p.knobs["cleanup"] = r.pick<std::int64_t>({1, 2, 5});
    p.knobs["replicas"] = r.range(1, 3);
    p.knobs["threshold"] = r.range(1, 3);
    p.knobs["total"] = p.knobs["threshold"] + r.range(0, 2);
    p.knobs["tick_ms"] = r.pick<std::int64_t>({300, 700, 1000});
    p.knobs["lat_max_us"] = r.pick<std::int64_t>({0, 300, 5000, 40000});
    p.knobs["preempt"] = r.pick<std::int64_t>({0, 128, 512});
    p.knobs["short_io"] = r.pick<std::int64_t>({0, 128, 512});
    p.knobs["buf_min"] = r.pick<std::int64_t>({16384, 65536});
    p.knobs["buf_max"] = r.pick<std::int64_t>({65536, 262144});
    const std::int64_t n = p.knobs["nodes"], mn = p.knobs["min_ttl"], mx = p.knobs["max_ttl"];
    const int ops = static_cast<int>(r.range(3, 14));
    int stores = 0;
    for (int i = 0; i < ops; ++i) {
        Op op;
        const auto c = r.below(100);
        if (c < 26 || stores == 0) { op.k = "store"; op.a = {static_cast<std::int64_t>(r.below(static_cast<std::uint64_t>(n))), r.pick<std::int64_t>({0, 1, 100, 3000, 40000}), r.pick<std::int64_t>({0, mn, mn + 3, mn + 8, 25, mx, mx + 100})}; ++stores; }
        else if (c < 50) { op.k = "wait"; op.a = {r.pick<std::int64_t>({200, 900, 1500, 3000, 6000, 12000})}; }
        else if (c < 64) { op.k = "fetch"; op.a = {static_cast<std::int64_t>(r.below(static_cast<std::uint64_t>(n))), static_cast<std::int64_t>(r.below(4))}; }
        else if (c < 74) { op.k = "request"; op.a = {static_cast<std::int64_t>(r.below(static_cast<std::uint64_t>(n))), static_cast<std::int64_t>(r.below(4))}; }
        else if (c < 82) { op.k = "reset"; op.a = {static_cast<std::int64_t>(r.below(static_cast<std::uint64_t>(n))), static_cast<std::int64_t>(r.below(4))}; }
        else if (c < 90) { op.k = "partition"; op.a = {static_cast<std::int64_t>(r.below(static_cast<std::uint64_t>(n))), static_cast<std::int64_t>(r.below(static_cast<std::uint64_t>(n))), r.pick<std::int64_t>({500, 2500, 8000})}; }
        else if (c < 96) { op.k = "restart"; op.a = {static_cast<std::int64_t>(r.below(static_cast<std::uint64_t>(n))), r.pick<std::int64_t>({0, 500, 3000})}; }
        else { op.k = "wait_to_deadline"; op.a = {static_cast<std::int64_t>(r.below(4)), r.pick<std::int64_t>({-300, 0, 300, 1500})}; }
        p.ops.push_back(op);
    }
    return p;
}

sk::Knobs swarm_variant_knobs(const Plan& p) {
    sk::Knobs k;
    k.sock_buf_min = static_cast<std::uint32_t>(p.knob("buf_min", 16384));
    k.sock_buf_max = static_cast<std::uint32_t>(p.knob("buf_max", 262144));
    k.lat_max_ns = p.knob("lat_max_us", 1000) * 1000;
    k.preempt_per_1024 = static_cast<std::uint32_t>(p.knob("preempt", 128));
    k.short_io_per_1024 = static_cast<std::uint32_t>(p.knob("short_io", 128));
    k.max_steps = 6'000'000;
    return k;
}

void exec_swarm_variant(const Plan& p, Ctx& ctx, const std::string& focus) {
    const int n = static_cast<int>(p.knob("nodes", 3));
    const std::int64_t tick_ns = p.knob("tick_ms", 700) * kMs;
    auto cfg = [&](int i) {
        en::Config c = base_config(7100u + static_cast<std::uint32_t>(i));
        c.min_manifest_ttl = seconds(p.knob("min_ttl", 5)); c.max_manifest_ttl = seconds(p.knob("max_ttl", 120)); c.default_chunk_ttl = seconds(std::min<std::int64_t>(p.knob("max_ttl", 120), 40));
        c.cleanup_interval = seconds(p.knob("cleanup", 2));
        c.key_rotation_interval = seconds(3600);
        c.handshake_cooldown = seconds(1);
        c.fetch_retry_initial_backoff = seconds(1); c.fetch_retry_max_backoff = seconds(4); c.fetch_retry_success_interval = seconds(2); c.fetch_retry_attempt_limit = 6;
        c.fetch_availability_refresh = seconds(1); c.upload_reconsider_interval = seconds(1); c.upload_transfer_timeout = seconds(5);
        c.swarm_target_replicas = static_cast<std::uint16_t>(p.knob("replicas", 2)); c.swarm_min_providers = 1;
        c.shard_threshold = static_cast<std::uint8_t>(p.knob("threshold", 2)); c.shard_total = static_cast<std::uint8_t>(p.knob("total", 3));
        c.announce_min_interval = seconds(1); c.announce_burst_limit = 1000; c.announce_burst_window = seconds(1);
        return c;
    };
    auto report = [&](const std::string& prop, const std::string& what, const std::string& msg) {
        if (prop == focus) ctx.violate(prop + ".swarm." + what, msg);
        else ctx.probe("swarm_saw_violation_of_" + prop + "." + what);
    };

    std::vector<std::unique_ptr<NodeProc>> nodes(static_cast<std::size_t>(n));
    std::vector<std::unique_ptr<NodeProc>> graveyard;
    std::vector<int> generation(static_cast<std::size_t>(n), 0);
    auto start_node = [&](int i) {
        nodes[static_cast<std::size_t>(i)] = std::make_unique<NodeProc>();
        nodes[static_cast<std::size_t>(i)]->start("node" + std::to_string(i) + (generation[static_cast<std::size_t>(i)] ? ".r" + std::to_string(generation[static_cast<std::size_t>(i)]) : ""), swarm_host(i), swarm_node_id(i), cfg(i), tick_ns, sk::now_ns() + (137 + 211 * i) * kMs % tick_ns);
    };
    auto introduce = [&](int i, int j) {  // j becomes a routing contact of i
        NodeProc& a = *nodes[static_cast<std::size_t>(i)]; NodeProc& b = *nodes[static_cast<std::size_t>(j)];
        a.run([&](en::Node& node) {
            en::PeerContact ct{};
            ct.id = b.id; ct.address = ip_text(b.actor.host) + ":" + std::to_string(b.port);
            ct.expires_at = std::chrono::steady_clock::now() + std::chrono::hours(2);
            node.register_peer_contact(ct);
        });
    };
    for (int i = 0; i < n; ++i) start_node(i);
    for (int i = 0; i < n; ++i) for (int j = i + 1; j < n; ++j) if (!link_nodes(*nodes[static_cast<std::size_t>(i)], *nodes[static_cast<std::size_t>(j)])) { ctx.probe("swarm_link_failed"); }
    for (int i = 0; i < n; ++i) for (int j = 0; j < n; ++j) if (i != j) introduce(i, j);

    struct Chunk { en::ChunkId id; std::vector<std::uint8_t> payload; std::int64_t deadline; int publisher; std::string uri; };
    std::vector<Chunk> chunks;
    std::map<std::pair<int, int>, std::int64_t> first_held;  // (node, chunk) -> first time the node was seen holding it (this generation)
    std::uint64_t uniq = 1;
    const std::int64_t eps = 2 * kMs;

    auto check_all = [&](const char* when) {
        const std::int64_t now = sk::now_ns();
        for (int i = 0; i < n; ++i) {
            NodeProc& np = *nodes[static_cast<std::size_t>(i)];
            if (!np.actor.alive()) continue;
            for (std::size_t k = 0; k < chunks.size(); ++k) {
                const Chunk& ch = chunks[k];
                const auto key = en::chunk_id_to_string(ch.id);
                bool held = false; std::int64_t rec_exp = 0, shard_exp = -1, worst_contact = -1, pending_exp = -1;
                std::optional<en::ChunkData> got;
                np.run([&](en::Node& node) {
                    {
                        std::unique_lock<std::recursive_mutex> lock(node.scheduler_mutex_);
                        if (auto it = node.chunk_store_.chunks_.find(key); it != node.chunk_store_.chunks_.end()) { held = true; rec_exp = steady_to_sim(it->second.expires_at); }
                        if (auto it = node.dht_.shard_table_.find(key); it != node.dht_.shard_table_.end()) shard_exp = steady_to_sim(it->second.expires_at);
                        if (auto it = node.dht_.table_.find(key); it != node.dht_.table_.end()) for (auto& h : it->second.holders) worst_contact = std::max(worst_contact, steady_to_sim(h.expires_at));
                        if (auto it = node.pending_chunk_fetches_.find(key); it != node.pending_chunk_fetches_.end()) pending_exp = wall_to_sim(it->second.manifest_expires);
                    }
                    got = node.fetch_chunk(ch.id);
                });
                const std::string who = fmt("node %d, chunk %zu (%zu bytes, published by node %d, deadline %.3f s), %s at %.3f s", i, k, ch.payload.size(), ch.publisher, ch.deadline / 1e9, when, now / 1e9);
                if (held) {
                    auto fh = first_held.find({i, static_cast<int>(k)});
                    if (fh == first_held.end()) {
                        first_held[{i, static_cast<int>(k)}] = now;
                        if (i != ch.publisher) ctx.boundary("replica_acquired_over_the_wire");
                        // the previous check of this node was after the deadline: the copy arrived when nothing may serve it any more
                        if (i != ch.publisher && rec_exp > ch.deadline + eps) {}
                    }
                    if (rec_exp > ch.deadline + eps) report("C03", "replica_outlives_manifest", "the copy expires " + fmt("%.3f s", (rec_exp - ch.deadline) / 1e9) + " after the manifest: " + who);
                }
                if (got) {
                    std::vector<std::uint8_t> bytes(got->begin(), got->end());
                    if (bytes != ch.payload) report("C11", "wrong_bytes_returned", fmt("fetch_chunk returns %zu bytes that are not the stored payload: ", bytes.size()) + who);
                    if (now >= ch.deadline + eps) report("C01", "served_after_deadline", "fetch_chunk returns the chunk after its deadline: " + who);
                    ctx.probe(i == ch.publisher ? "publisher_reads_back" : "replica_reads_back");
                } else if (i == ch.publisher && held && now + eps < ch.deadline && generation[static_cast<std::size_t>(i)] == 0) {
                    report("C01", "live_not_served", fmt("the publisher does not return its own live chunk (record expires at %.3f s, key shares %s): ", rec_exp / 1e9, shard_exp < 0 ? "absent" : fmt("expire at %.3f s", shard_exp / 1e9).c_str()) + who);
                }
                if (shard_exp > ch.deadline + eps) report("C03", "key_shares_outlive_manifest", fmt("key-share record expires %.3f s after the manifest: ", (shard_exp - ch.deadline) / 1e9) + who);
                if (worst_contact > ch.deadline + eps) report("C03", "provider_contact_outlives_manifest", fmt("a provider contact expires %.3f s after the manifest: ", (worst_contact - ch.deadline) / 1e9) + who);
                if (pending_exp > ch.deadline + eps) report("C03", "pending_fetch_outlives_manifest", fmt("a pending fetch is kept until %.3f s after the manifest's expiry: ", (pending_exp - ch.deadline) / 1e9) + who);
            }
        }
    };

    for (auto& op : p.ops) {
        ++ctx.ops_done;
        if (op.k == "store") {
            const int i = static_cast<int>(op.at(0)) % n;
            NodeProc& np = *nodes[static_cast<std::size_t>(i)];
            Chunk ch;
            ch.id = make_id(static_cast<std::uint8_t>(uniq), 0xE1); ch.id[5] = static_cast<std::uint8_t>(uniq * 37);
            const auto pl = make_payload(static_cast<std::size_t>(op.at(1)), 330000 + uniq);
            ++uniq;
            ch.payload.assign(pl.begin(), pl.end());
            ch.publisher = i;
            en::protocol::Manifest m;
            np.run([&](en::Node& node) { m = node.store_chunk(ch.id, pl, seconds(op.at(2))); });
            ch.deadline = wall_to_sim(m.expires_at);
            ch.uri = en::protocol::encode_manifest(m);
            chunks.push_back(std::move(ch));
            ctx.probe("swarm_store");
        } else if (op.k == "wait") {
            sk::sleep_ns(op.at(0) * kMs);
        } else if (op.k == "wait_to_deadline") {
            if (chunks.empty()) continue;
            const Chunk& ch = chunks[static_cast<std::size_t>(op.at(0)) % chunks.size()];
            const std::int64_t target = ch.deadline + op.at(1) * kMs;
            if (target > sk::now_ns()) sk::sleep_ns(target - sk::now_ns());
            ctx.boundary("swarm_observed_at_a_deadline");
        } else if (op.k == "fetch") {
            // observation only: check_all below reads every chunk on every node
        } else if (op.k == "request") {
            if (chunks.empty()) continue;
            const int j = static_cast<int>(op.at(0)) % n;
            const Chunk& ch = chunks[static_cast<std::size_t>(op.at(1)) % chunks.size()];
            if (j == ch.publisher) continue;
            NodeProc& pub = *nodes[static_cast<std::size_t>(ch.publisher)];
            bool ok = false;
            nodes[static_cast<std::size_t>(j)]->run([&](en::Node& node) { ok = node.request_chunk(pub.id, ip_text(pub.actor.host), pub.port, ch.uri); });
            ctx.probe(ok ? "explicit_request_sent" : "explicit_request_refused");
        } else if (op.k == "reset") {
            const int i = static_cast<int>(op.at(0)) % n;
            if (sk::fault_reset_stream(nodes[static_cast<std::size_t>(i)]->actor.pid, static_cast<int>(op.at(1)))) ctx.fault("conn_reset_injected");
        } else if (op.k == "partition") {
            const int i = static_cast<int>(op.at(0)) % n, j = static_cast<int>(op.at(1)) % n;
            if (i == j) continue;
            sk::partition(swarm_host(i), swarm_host(j), true);
            ctx.fault("partition");
            sk::sleep_ns(op.at(2) * kMs);
            sk::partition(swarm_host(i), swarm_host(j), false);
        } else if (op.k == "restart") {
            const int i = static_cast<int>(op.at(0)) % n;
            nodes[static_cast<std::size_t>(i)]->crash();
            graveyard.push_back(std::move(nodes[static_cast<std::size_t>(i)]));
            ctx.fault("node_crash_restart");
            sk::sleep_ns(op.at(1) * kMs);
            ++generation[static_cast<std::size_t>(i)];
            for (auto it = first_held.begin(); it != first_held.end();) it = it->first.first == i ? first_held.erase(it) : std::next(it);
            start_node(i);
            for (int j = 0; j < n; ++j) if (j != i) { if (!link_nodes(*nodes[static_cast<std::size_t>(i)], *nodes[static_cast<std::size_t>(j)])) ctx.probe("swarm_relink_failed"); introduce(i, j); introduce(j, i); }
        }
        check_all(op.k.c_str());
    }
    // settle: beyond every deadline plus a cleanup on every node; nothing learned from any manifest may be left anywhere
    std::int64_t last = sk::now_ns();
    for (auto& ch : chunks) last = std::max(last, ch.deadline);
    sk::sleep_ns(last - sk::now_ns() + (p.knob("cleanup", 2) + 3) * kSec + 2 * tick_ns);
    check_all("after every deadline");
    for (int i = 0; i < n; ++i) {
        NodeProc& np = *nodes[static_cast<std::size_t>(i)];
        if (!np.actor.alive()) continue;
        for (std::size_t k = 0; k < chunks.size(); ++k) {
            const auto key = en::chunk_id_to_string(chunks[k].id);
            bool held = false, shards = false, pending = false, cached = false;
            np.run([&](en::Node& node) {
                std::unique_lock<std::recursive_mutex> lock(node.scheduler_mutex_);
                held = node.chunk_store_.chunks_.count(key) != 0;
                shards = node.dht_.shard_table_.count(key) != 0;
                pending = node.pending_chunk_fetches_.count(key) != 0;
                cached = node.manifest_cache_.count(key) != 0;
            });
            if (held || shards || pending || cached)
                report("C03", "state_left_after_expiry", fmt("node %d still has %s%s%s%s for chunk %zu %.3f s after its manifest expired and a cleanup ran", i, held ? "the chunk " : "", shards ? "key shares " : "", pending ? "a pending fetch " : "",
                                                              cached ? "the cached manifest " : "", k, (sk::now_ns() - chunks[k].deadline) / 1e9));
        }
    }
    // every request and transfer has been answered, has timed out or has lost its manifest by now: no slot may still be counted
    for (int i = 0; i < n; ++i) {
        NodeProc& np = *nodes[static_cast<std::size_t>(i)];
        if (!np.actor.alive()) continue;
        std::size_t fetch_slots = 0, upload_slots = 0, uploads = 0, pending = 0;
        np.run([&](en::Node& node) {
            std::unique_lock<std::recursive_mutex> lock(node.scheduler_mutex_);
            for (auto& [peer, cnt] : node.active_peer_requests_) fetch_slots += cnt;
            for (auto& [peer, cnt] : node.active_uploads_per_peer_) upload_slots += cnt;
            uploads = node.active_uploads_.size();
            pending = node.pending_chunk_fetches_.size();
        });
        if (pending == 0 && fetch_slots != 0)
            report("C24", "counter_not_zero", fmt("node %d has no pending fetch left but still counts %zu request(s) in flight to its providers", i, fetch_slots));
        if (uploads == 0 && upload_slots != 0)
            report("C23", "slot_leak", fmt("node %d has no upload in progress but still counts %zu upload slot(s) in use", i, upload_slots));
        if (uploads != 0) report("C23", "upload_never_released", fmt("node %d still lists %zu upload(s) as active %.1f s after the last chunk expired", i, uploads, (sk::now_ns() - last) / 1e9));
    }
    ctx.state(chunks.size() * 16 + static_cast<std::uint64_t>(n));
    for (auto& np : nodes) if (np) np->stop();
}

}  // namespace wl
