// The repository's src/main.cpp compiled as a library entry point: `main` becomes eph_cli_main,
// so that `eph serve` and `eph <command>` run as simulated processes. Code appended to this
// translation unit can reach main.cpp's anonymous-namespace helpers. No change to /repo.
#define main eph_cli_main
#include "main.cpp"
#undef main

#include <string>
#include <vector>

namespace verif_w4 {

int run_cli(const std::vector<std::string>& args) {
    std::vector<std::string> storage = args;
    std::vector<char*> argv;
    for (auto& a : storage) argv.push_back(a.data());
    argv.push_back(nullptr);
    return eph_cli_main(static_cast<int>(storage.size()), argv.data());
}

// process-global state of main.cpp is shared by every simulated process of a run (DESIGN §13)
void reset_main_globals() {
    g_run_loop.store(false, std::memory_order_release);
    g_shutdown_reason.store(ShutdownReason::None, std::memory_order_release);
}

bool serve_loop_running() { return g_run_loop.load(std::memory_order_acquire); }

}  // namespace verif_w4
