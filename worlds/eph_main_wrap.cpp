// The repository's src/main.cpp compiled as a library entry point: `main` becomes eph_cli_main,
// so that `eph serve` and `eph <command>` run as simulated processes. Code appended to this
// translation unit can reach main.cpp's anonymous-namespace helpers. No change to /repo.
// The daemon's Node is a local variable of main(). To let a scenario look at it (C27: nothing is
// registered by an unauthenticated FETCH; C34: what the daemon advertises) without any change to
// /repo, the class name main.cpp uses for its control server is re-pointed, in this translation unit
// only and after the real headers have been read, at a thin subclass that records which Node and
// which node mutex the simulated daemon process is serving.
#include "ephemeralnet/core/Node.hpp"
#include "ephemeralnet/daemon/ControlPlane.hpp"

#include <map>
#include <mutex>
#include <utility>

namespace sk { int current_pid(); }

namespace verif_w4 {
struct DaemonHandle { ephemeralnet::Node* node = nullptr; std::mutex* node_mutex = nullptr; };
std::map<int, DaemonHandle>& daemon_registry() { static std::map<int, DaemonHandle> r; return r; }
}  // namespace verif_w4

namespace ephemeralnet::daemon {
class TrackedControlServer : public ControlServer {
public:
    template <class... Rest>
    TrackedControlServer(Node& node, std::mutex& node_mutex, Rest&&... rest) : ControlServer(node, node_mutex, std::forward<Rest>(rest)...), pid_(sk::current_pid()) {
        verif_w4::daemon_registry()[pid_] = {&node, &node_mutex};
    }
    ~TrackedControlServer() { verif_w4::daemon_registry().erase(pid_); }
private:
    int pid_;
};
}  // namespace ephemeralnet::daemon

#define ControlServer TrackedControlServer
#define main eph_cli_main
#include "main.cpp"
#undef main
#undef ControlServer

#include <string>
#include <vector>

namespace verif_w4 {

int run_cli(const std::vector<std::string>& args) {
    std::vector<std::string> storage = args;
    std::vector<char*> argv;
    for (auto& a : storage) argv.push_back(a.data());
    argv.push_back(nullptr);
    return eph_cli_main(static_cast<int>(storage.size()), argv.data());
}

// process-global state of main.cpp is shared by every simulated process of a run (DESIGN §13)
void reset_main_globals() {
    g_run_loop.store(false, std::memory_order_release);
    g_shutdown_reason.store(ShutdownReason::None, std::memory_order_release);
}

bool serve_loop_running() { return g_run_loop.load(std::memory_order_acquire); }

// the CLI's own reconstruction + decryption + hash check (anonymous-namespace function of main.cpp)
std::optional<std::vector<std::uint8_t>> cli_decrypt(const ephemeralnet::protocol::Manifest& manifest, const ephemeralnet::protocol::ChunkPayload& payload) {
    return decrypt_chunk_with_manifest(manifest, payload);
}

ephemeralnet::Node* daemon_node(int pid) { auto it = daemon_registry().find(pid); return it == daemon_registry().end() ? nullptr : it->second.node; }
std::mutex* daemon_node_mutex(int pid) { auto it = daemon_registry().find(pid); return it == daemon_registry().end() ? nullptr : it->second.node_mutex; }
void reset_daemon_registry() { daemon_registry().clear(); }

}  // namespace verif_w4
