// A whole-swarm variant shared by C01, C03, C11, C23 and C24 (DESIGN §20): 2..4 real Nodes, fully meshed over simulated TCP,
// store chunks and replicate them through the repository's own announce -> request -> chunk -> acknowledge flow while
// connections are reset, pairs are partitioned and nodes crash and restart. The same invariants are evaluated on every
// node after every operation; a run reports only the violations of the property it was started for (`focus`).
#pragma once

#include "harness/harness.hpp"

namespace wl {

hz::Plan gen_swarm_variant(sk::Rng& r);
void exec_swarm_variant(const hz::Plan& p, hz::Ctx& ctx, const std::string& focus);
sk::Knobs swarm_variant_knobs(const hz::Plan& p);
inline bool is_swarm_variant(const hz::Plan& p) { return p.knob("swarm_variant", 0) != 0; }

// wraps a scenario so that one run in `one_in` is the swarm variant
inline void add_swarm_variant(hz::Scenario& s, std::uint32_t one_in) {
    auto gen = s.gen; auto exec = s.exec; auto kn = s.kernel_knobs;
    const std::string focus = s.id;
    s.gen = [gen, one_in](sk::Rng& r, hz::Tier t) { if (r.chance(1, one_in)) return gen_swarm_variant(r); return gen(r, t); };
    s.exec = [exec, focus](const hz::Plan& p, hz::Ctx& c) { if (is_swarm_variant(p)) exec_swarm_variant(p, c, focus); else exec(p, c); };
    s.kernel_knobs = [kn](const hz::Plan& p) { if (is_swarm_variant(p)) return swarm_variant_knobs(p); return kn ? kn(p) : sk::Knobs{}; };
    s.rule += "; one run in " + std::to_string(one_in) + " is the swarm variant: 2..4 real Nodes fully meshed over simulated TCP, 3..14 operations (store on a node, wait, local fetch on any node, explicit request from the publisher, connection reset, partition of a pair, crash + restart of a node), invariants on every node after every operation and after every deadline has passed";
    s.real_components.push_back("swarm variant: Node x2..4 (store_chunk, broadcast_manifest/deliver_manifest, handle_announce, schedule_assigned_fetch, handle_request, handle_chunk/receive_chunk, tick), SessionManager, KademliaTable, SwarmCoordinator");
}

}  // namespace wl
