// W2 — C13 (signed messages are accepted only with the exact MAC over the exact bytes) and
// C15 (messages round-trip through the wire codec, across protocol versions), observed on a real
// Node that receives frames from a scripted peer over the simulated TCP.
#include "worlds/net_common.hpp"
#include "worlds/ref_crypto.hpp"

#include <algorithm>

using namespace wl;
namespace pr = ephemeralnet::protocol;

namespace {

const en::PeerId kN = make_id(0xA1, 0x11);

sk::Knobs net_knobs2(const Plan& p) {
    sk::Knobs k;
    k.sock_buf_min = static_cast<std::uint32_t>(p.knob("buf_min", 64));
    k.sock_buf_max = static_cast<std::uint32_t>(p.knob("buf_max", 65536));
    k.lat_max_ns = p.knob("lat_max_us", 2000) * 1000;
    k.preempt_per_1024 = static_cast<std::uint32_t>(p.knob("preempt", 256));
    k.short_io_per_1024 = static_cast<std::uint32_t>(p.knob("short_io", 128));
    k.max_steps = 4'000'000;
    return k;
}
void gen_net2(Plan& p, sk::Rng& r) {
    p.knobs["buf_min"] = r.pick<std::int64_t>({8, 64, 4096});
    p.knobs["buf_max"] = r.pick<std::int64_t>({4096, 65536});
    p.knobs["lat_max_us"] = r.pick<std::int64_t>({0, 500, 5000});
    p.knobs["preempt"] = r.pick<std::int64_t>({0, 128, 512});
    p.knobs["short_io"] = r.pick<std::int64_t>({0, 128, 512});
}

// ================================================================ C13
Plan gen_c13(sk::Rng& r, Tier) {
    Plan p;
    gen_net2(p, r);
    const int n = static_cast<int>(r.range(4, 36));
    for (int i = 0; i < n; ++i) {
        Op op;
        op.k = "frame";
        // kind: 0 pristine, 1 bit flip, 2 truncate, 3 extend, 4 swap ranges, 5 other key, 6 valid MAC over undecodable bytes, 7 MAC of a prefix
        // kind 9: the MAC's own bytes rearranged or changed so that simple folds of it (XOR / sum over bytes, 16-, 32- or 64-bit words) stay equal
        const std::int64_t kind = r.chance(2, 5) ? 0 : r.range(1, 9);
        op.a = {kind, static_cast<std::int64_t>(r.below(100000)), r.range(1, 40), static_cast<std::int64_t>(r.below(8))};
        p.ops.push_back(op);
    }
    // direct calls of the signed codec with keys of every length (the session layer only ever produces 32-byte keys):
    // key length, position of the byte in which the "different key" differs, message variant
    const int napi = static_cast<int>(r.range(1, 3));
    for (int i = 0; i < napi; ++i) {
        Op op;
        op.k = "api";
        op.a = {r.chance(1, 3) ? r.pick<std::int64_t>({0, 1, 31, 32, 33, 63, 64, 65, 128}) : r.range(0, 130), static_cast<std::int64_t>(r.below(1000)), static_cast<std::int64_t>(r.below(1u << 30)), static_cast<std::int64_t>(r.below(4))};
        p.ops.insert(p.ops.begin() + static_cast<long>(r.below(p.ops.size() + 1)), op);
    }
    return p;
}

// One direct round through encode_signed/decode_signed with a key of arbitrary length.
void api_round(const Op& op, Ctx& ctx) {
    sk::Rng g(static_cast<std::uint64_t>(op.at(2)) * 2654435761u + 13);
    std::vector<std::uint8_t> key(static_cast<std::size_t>(op.at(0)));
    for (auto& b : key) b = static_cast<std::uint8_t>(g.below(256));
    pr::Message m{};
    m.version = pr::kCurrentMessageVersion;
    switch (op.at(3)) {
        case 0: { m.type = pr::MessageType::Acknowledge; m.payload = pr::AcknowledgePayload{make_id(static_cast<std::uint8_t>(g.below(256)), 0x13), make_id(0x14, static_cast<std::uint8_t>(g.below(256))), g.chance(1, 2)}; break; }
        case 1: { m.type = pr::MessageType::Request; m.payload = pr::RequestPayload{make_id(static_cast<std::uint8_t>(g.below(256)), 0x15), make_id(0x16, 1)}; break; }
        case 2: { m.type = pr::MessageType::Chunk; pr::ChunkPayload cp{}; cp.chunk_id = make_id(3, 0x17); cp.data.resize(g.below(700)); for (auto& b : cp.data) b = static_cast<std::uint8_t>(g.below(256)); cp.ttl = seconds(static_cast<std::int64_t>(g.below(5000))); m.payload = cp; break; }
        default: { m.type = pr::MessageType::HandshakeAck; m.payload = pr::HandshakeAckPayload{true, 4, static_cast<std::uint32_t>(g.below(1u << 31))}; break; }
    }
    const auto bytes = pr::encode_signed(m, std::span<const std::uint8_t>(key));
    ctx.boundary(key.size() > 64 ? "api_key_longer_than_a_block" : key.size() > 32 ? "api_key_33_to_64_bytes" : key.size() == 32 ? "api_key_32_bytes" : "api_key_shorter_than_32_bytes");
    if (bytes.size() < 32) { ctx.violate("C13.api.no_mac", fmt("encode_signed returned %zu bytes", bytes.size())); return; }
    const auto want = ref::hmac_sha256(key.data(), key.size(), bytes.data(), bytes.size() - 32);
    if (!std::equal(want.begin(), want.end(), bytes.end() - 32))
        ctx.violate("C13.api.mac_is_not_hmac_sha256", fmt("encode_signed under a %zu-byte key appended 32 bytes that are not HMAC-SHA256 of the preceding %zu", key.size(), bytes.size() - 32));
    if (!pr::decode_signed(std::span<const std::uint8_t>(bytes), std::span<const std::uint8_t>(key)))
        ctx.violate("C13.api.rejected_under_signing_key", fmt("decode_signed rejects what encode_signed produced under the same %zu-byte key", key.size()));
    // the same body with the reference MAC must be accepted, too
    {
        auto b2 = bytes;
        std::copy(want.begin(), want.end(), b2.end() - 32);
        if (!pr::decode_signed(std::span<const std::uint8_t>(b2), std::span<const std::uint8_t>(key)))
            ctx.violate("C13.api.reference_mac_rejected", fmt("decode_signed rejects a buffer whose last 32 bytes are HMAC-SHA256 of the rest under the %zu-byte key", key.size()));
    }
    // different keys: one byte changed (anywhere, also beyond byte 32), cut to 32 bytes, extended by one byte
    auto different = [&](std::vector<std::uint8_t> k2, const char* how) {
        if (k2 == key) return;
        // HMAC pads keys of at most 64 bytes with zeros: a key and the same key followed by zero bytes are the same HMAC key by definition
        auto strip = [](std::vector<std::uint8_t> k) { if (k.size() <= 64) while (!k.empty() && k.back() == 0) k.pop_back(); return k; };
        if (strip(k2) == strip(key)) return;
        if (pr::decode_signed(std::span<const std::uint8_t>(bytes), std::span<const std::uint8_t>(k2)))
            ctx.violate("C13.api.accepted_under_different_key", fmt("a message signed under a %zu-byte key is accepted under a different key (%s)", key.size(), how));
    };
    if (!key.empty()) { auto k2 = key; const std::size_t j = static_cast<std::size_t>(op.at(1)) % key.size(); k2[j] ^= static_cast<std::uint8_t>(1u << (op.at(2) % 8)); different(k2, fmt("byte %zu changed", j).c_str()); }
    if (!key.empty()) { auto k2 = key; k2.back() ^= 0x01; different(k2, "last byte changed"); }
    if (key.size() > 32) { auto k2 = key; k2.resize(32); different(k2, "cut to its first 32 bytes"); }
    { auto k2 = key; k2.push_back(static_cast<std::uint8_t>(1 + g.below(255))); different(k2, "one byte appended"); }
}

void exec_c13(const Plan& p, Ctx& ctx) {
    NodeProc N;
    en::Config c = base_config(88);
    c.key_rotation_interval = seconds(3600);
    N.start("node", sk::ip(10, 0, 1, 1), kN, c, 1000 * kMs, 200 * kMs);
    std::uint32_t npub = 0;
    N.run([&](en::Node& n) { npub = n.public_identity(); });
    const PeerIdentity me = PeerIdentity::make(0x41, 7000003);
    const PeerIdentity other = PeerIdentity::make(0x42, 8000009);
    const auto other_key = ref_session_key(other.scalar, other.pub, npub);
    Actor script;
    script.start("peer", sk::ip(10, 0, 3, 1));
    PeerConn cn;
    bool shook = false;
    script.call([&] { shook = scripted_handshake(cn, me, kN, npub, 0, ip_text(N.actor.host), N.port); }, 60 * kSec);
    if (!shook) { ctx.violate("C13.setup_failed", "honest scripted handshake failed: " + cn.last_error); script.shutdown(); N.stop(); return; }
    int score0 = 0;
    N.run([&](en::Node& n) { score0 = n.reputation_score(me.id); });

    int pristine = 0, damaged = 0;
    std::uint64_t seq = 1;
    for (auto& op : p.ops) {
        ++ctx.ops_done;
        if (op.k == "api") { api_round(op, ctx); continue; }
        if (pristine >= 40 && op.at(0) == 0) continue;  // keep the score above the clamp
        pr::Message m{};
        m.version = pr::kCurrentMessageVersion;
        m.type = pr::MessageType::Acknowledge;
        pr::AcknowledgePayload ack{};
        ack.chunk_id = make_id(static_cast<std::uint8_t>(seq), static_cast<std::uint8_t>(seq >> 8));
        ++seq;
        ack.peer_id = me.id;
        ack.accepted = false;
        m.payload = ack;
        auto bytes = pr::encode_signed(m, std::span<const std::uint8_t>(cn.key));
        const std::size_t len = bytes.size();
        const std::size_t pos = static_cast<std::size_t>(op.at(1)) % len;
        bool is_pristine = false;
        switch (op.at(0)) {
            case 0: {
                is_pristine = true;
                // the MAC the codec appended must be HMAC-SHA256 (RFC 2104) of the preceding bytes, by an implementation that shares nothing with the repository's
                const auto want = ref::hmac_sha256(cn.key.data(), cn.key.size(), bytes.data(), len - 32);
                if (!std::equal(want.begin(), want.end(), bytes.begin() + static_cast<long>(len - 32)))
                    ctx.violate("C13.mac_is_not_hmac_sha256", fmt("encode_signed appended 32 bytes that are not HMAC-SHA256 of the %zu preceding bytes under the session key", len - 32));
                if (op.at(3) % 2) {  // and a frame signed by that implementation must be accepted
                    std::copy(want.begin(), want.end(), bytes.begin() + static_cast<long>(len - 32));
                    ctx.boundary("pristine_frame_signed_by_the_reference_hmac");
                }
                break;
            }
            case 1: bytes[pos] ^= static_cast<std::uint8_t>(1u << (op.at(3) % 8)); if (pos >= len - 32) ctx.boundary("bit_flip_inside_mac"); else ctx.boundary("bit_flip_inside_body"); break;
            case 2: bytes.resize(len - static_cast<std::size_t>(std::min<std::int64_t>(op.at(2), static_cast<std::int64_t>(len)))); ctx.boundary("truncated"); break;
            case 3: for (int i = 0; i < op.at(2); ++i) bytes.push_back(static_cast<std::uint8_t>(i * 31 + op.at(3))); ctx.boundary("extended"); break;
            case 4: {
                const std::size_t a = pos % (len / 2), b = len / 2 + (pos % (len / 2));
                if (bytes[a] == bytes[b]) { bytes[a] ^= 0x80; }
                std::swap(bytes[a], bytes[b]);
                ctx.boundary("bytes_swapped");
                break;
            }
            case 5: bytes = pr::encode_signed(m, std::span<const std::uint8_t>(other_key)); ctx.boundary("signed_with_other_key"); break;
            case 6: {
                // exact MAC, but over bytes that do not decode (body cut short, then re-signed)
                auto body = pr::encode(m);
                body.resize(body.size() - static_cast<std::size_t>(std::min<std::int64_t>(op.at(2), 30)));
                const auto mac = ref::hmac_sha256(cn.key.data(), cn.key.size(), body.data(), body.size());
                bytes = body;
                bytes.insert(bytes.end(), mac.begin(), mac.end());
                ctx.boundary("valid_mac_over_undecodable_body");
                break;
            }
            case 9: {
                // The MAC keeps every byte value it had (or changes two bytes by opposite amounts), only not where it was: a comparison
                // that reduces the difference first (XOR- or sum-folds words and tests the fold) cannot tell. Sub-kind from op.at(3).
                std::uint8_t* mac = bytes.data() + (len - 32);
                const std::size_t i = static_cast<std::size_t>(op.at(1)) % 32;
                const auto before = std::vector<std::uint8_t>(mac, mac + 32);
                switch (op.at(3) % 8) {
                    case 0: std::swap(mac[i % 24], mac[i % 24 + 8]); break;                                   // two bytes one 64-bit lane apart
                    case 1: std::swap(mac[i % 16], mac[i % 16 + 16]); break;                                  // two lanes apart
                    case 2: { std::uint8_t w[8]; std::memcpy(w, mac, 8); std::memmove(mac, mac + 8, 24); std::memcpy(mac + 24, w, 8); break; }   // 64-bit words rotated
                    case 3: { const std::uint8_t mask = static_cast<std::uint8_t>(1u << (op.at(2) % 8)); mac[i % 24] ^= mask; mac[i % 24 + 8] ^= mask; break; }  // same mask, same lane position
                    case 4: std::swap(mac[i % 28], mac[i % 28 + 4]); break;                                   // one 32-bit word apart
                    case 5: { mac[i % 31] = static_cast<std::uint8_t>(mac[i % 31] + 1); mac[i % 31 + 1] = static_cast<std::uint8_t>(mac[i % 31 + 1] - 1); break; }  // byte sum preserved
                    case 6: std::reverse(mac, mac + 32); break;
                    default: std::swap(mac[i % 31], mac[i % 31 + 1]); break;                                  // neighbours
                }
                if (std::equal(before.begin(), before.end(), mac)) mac[i] ^= 0x01;  // the rearrangement was the identity for this MAC: fall back to a bit flip
                ctx.boundary("mac_rearranged_fold_preserving");
                break;
            }
            case 8: {
                // signed with a key that differs from the session key in a single bit
                auto near = cn.key;
                near[static_cast<std::size_t>(op.at(1)) % 32] ^= static_cast<std::uint8_t>(1u << (op.at(3) % 8));
                bytes = pr::encode_signed(m, std::span<const std::uint8_t>(near));
                ctx.boundary("signed_with_key_one_bit_off");
                break;
            }
            default: {
                // MAC computed over a proper prefix of the body
                auto body = pr::encode(m);
                const auto mac = ref::hmac_sha256(cn.key.data(), cn.key.size(), body.data(), body.size() - 1);
                bytes = body;
                bytes.insert(bytes.end(), mac.begin(), mac.end());
                ctx.boundary("mac_over_prefix");
                break;
            }
        }
        if (is_pristine) ++pristine; else ++damaged;
        bool sent = false;
        script.call([&] { sent = cn.send_plain(bytes); }, 60 * kSec);
        if (!sent) { ctx.violate("C13.session_lost", "the honest session broke while sending frames: " + cn.last_error); break; }
    }
    // barrier: a pristine REQUEST is answered on the same ordered session
    bool synced = false;
    script.call([&] {
        pr::Message m{};
        m.type = pr::MessageType::Request;
        m.payload = pr::RequestPayload{make_id(0xCC, 0x99), me.id};
        cn.set_timeout(20000);
        if (!cn.send_signed(m)) return;
        for (int i = 0; i < 8; ++i) { auto r = cn.recv_message(); if (!r) return; if (r->type == pr::MessageType::Acknowledge) { synced = true; return; } }
    }, 120 * kSec);
    int score = 0;
    N.run([&](en::Node& n) { score = n.reputation_score(me.id); });
    if (!synced) ctx.violate("C13.session_lost", "no answer to the closing barrier request: " + cn.last_error);
    else {
        const int expected = score0 - 2 * pristine;
        ctx.probe("pristine_frames", static_cast<std::uint64_t>(pristine));
        ctx.probe("damaged_frames", static_cast<std::uint64_t>(damaged));
        if (score < expected) ctx.violate("C13.damaged_frame_accepted", fmt("reputation %d after %d pristine and %d damaged negative acknowledgements; %d expected: a damaged frame was acted upon", score, pristine, damaged, expected));
        if (score > expected) ctx.violate("C13.pristine_frame_rejected", fmt("reputation %d after %d pristine and %d damaged negative acknowledgements; %d expected: a pristine frame was not acted upon", score, pristine, damaged, expected));
    }
    ctx.state(static_cast<std::uint64_t>(pristine * 64 + damaged));
    script.call([&] { cn.close_now(); });
    script.shutdown();
    N.stop();
}

Scenario make_c13() {
    Scenario s;
    s.id = "C13"; s.world = "W2"; s.level = "exploration";
    s.technique = "deterministic simulation: a scripted peer with a valid session streams pristine and damaged signed frames to a real Node over simulated TCP; acceptance is read end-to-end from the public reputation score (each accepted negative acknowledgement costs a fixed penalty)";
    s.real_components = {"Node (handle_transport_message, handle_acknowledge)", "SessionManager receive_loop", "Message::decode_signed", "HmacSha256::verify", "ReputationManager"};
    s.stub_components = {"OS: threads -> fibers, sockets -> simulated TCP, clock, entropy", "damage is applied to the signed plaintext before transport encryption (equivalent to in-flight damage under a stream cipher)"};
    s.assumptions = {"acceptance is observed through the reputation score; at most 40 pristine frames per run so that the score stays above its clamp"};
    s.rule = "plan = network knobs + 4..36 frames, each pristine or damaged (bit flip anywhere incl. the MAC, truncation, extension, byte swap, the MAC's own bytes rearranged so that XOR/sum folds over 8/16/32/64-bit words are preserved, another peer's key, a key one bit off, exact MAC over undecodable bytes, MAC over a prefix; the MACs the harness computes and the check of the MAC the codec appended use an independent HMAC-SHA256 written from RFC 2104/FIPS 180-4) + 1..3 direct encode_signed/decode_signed rounds with keys of 0..130 bytes (same key accepts, reference MAC accepts, keys differing in one byte anywhere / cut to 32 bytes / extended reject); non-trivial = at least one damaged frame; distinct = plan hash";
    s.gen = gen_c13; s.exec = exec_c13; s.kernel_knobs = net_knobs2;
    s.quick_runs = 3000; s.thorough_runs = 150000; s.quick_secs = 40; s.thorough_secs = 900;
    return s;
}
Registrar reg_c13(make_c13);

// ================================================================ C15
bool same_message(const pr::Message& a, const pr::Message& b, std::string& why) {
    if (a.type != b.type) { why = "type"; return false; }
    if (a.payload.index() != b.payload.index()) { why = "payload kind"; return false; }
    if (auto* x = std::get_if<pr::AnnouncePayload>(&a.payload)) {
        auto* y = std::get_if<pr::AnnouncePayload>(&b.payload);
        if (x->chunk_id != y->chunk_id) { why = "announce.chunk_id"; return false; }
        if (x->peer_id != y->peer_id) { why = "announce.peer_id"; return false; }
        if (x->endpoint != y->endpoint) { why = "announce.endpoint"; return false; }
        if (x->ttl != y->ttl) { why = "announce.ttl"; return false; }
        if (x->manifest_uri != y->manifest_uri) { why = "announce.manifest_uri"; return false; }
        if (x->assigned_shards != y->assigned_shards) { why = "announce.assigned_shards"; return false; }
        if (b.version >= 3 && x->work_nonce != y->work_nonce) { why = "announce.work_nonce"; return false; }
    } else if (auto* x = std::get_if<pr::RequestPayload>(&a.payload)) {
        auto* y = std::get_if<pr::RequestPayload>(&b.payload);
        if (x->chunk_id != y->chunk_id || x->requester != y->requester) { why = "request"; return false; }
    } else if (auto* x = std::get_if<pr::ChunkPayload>(&a.payload)) {
        auto* y = std::get_if<pr::ChunkPayload>(&b.payload);
        if (x->chunk_id != y->chunk_id) { why = "chunk.chunk_id"; return false; }
        if (x->data != y->data) { why = "chunk.data"; return false; }
        if (x->ttl != y->ttl) { why = "chunk.ttl"; return false; }
    } else if (auto* x = std::get_if<pr::AcknowledgePayload>(&a.payload)) {
        auto* y = std::get_if<pr::AcknowledgePayload>(&b.payload);
        if (x->chunk_id != y->chunk_id || x->peer_id != y->peer_id || x->accepted != y->accepted) { why = "acknowledge"; return false; }
    } else if (auto* x = std::get_if<pr::TransportHandshakePayload>(&a.payload)) {
        auto* y = std::get_if<pr::TransportHandshakePayload>(&b.payload);
        if (x->public_identity != y->public_identity || x->work_nonce != y->work_nonce || x->requested_version != y->requested_version) { why = "handshake"; return false; }
    } else if (auto* x = std::get_if<pr::HandshakeAckPayload>(&a.payload)) {
        auto* y = std::get_if<pr::HandshakeAckPayload>(&b.payload);
        if (x->accepted != y->accepted || x->negotiated_version != y->negotiated_version || x->responder_public != y->responder_public) { why = "handshake_ack"; return false; }
    }
    return true;
}

Plan gen_c15(sk::Rng& r, Tier) {
    Plan p;
    gen_net2(p, r);
    // two real nodes answer each other from their reader threads with blocking sends; with socket buffers
    // smaller than a frame they can block each other for good. That liveness hazard is examined under C35;
    // the codec property is explored with buffers that hold a frame.
    p.knobs["buf_min"] = 16384; p.knobs["buf_max"] = r.pick<std::int64_t>({16384, 262144});
    p.knobs["node_version"] = r.pick<std::int64_t>({0, 1, 2, 3, 4});
    p.knobs["node_min"] = r.pick<std::int64_t>({1, 1, 2, 3});
    p.knobs["peer_node_version"] = r.pick<std::int64_t>({0, 2, 3, 4});
    const int n = static_cast<int>(r.range(3, 16));
    for (int i = 0; i < n; ++i) {
        Op op;
        if (r.chance(4, 5)) {
            op.k = "msg";  // type, version, variant, size
            op.a = {r.range(1, 6), r.pick<std::int64_t>({0, 1, 2, 3, 3, 4, 4, 5, 17, 255}), static_cast<std::int64_t>(r.below(1000)), r.pick<std::int64_t>({0, 1, 40, 300, 5000})};
        } else {
            op.k = "node_store";  // a real publisher node (configured version) announces to the real receiver
            op.a = {static_cast<std::int64_t>(r.below(3)), r.range(1, 200)};
        }
        p.ops.push_back(op);
    }
    return p;
}

void exec_c15(const Plan& p, Ctx& ctx) {
    // receiver R (version knobs) + a second real node S with its own configured version
    NodeProc R, S;
    en::Config cr = base_config(91), cs = base_config(92);
    cr.protocol_message_version = static_cast<std::uint8_t>(p.knob("node_version", 0));
    cr.protocol_min_supported_version = static_cast<std::uint8_t>(p.knob("node_min", 1));
    cs.protocol_message_version = static_cast<std::uint8_t>(p.knob("peer_node_version", 0));
    cr.key_rotation_interval = cs.key_rotation_interval = seconds(3600);
    cr.announce_min_interval = seconds(1); cr.announce_burst_limit = 1000;
    cr.min_manifest_ttl = cs.min_manifest_ttl = seconds(1);
    const en::PeerId kS = make_id(0xB2, 0x22);
    R.start("recv", sk::ip(10, 0, 1, 1), kN, cr, 1000 * kMs, 100 * kMs);
    S.start("pub", sk::ip(10, 0, 1, 2), kS, cs, 1000 * kMs, 300 * kMs);
    std::uint32_t rpub = 0;
    R.run([&](en::Node& n) { rpub = n.public_identity(); });
    const bool linked = link_nodes(S, R);
    const PeerIdentity me = PeerIdentity::make(0x51, 9000011);
    Actor script;
    script.start("peer", sk::ip(10, 0, 3, 1));
    PeerConn cn;
    bool shook = false;
    script.call([&] { shook = scripted_handshake(cn, me, kN, rpub, 0, ip_text(R.actor.host), R.port); }, 60 * kSec);
    if (!shook) { ctx.violate("C15.setup_failed", "scripted handshake failed: " + cn.last_error); script.shutdown(); R.stop(); S.stop(); return; }
    const std::uint8_t minv = std::max<std::uint8_t>(static_cast<std::uint8_t>(p.knob("node_min", 1)), 1);

    std::vector<pr::Message> sent;
    std::uint64_t tag = 1;
    for (auto& op : p.ops) {
        ++ctx.ops_done;
        if (op.k == "msg") {
            pr::Message m{};
            m.version = static_cast<std::uint8_t>(op.at(1));
            const std::uint64_t v = static_cast<std::uint64_t>(op.at(2)) + (tag++ << 16);
            const std::size_t sz = static_cast<std::size_t>(op.at(3));
            switch (op.at(0)) {
                case 1: {
                    m.type = pr::MessageType::Announce;
                    pr::AnnouncePayload a{};
                    a.chunk_id = make_id(static_cast<std::uint8_t>(v), 0x21); a.peer_id = me.id;
                    // every variable-length field is empty in some variants (all three at once in 1 of 32)
                    const auto var = static_cast<std::uint64_t>(op.at(2));
                    a.endpoint = (var & 1) ? std::string{} : std::string(sz % 200, 'e') + ":" + std::to_string(v % 60000);
                    a.ttl = seconds(static_cast<std::int64_t>(v % 100000));
                    // the ends of the wire ranges (TTL is a u32, the nonce a u64, lengths are u32) in one variant out of eight
                    if ((var >> 5) % 8 == 3) { static const std::int64_t edge[] = {0, 1, 0x7fffffffLL, 0x80000000LL, 0xfffffffeLL, 0xffffffffLL}; a.ttl = seconds(edge[v % 6]); ctx.boundary("ttl_at_wire_range_edge"); }
                    a.manifest_uri = (var & 2) ? std::string{} : "eph://" + std::string(sz, 'm') + std::to_string(v);
                    const std::size_t shard_count = ((var >> 2) & 7) == 0 ? 0 : ((var >> 2) & 7) == 7 ? 40 : v % 7;
                    for (std::size_t i = 0; i < shard_count; ++i) a.assigned_shards.push_back(static_cast<std::uint8_t>(i + v));
                    if (a.endpoint.empty() && a.manifest_uri.empty() && a.assigned_shards.empty()) ctx.boundary("announce_all_variable_fields_empty");
                    a.work_nonce = v * 0x9e3779b97f4a7c15ULL;
                    if ((var >> 5) % 8 == 5) { static const std::uint64_t edge[] = {0, 1, 0xffffffffULL, 0x100000000ULL, 0x7fffffffffffffffULL, 0xffffffffffffffffULL}; a.work_nonce = edge[v % 6]; ctx.boundary("nonce_at_wire_range_edge"); }
                    if ((var >> 5) % 8 == 6) { a.assigned_shards.clear(); for (int i = 0; i < 255; ++i) a.assigned_shards.push_back(static_cast<std::uint8_t>(i)); a.endpoint = std::string(65535, 'E'); ctx.boundary("announce_with_255_shards_and_64k_endpoint"); }
                    m.payload = a;
                    break;
                }
                case 2: m.type = pr::MessageType::Request; m.payload = pr::RequestPayload{make_id(static_cast<std::uint8_t>(v), 0x22), me.id}; break;
                case 3: { m.type = pr::MessageType::Chunk; pr::ChunkPayload c{}; c.chunk_id = make_id(static_cast<std::uint8_t>(v), 0x23); c.data = make_payload(sz, v); c.ttl = seconds(static_cast<std::int64_t>(v % 4000000000ULL)); if (v % 5 == 0) { static const std::int64_t edge[] = {0, 0x7fffffffLL, 0x80000000LL, 0xffffffffLL}; c.ttl = seconds(edge[(v / 5) % 4]); } m.payload = c; break; }
                case 4: m.type = pr::MessageType::Acknowledge; m.payload = pr::AcknowledgePayload{make_id(static_cast<std::uint8_t>(v), 0x24), me.id, (v & 1) != 0}; break;
                case 5: m.type = pr::MessageType::TransportHandshake; m.payload = pr::TransportHandshakePayload{static_cast<std::uint32_t>(v * 2654435761u), v * 77, static_cast<std::uint8_t>(v)}; break;
                default: m.type = pr::MessageType::HandshakeAck; m.payload = pr::HandshakeAckPayload{(v & 1) != 0, static_cast<std::uint8_t>(v >> 1), static_cast<std::uint32_t>(v * 40503u)}; break;
            }
            if (m.version == 3 && m.type == pr::MessageType::Announce) ctx.boundary("version3_announce");
            if (m.version == 0 || m.version > 4) ctx.boundary("version_outside_1_4");
            bool ok = false;
            script.call([&] { ok = cn.send_signed(m); }, 60 * kSec);
            if (!ok) { ctx.violate("C15.session_lost", "session broke: " + cn.last_error); break; }
            sent.push_back(m);
        } else if (op.k == "node_store" && linked) {
            // real node-to-node announce at S's configured version: R must be able to act on it
            const auto id = make_id(static_cast<std::uint8_t>(0x80 + op.at(0)), 0x31);
            en::PeerContact ct{};
            ct.id = kN; ct.address = ip_text(R.actor.host) + ":" + std::to_string(R.port);
            ct.expires_at = steady_at(sk::now_ns() + 600 * kSec);
            bool already = false;
            R.run([&](en::Node& n) { already = n.manifest_cache_.count(en::chunk_id_to_string(id)) != 0; });
            if (already) continue;
            sk::sleep_ns(1100 * kMs);  // stay outside the receiver's announce throttle (min interval 1 s): that is C21's subject
            S.run([&](en::Node& n) { n.register_peer_contact(ct); n.store_chunk(id, make_payload(static_cast<std::size_t>(op.at(1)), tag++), seconds(300)); }, 120 * kSec);
            bool delivered = false;
            S.run([&](en::Node& n) { auto pl = n.swarm_plan(id); delivered = pl && pl->delivered_peers.count(en::peer_id_to_string(kN)) != 0; });
            if (!delivered) { ctx.probe("node_announce_not_sent"); continue; }
            ctx.probe("node_announce_sent");
            if (p.knob("peer_node_version") == 3) ctx.boundary("real_node_announces_at_version3");
            bool got = false;
            for (int i = 0; i < 100 && !got; ++i) {
                sk::sleep_ns(100 * kMs);
                R.run([&](en::Node& n) { got = n.manifest_cache_.count(en::chunk_id_to_string(id)) != 0; });
            }
            // the announce is only actionable if R supports the version S used
            std::uint8_t sv = static_cast<std::uint8_t>(p.knob("peer_node_version", 0));
            if (sv == 0) sv = 4;
            if (!got && sv >= minv)
                ctx.violate("C15.node_announce_lost", fmt("a real node announcing at protocol version %u delivered an ANNOUNCE that the receiving node could not act on", sv));
        }
    }
    // barrier + collect
    bool synced = false;
    script.call([&] {
        pr::Message m{};
        m.type = pr::MessageType::Request;
        m.payload = pr::RequestPayload{make_id(0xCC, 0x99), me.id};
        cn.set_timeout(30000);
        if (!cn.send_signed(m)) return;
        for (int i = 0; i < 64; ++i) { auto r = cn.recv_message(); if (!r) return; if (auto* a = std::get_if<pr::AcknowledgePayload>(&r->payload); a && a->chunk_id == make_id(0xCC, 0x99)) { synced = true; return; } }
    }, 180 * kSec);
    if (!synced) ctx.probe("barrier_missed");
    // every frame that reached R's handler from the scripted peer, decoded as R decodes it
    std::size_t idx = 0;
    for (auto& tm : R.inbox) {
        if (tm.peer_id != me.id) continue;
        if (idx >= sent.size()) break;
        const auto& orig = sent[idx++];
        const auto dec = pr::decode_signed(tm.payload, std::span<const std::uint8_t>(cn.key));
        ctx.probe("frames_compared");
        const std::uint8_t want_version = orig.version < 1 ? 1 : (orig.version > 4 ? 4 : orig.version);
        if (!dec) { ctx.violate("C15.undecodable", fmt("message type %d encoded at version %u does not decode on the receiving node", (int)orig.type, orig.version)); continue; }
        if (dec->version != want_version) ctx.violate("C15.version_not_clamped", fmt("message encoded with version %u arrived as version %u, expected %u", orig.version, dec->version, want_version));
        std::string why;
        pr::Message ref = orig;
        ref.version = want_version;
        if (!same_message(*dec, ref, why)) ctx.violate("C15.field_mismatch", fmt("message type %d version %u: field %s differs after the wire", (int)orig.type, orig.version, why.c_str()));
    }
    if (synced && idx != sent.size()) ctx.violate("C15.frame_missing", fmt("%zu signed frames sent, %zu reached the node's handler", sent.size(), idx));
    ctx.state(sent.size());
    script.call([&] { cn.close_now(); });
    script.shutdown();
    R.stop();
    S.stop();
}

Scenario make_c15() {
    Scenario s;
    s.id = "C15"; s.world = "W2"; s.level = "exploration";
    s.technique = "deterministic simulation: a scripted peer emits every message type at versions 0..255 through the repository's encoder to a real Node over simulated TCP, and a second real Node configured for another protocol version announces to it; what reaches the node's transport handler is decoded and compared field by field";
    s.real_components = {"Message::encode/encode_signed/decode/decode_signed", "SessionManager", "Node (deliver_manifest at the negotiated version, handle_transport_message)"};
    s.stub_components = {"OS: threads -> fibers, sockets -> simulated TCP, clock, entropy"};
    s.assumptions = {"partial by construction: field values are those the scripted peer and the system produce (ids, strings <= 5 KiB, <= 6 shard labels, TTL < 2^32), not all values; the full input-space round trip is a pure-function property (see C16/C17 n/a)"};
    s.rule = "plan = receiver/publisher protocol versions + network knobs + 3..16 ops (message of type 1..6 at version in {0,1,2,3,4,5,17,255} with seeded fields, or a real node storing a chunk assigned to the receiver); non-trivial = a version-3 announce, a version outside 1..4, or a real node configured for version 3; distinct = plan hash";
    s.gen = gen_c15; s.exec = exec_c15; s.kernel_knobs = net_knobs2;
    s.quick_runs = 2500; s.thorough_runs = 100000; s.quick_secs = 45; s.thorough_secs = 900;
    return s;
}
Registrar reg_c15(make_c15);

}  // namespace
