// Shared layer for the networked worlds (W2 swarm, W3 relay, W4 daemon): actors (simulated
// processes with a command queue), real Nodes hosted in actors, and scripted transport peers
// that speak the repository's wire format over the simulated TCP.
#pragma once

#include "worlds/common.hpp"

#include "ephemeralnet/crypto/ChaCha20.hpp"
#include "ephemeralnet/crypto/HmacSha256.hpp"
#include "ephemeralnet/network/KeyExchange.hpp"

#include <arpa/inet.h>
#include <netinet/in.h>
#include <signal.h>
#include <sys/socket.h>
#include <unistd.h>

#include <deque>

namespace wl {

// ---------------------------------------------------------------- actor
// A simulated process whose main fiber executes closures posted by the driver (and an optional
// periodic tick). Everything the closure does (sockets, threads) belongs to that process/host.
struct Actor {
    int pid = -1;
    std::string name;
    std::uint32_t host = 0;
    std::deque<std::function<void()>> q;
    bool stop_flag = false;
    std::uint64_t posted = 0, done = 0;
    std::function<void()> on_tick;
    std::int64_t tick_period = 0, next_tick = 0;
    bool tick_enabled = true;
    bool scripted = false;  // harness-only process (scripted client/peer): its memory traffic is not the repository's (sk::Quiet)

    void start(const std::string& n, std::uint32_t h, std::size_t stack = 8u << 20) {
        name = n; host = h;
        pid = sk::spawn(n, h, [this] { loop(); return 0; }, stack);
    }
    void loop() {
        std::optional<sk::Quiet> quiet;
        if (scripted) quiet.emplace();
        while (!stop_flag) {
            if (!q.empty()) {
                auto fn = std::move(q.front());
                q.pop_front();
                fn();
                ++done;
                continue;
            }
            const std::int64_t now = sk::now_ns();
            if (on_tick && tick_period > 0 && tick_enabled && now >= next_tick) {
                next_tick = now + tick_period;
                on_tick();
                continue;
            }
            const std::int64_t wait = (on_tick && tick_period > 0 && tick_enabled) ? std::max<std::int64_t>(next_tick - now, 1) : INT64_MAX / 4;
            sk::wait_until([this] { return !q.empty() || stop_flag; }, wait);
        }
    }
    std::uint64_t post(std::function<void()> fn) { q.push_back(std::move(fn)); return ++posted; }
    // returns false if the command did not complete within the timeout (or the process died)
    bool wait(std::uint64_t ticket, std::int64_t timeout_ns = 120 * kSec) {
        sk::wait_until([this, ticket] { return done >= ticket || !sk::alive(pid); }, timeout_ns);
        return done >= ticket;
    }
    // Synchronous: the closure usually references the caller's stack, so the caller never moves on while it
    // may still run. Returns false only if the process died. A command that neither returns nor dies within a
    // very generous bound abandons the run (reported as kernel.abort), it is never silently skipped.
    bool call(std::function<void()> fn, std::int64_t /*hint_ns*/ = 0) {
        const bool ok = wait(post(std::move(fn)), 200000 * kSec);
        if (!ok && alive()) sk::fail_run("command on '" + name + "' did not return within 200000 simulated seconds");
        return ok;
    }
    bool alive() const { return pid >= 0 && sk::alive(pid); }
    void shutdown(std::int64_t timeout_ns = 30 * kSec) {
        if (pid < 0) return;
        stop_flag = true;
        sk::wait_exit(pid, timeout_ns);
    }
};

inline std::string ip_text(std::uint32_t ip) {
    return std::to_string(ip >> 24) + "." + std::to_string((ip >> 16) & 255) + "." + std::to_string((ip >> 8) & 255) + "." + std::to_string(ip & 255);
}

// ---------------------------------------------------------------- reference PoW / key derivation
// Written from the property texts (C12, C19, C20): independent of the anonymous helpers in Node.cpp.
inline void be64(std::uint64_t v, std::uint8_t out[8]) { for (int i = 0; i < 8; ++i) out[i] = static_cast<std::uint8_t>(v >> (56 - 8 * i)); }

inline int leading_zero_bits(const std::array<std::uint8_t, 32>& d) {
    int n = 0;
    for (auto b : d) {
        if (b == 0) { n += 8; continue; }
        for (int bit = 7; bit >= 0; --bit) { if (b & (1u << bit)) return n; ++n; }
    }
    return n;
}

inline std::array<std::uint8_t, 32> ref_handshake_digest(const en::PeerId& initiator, const en::PeerId& responder, std::uint32_t pub, std::uint64_t nonce) {
    en::crypto::Sha256 h;
    std::uint8_t l[8];
    be64(32, l); h.update(std::span<const std::uint8_t>(l, 8)); h.update(std::span<const std::uint8_t>(initiator.data(), 32));
    be64(32, l); h.update(std::span<const std::uint8_t>(l, 8)); h.update(std::span<const std::uint8_t>(responder.data(), 32));
    be64(pub, l); h.update(std::span<const std::uint8_t>(l, 8));
    be64(nonce, l); h.update(std::span<const std::uint8_t>(l, 8));
    return h.finalize();
}
inline bool ref_handshake_pow_ok(const en::PeerId& initiator, const en::PeerId& responder, std::uint32_t pub, std::uint64_t nonce, int difficulty) {
    if (difficulty <= 0) return true;
    return leading_zero_bits(ref_handshake_digest(initiator, responder, pub, nonce)) >= difficulty;
}
inline std::uint64_t ref_solve_handshake_pow(const en::PeerId& initiator, const en::PeerId& responder, std::uint32_t pub, int difficulty, std::uint64_t start = 1) {
    for (std::uint64_t n = start;; ++n) if (ref_handshake_pow_ok(initiator, responder, pub, n, difficulty)) return n;
}
inline std::uint64_t ref_find_invalid_handshake_nonce(const en::PeerId& initiator, const en::PeerId& responder, std::uint32_t pub, int difficulty, std::uint64_t start = 7) {
    for (std::uint64_t n = start;; ++n) if (!ref_handshake_pow_ok(initiator, responder, pub, n, difficulty)) return n;
}

// a nonce whose digest has exactly `difficulty - 1` leading zero bits: the nearest possible miss (difficulty >= 1)
inline std::uint64_t ref_find_near_miss_handshake_nonce(const en::PeerId& initiator, const en::PeerId& responder, std::uint32_t pub, int difficulty, std::uint64_t start = 11) {
    for (std::uint64_t n = start;; ++n) if (leading_zero_bits(ref_handshake_digest(initiator, responder, pub, n)) == difficulty - 1) return n;
}

inline std::array<std::uint8_t, 32> ref_session_key(std::uint32_t my_scalar, std::uint32_t my_public, std::uint32_t remote_public) {
    const auto shared = en::network::KeyExchange::derive_shared_secret(my_scalar, remote_public);
    std::uint32_t lo = std::min(my_public, remote_public), hi = std::max(my_public, remote_public);
    std::array<std::uint8_t, 8> material{};
    for (int i = 0; i < 4; ++i) { material[static_cast<std::size_t>(i)] = static_cast<std::uint8_t>(lo >> (24 - 8 * i)); material[static_cast<std::size_t>(4 + i)] = static_cast<std::uint8_t>(hi >> (24 - 8 * i)); }
    return en::crypto::HmacSha256::compute(std::span<const std::uint8_t>(shared.bytes), std::span<const std::uint8_t>(material));
}

// announce PoW (reference, from the property text C19/C21)
inline std::array<std::uint8_t, 32> ref_announce_digest(const en::protocol::AnnouncePayload& a) {
    en::crypto::Sha256 h;
    std::uint8_t l[8];
    auto lp = [&](const void* p, std::size_t n) { be64(n, l); h.update(std::span<const std::uint8_t>(l, 8)); if (n) h.update(std::span<const std::uint8_t>(static_cast<const std::uint8_t*>(p), n)); };
    lp(a.chunk_id.data(), 32); lp(a.peer_id.data(), 32); lp(a.endpoint.data(), a.endpoint.size()); lp(a.manifest_uri.data(), a.manifest_uri.size());
    lp(a.assigned_shards.data(), a.assigned_shards.size());
    be64(static_cast<std::uint64_t>(a.ttl.count()), l); h.update(std::span<const std::uint8_t>(l, 8));
    be64(a.work_nonce, l); h.update(std::span<const std::uint8_t>(l, 8));
    return h.finalize();
}
inline bool ref_announce_pow_ok(const en::protocol::AnnouncePayload& a, int difficulty) {
    return difficulty <= 0 || leading_zero_bits(ref_announce_digest(a)) >= difficulty;
}
inline void ref_solve_announce_pow(en::protocol::AnnouncePayload& a, int difficulty, bool valid = true) {
    for (a.work_nonce = 1;; ++a.work_nonce) if (ref_announce_pow_ok(a, difficulty) == valid) return;
}
// exactly `difficulty - 1` leading zero bits (difficulty >= 1)
inline void ref_near_miss_announce_pow(en::protocol::AnnouncePayload& a, int difficulty) {
    for (a.work_nonce = 1;; ++a.work_nonce) if (leading_zero_bits(ref_announce_digest(a)) == difficulty - 1) return;
}

// ---------------------------------------------------------------- scripted transport peer
// One connection of a scripted peer. All calls must run on a fiber of the peer's own actor.
struct PeerConn {
    int fd = -1;
    std::array<std::uint8_t, 32> key{};
    bool have_key = false;
    std::string last_error;
    // After the handshake a real peer reads and writes concurrently. The scripted peer does the same:
    // a reader fiber of its process drains the socket into an inbox, so that a blocking send can never
    // deadlock against the node's own blocking reply.
    // `deaf` stops the reader fiber before its next recv (a hostile peer that asks for data and does not drain its socket);
    // `drip_bytes`/`drip_ns` make it a slow reader instead: at most that many bytes per interval.
    struct Rx { std::deque<std::vector<std::uint8_t>> frames; std::deque<std::int64_t> times; bool closed = false; std::string error; bool deaf = false; std::size_t drip_bytes = 0; std::int64_t drip_ns = 0; };
    std::shared_ptr<Rx> rx;
    std::shared_ptr<Rx> gate;  // set in the reader fiber's own PeerConn: recv_all consults it before every recv
    std::int64_t timeout_ms = 5000;

    bool open(const std::string& host, std::uint16_t port) {
        fd = ::socket(AF_INET, SOCK_STREAM, 0);
        if (fd < 0) { last_error = "socket"; return false; }
        sockaddr_in a{};
        a.sin_family = AF_INET;
        a.sin_port = htons(port);
        inet_pton(AF_INET, host.c_str(), &a.sin_addr);
        if (::connect(fd, reinterpret_cast<sockaddr*>(&a), sizeof a) != 0) { last_error = "connect errno " + std::to_string(errno); ::close(fd); fd = -1; return false; }
        return true;
    }
    void set_timeout(std::int64_t ms) {
        timeout_ms = ms;
        if (rx) return;  // the reader fiber owns the socket's receive side; waits happen on the inbox
        timeval tv{static_cast<time_t>(ms / 1000), static_cast<suseconds_t>((ms % 1000) * 1000)};
        ::setsockopt(fd, SOL_SOCKET, SO_RCVTIMEO, &tv, sizeof tv);
    }
    bool send_all(const void* p, std::size_t n) {
        const auto* b = static_cast<const std::uint8_t*>(p);
        std::size_t off = 0;
        while (off < n) {
            const ssize_t r = ::send(fd, b + off, n - off, MSG_NOSIGNAL);
            if (r <= 0) { last_error = "send errno " + std::to_string(errno); return false; }
            off += static_cast<std::size_t>(r);
        }
        return true;
    }
    // 1 = ok, 0 = clean EOF before any byte, -1 = error/timeout/partial
    int recv_all(void* p, std::size_t n) {
        auto* b = static_cast<std::uint8_t*>(p);
        std::size_t off = 0;
        while (off < n) {
            std::size_t want = n - off;
            if (gate) {
                auto g = gate;
                if (g->deaf) sk::wait_until([g] { return !g->deaf; }, 86400 * kSec);
                if (g->drip_bytes) { sk::sleep_ns(g->drip_ns); want = std::min(want, g->drip_bytes); }
            }
            const ssize_t r = ::recv(fd, b + off, want, 0);
            if (r == 0) { last_error = "eof"; return off == 0 ? 0 : -1; }
            if (r < 0) { last_error = "recv errno " + std::to_string(errno); return -1; }
            off += static_cast<std::size_t>(r);
        }
        return 1;
    }
    bool send_identity(const en::PeerId& id) { return send_all(id.data(), id.size()); }
    bool send_handshake_raw(const std::vector<std::uint8_t>& encoded) {
        std::vector<std::uint8_t> frame(4 + encoded.size());
        const auto len = static_cast<std::uint32_t>(encoded.size());
        frame[0] = len >> 24; frame[1] = len >> 16; frame[2] = len >> 8; frame[3] = len;
        std::copy(encoded.begin(), encoded.end(), frame.begin() + 4);
        return send_all(frame.data(), frame.size());
    }
    bool send_handshake(std::uint32_t pub, std::uint64_t nonce, std::uint8_t version = en::protocol::kCurrentMessageVersion) {
        en::protocol::Message m{};
        m.version = en::protocol::kCurrentMessageVersion;
        m.type = en::protocol::MessageType::TransportHandshake;
        m.payload = en::protocol::TransportHandshakePayload{pub, nonce, version};
        return send_handshake_raw(en::protocol::encode(m));
    }
    static std::vector<std::uint8_t> seal(const std::array<std::uint8_t, 32>& k, const std::vector<std::uint8_t>& plain) {
        en::crypto::Key key{}; key.bytes = k;
        en::crypto::Nonce nonce{};
        sk::random_bytes(nonce.bytes.data(), nonce.bytes.size());
        std::vector<std::uint8_t> cipher(plain.size());
        en::crypto::ChaCha20::apply(key, nonce, plain, cipher, 0u);
        std::vector<std::uint8_t> frame(16 + cipher.size());
        std::copy(nonce.bytes.begin(), nonce.bytes.end(), frame.begin());
        const auto len = static_cast<std::uint32_t>(cipher.size());
        frame[12] = len >> 24; frame[13] = len >> 16; frame[14] = len >> 8; frame[15] = len;
        std::copy(cipher.begin(), cipher.end(), frame.begin() + 16);
        return frame;
    }
    bool send_plain(const std::vector<std::uint8_t>& plain) { const auto f = seal(key, plain); return send_all(f.data(), f.size()); }
    bool send_signed(const en::protocol::Message& m) { return send_signed_with(m, key); }
    bool send_signed_with(const en::protocol::Message& m, const std::array<std::uint8_t, 32>& sign_key) {
        return send_plain(en::protocol::encode_signed(m, std::span<const std::uint8_t>(sign_key)));
    }
    void start_reader() {
        rx = std::make_shared<Rx>();
        timeval tv{0, 0};
        ::setsockopt(fd, SOL_SOCKET, SO_RCVTIMEO, &tv, sizeof tv);
        auto state = rx;
        const int sock = fd;
        const auto k = key;
        sk::go("peer.reader", [state, sock, k] {
            PeerConn c;
            c.fd = sock;
            c.key = k;
            c.gate = state;
            for (;;) {
                auto f = c.recv_plain_direct();
                if (!f) { state->closed = true; state->error = c.last_error; return; }
                state->frames.push_back(std::move(*f));
                state->times.push_back(sk::now_ns());
            }
        });
    }
    // receive one transport frame and return its plaintext; nullopt on EOF/timeout/error
    std::optional<std::vector<std::uint8_t>> recv_plain() {
        if (rx) {
            auto state = rx;
            sk::wait_until([state] { return !state->frames.empty() || state->closed; }, timeout_ms * kMs);
            if (!state->frames.empty()) { auto f = std::move(state->frames.front()); state->frames.pop_front(); if (!state->times.empty()) state->times.pop_front(); return f; }
            last_error = state->closed ? "closed: " + state->error : "timeout";
            return std::nullopt;
        }
        return recv_plain_direct();
    }
    std::optional<std::vector<std::uint8_t>> recv_plain_direct() {
        std::uint8_t hdr[16];
        if (recv_all(hdr, 16) != 1) return std::nullopt;
        const std::uint32_t len = (std::uint32_t(hdr[12]) << 24) | (std::uint32_t(hdr[13]) << 16) | (std::uint32_t(hdr[14]) << 8) | hdr[15];
        if (len > (4u << 20)) { last_error = "oversized frame"; return std::nullopt; }
        std::vector<std::uint8_t> cipher(len), plain(len);
        if (len && recv_all(cipher.data(), len) != 1) return std::nullopt;
        en::crypto::Key k{}; k.bytes = key;
        en::crypto::Nonce nonce{};
        std::copy(hdr, hdr + 12, nonce.bytes.begin());
        if (len) en::crypto::ChaCha20::apply(k, nonce, cipher, plain, 0u);
        return plain;
    }
    std::optional<en::protocol::Message> recv_message() {
        auto p = recv_plain();
        if (!p) return std::nullopt;
        auto m = en::protocol::decode_signed(*p, std::span<const std::uint8_t>(key));
        if (!m) last_error = "undecodable or badly signed frame";
        return m;
    }
    // After closing, wait for the reader fiber to notice: a reader that has not run yet would otherwise issue its
    // first recv on a descriptor number that the next socket() of this process may already have been given.
    void reap_reader() { if (rx && sk::in_sim()) { auto st = rx; sk::wait_until([st] { return st->closed; }, 5 * kSec); } }
    void close_now() { if (fd >= 0) { ::shutdown(fd, SHUT_RDWR); ::close(fd); fd = -1; } reap_reader(); }
};

// identity of a scripted peer
struct PeerIdentity {
    en::PeerId id{};
    std::uint32_t scalar = 0, pub = 0;
    static PeerIdentity make(std::uint8_t tag, std::uint32_t scalar) {
        PeerIdentity p;
        p.id = make_id(tag, 0x66);
        p.scalar = scalar;
        p.pub = en::network::KeyExchange::compute_public(scalar);
        return p;
    }
};

// full honest handshake of a scripted peer with a real node; returns true and fills conn.key
inline bool scripted_handshake(PeerConn& c, const PeerIdentity& me, const en::PeerId& node_id, std::uint32_t node_public, int difficulty,
                               const std::string& host, std::uint16_t port, std::int64_t timeout_ms = 5000) {
    if (!c.open(host, port)) return false;
    c.set_timeout(timeout_ms);
    c.key = ref_session_key(me.scalar, me.pub, node_public);
    c.have_key = true;
    const auto nonce = ref_solve_handshake_pow(me.id, node_id, me.pub, difficulty);
    if (!c.send_identity(me.id) || !c.send_handshake(me.pub, nonce)) return false;
    auto ack = c.recv_message();
    if (!ack || ack->type != en::protocol::MessageType::HandshakeAck) return false;
    const auto* p = std::get_if<en::protocol::HandshakeAckPayload>(&ack->payload);
    if (!(p && p->accepted)) return false;
    c.start_reader();
    return true;
}

// ---------------------------------------------------------------- a real node hosted in an actor
struct NodeProc {
    Actor actor;
    en::PeerId id{};
    en::Config cfg;
    std::unique_ptr<en::Node> node;
    std::uint16_t port = 0;
    std::vector<en::network::TransportMessage> inbox;  // everything the node's external handler saw
    std::uint64_t ticks = 0;
    bool ignore_sigpipe = true;
    std::function<void(en::Node&)> after_tick;   // optional observer, runs on the node's main fiber right after every tick
    std::int64_t stall_next_message_ns = 0;      // the application's message handler is busy for this long when the next message arrives (once)
    int stalls_in_progress = 0;

    void start(const std::string& name, std::uint32_t host, const en::PeerId& pid, const en::Config& c, std::int64_t tick_period_ns, std::int64_t tick_phase_ns = 0, bool listen = true) {
        id = pid; cfg = c;
        actor.tick_period = tick_period_ns;
        actor.next_tick = tick_phase_ns;
        actor.on_tick = [this] { if (node) { node->tick(); ++ticks; if (after_tick) after_tick(*node); } };
        actor.start(name, host);
        actor.call([this, listen] {
            // The hosting application ignores SIGPIPE (the relay binary does; `eph` does not — that is
            // examined with the real daemon main in W4/C35). Without this a peer reset followed by a
            // send would end every run here.
            if (ignore_sigpipe) ::signal(SIGPIPE, SIG_IGN);
            node = std::make_unique<en::Node>(id, cfg);
            node->set_message_handler([this](const en::network::TransportMessage& m) {
                if (stall_next_message_ns > 0) { const std::int64_t d = stall_next_message_ns; stall_next_message_ns = 0; ++stalls_in_progress; sk::sleep_ns(d); --stalls_in_progress; }
                inbox.push_back(m);
            });
            if (listen) { node->start_transport(0); port = node->transport_port(); }
        });
    }
    // Runs f on the node's main fiber. The closure may reference the caller's stack, so the caller must not
    // move on before it finished: if the process dies the call returns false (the closure is gone with it);
    // if it neither finishes nor dies within the (very generous) bound the whole run is abandoned.
    template <class F> bool run(F&& f, std::int64_t timeout_ns = 100000 * kSec) {
        const bool ok = actor.call([this, f] { f(*node); }, timeout_ns);
        if (!ok && actor.alive()) sk::fail_run("command on node '" + actor.name + "' did not return within " + std::to_string(timeout_ns / kSec) + " simulated seconds");
        return ok;
    }
    void stop() {
        if (!actor.alive()) { (void)node.release(); return; }
        actor.call([this] { node.reset(); }, 60 * kSec);
        actor.shutdown();
    }
    void crash() {
        sk::kill(actor.pid);
        (void)node.release();  // abandoned, like the memory of a dead process
    }
};

// out-of-band introduction + connection of two real nodes, the way the repository's tests do it
inline bool link_nodes(NodeProc& a, NodeProc& b) {
    std::uint32_t pa = 0, pb = 0;
    a.run([&](en::Node& n) { pa = n.public_identity(); });
    b.run([&](en::Node& n) { pb = n.public_identity(); });
    std::optional<std::uint64_t> wa, wb;
    a.run([&](en::Node& n) { wa = n.generate_handshake_work(b.id); });
    b.run([&](en::Node& n) { wb = n.generate_handshake_work(a.id); });
    if (!wa || !wb) return false;
    bool oka = false, okb = false;
    a.run([&](en::Node& n) { oka = n.perform_handshake(b.id, pb, *wb); });
    b.run([&](en::Node& n) { okb = n.perform_handshake(a.id, pa, *wa); });
    if (!oka || !okb) return false;
    bool connected = false;
    a.run([&](en::Node& n) { connected = n.connect_peer(b.id, ip_text(b.actor.host), b.port); });
    return connected;
}

}  // namespace wl
