// W4 — C27 (a configured control token gates STORE, FETCH and STOP) and C28 (STORE admission:
// size, TTL, PoW and an unforgeable rate limit) against the real `eph serve` main, driven by
// scripted control clients on other simulated hosts.
#include "worlds/w4_common.hpp"

#include <sys/stat.h>

using namespace wl;

namespace {

// the configured token of a run: length from the plan (1..512, around the sizes at which length arithmetic wraps), content seeded
std::string run_token(const Plan& p) {
    const std::size_t len = static_cast<std::size_t>(p.knob("token_len", 15));
    if (len == 15) return "s3cr3t-Token_42";
    sk::Rng g(static_cast<std::uint64_t>(p.knob("token_seed", 1)));
    static const char alphabet[] = "abcdefghijklmnopqrstuvwxyzABCDEFGHIJKLMNOPQRSTUVWXYZ0123456789-_";
    std::string t;
    for (std::size_t i = 0; i < len; ++i) t.push_back(alphabet[g.below(sizeof alphabet - 1)]);
    return t;
}

std::string token_variant(int kind, const std::string& kToken, std::int64_t n) {
    switch (kind) {
        case 0: return kToken;
        case 2: return "not-the-token";
        case 3: return kToken.substr(0, kToken.size() - 1);
        case 4: return kToken.substr(1);
        case 5: { std::string t = kToken; for (auto& ch : t) ch = static_cast<char>(std::isupper(static_cast<unsigned char>(ch)) ? std::tolower(ch) : std::toupper(ch)); return t; }
        case 6: return kToken + " ";
        case 7: return "";
        case 8: return kToken + kToken;
        case 10: return kToken + std::string(static_cast<std::size_t>(n), 'x');                 // the token followed by n more characters
        case 11: return std::string(static_cast<std::size_t>(n), 'y') + kToken;                 // n characters, then the token
        case 12: return kToken.size() > static_cast<std::size_t>(n) ? kToken.substr(0, kToken.size() - static_cast<std::size_t>(n)) : std::string("z");  // the token without its last n characters
        default: return "";
    }
}
const char* token_kind_name[] = {"exact", "missing", "wrong", "prefix", "suffix", "case_changed", "trailing_space", "empty", "doubled", "two_wrong_headers", "extended_by_n", "prefixed_by_n", "shortened_by_n"};

// ================================================================ C27
Plan gen_c27(sk::Rng& r, Tier) {
    Plan p;
    gen_w4_knobs(p, r);
    p.knobs["token_len"] = r.chance(1, 2) ? 15 : r.pick<std::int64_t>({1, 8, 16, 32, 255, 256, 257, 512});
    p.knobs["token_seed"] = static_cast<std::int64_t>(r.below(1u << 30));
    const int n = static_cast<int>(r.range(3, 9));
    for (int i = 0; i < n; ++i) {
        Op op;
        op.k = "req";
        // command (0 STORE, 1 FETCH stream, 2 FETCH to daemon-side path, 3 STOP), token kind, token header position, fragments,
        // whether FETCH names a manifest the daemon has never seen, n for the length-changing token kinds
        op.a = {static_cast<std::int64_t>(r.below(4)), r.chance(1, 4) ? 0 : r.range(1, 12), static_cast<std::int64_t>(r.below(3)), r.pick<std::int64_t>({1, 1, 3, 17}), static_cast<std::int64_t>(r.below(2)),
                r.pick<std::int64_t>({1, 2, 16, 255, 256, 257, 512, 768, 1024, 4096})};
        p.ops.push_back(op);
    }
    return p;
}

void exec_c27(const Plan& p, Ctx& ctx) {
    capture_reset();
    Daemon d;
    const std::string kToken = run_token(p);
    d.token = kToken;
    d.extra_args = {"--min-ttl", "5", "--max-ttl", "7200", "--default-ttl", "600"};
    sk::fs_log_enable(true);
    d.start();
    if (!d.wait_ready()) { ctx.violate("C27.setup_failed", "daemon did not answer PING: " + sk::info(d.pid).exit_detail + " | " + proc_stderr(d.pid).substr(0, 300)); d.stop(); return; }
    Actor client;
    client.start("ctl-client", sk::ip(10, 0, 9, 1));
    const std::string host = ip_text(d.host);
    const std::string out_dir = sk::scratch_dir() + "/daemon-out";
    ::mkdir(out_dir.c_str(), 0700);

    auto exchange = [&](const std::string& headers, const std::vector<std::uint8_t>& body, int frag) {
        CtlReply r;
        client.call([&] { r = ctl_exchange(host, d.control_port, headers, body, false, 20000, frag); });
        return r;
    };
    auto list_count = [&] {
        auto r = exchange(ctl_headers({{"COMMAND", "LIST"}}), {}, 1);
        return r.got_status ? r.field("COUNT") : std::string("?");
    };
    // set-up: one authenticated store so that FETCH has something to ask for
    const auto seed_payload = make_payload(300, 4711);
    const std::vector<std::uint8_t> seed_body(seed_payload.begin(), seed_payload.end());
    auto setup = exchange(ctl_headers({{"COMMAND", "STORE"}, {"TOKEN", kToken}, {"TTL", "600"}, {"STORE-POW", std::to_string(ref_solve_store_pow(seed_body, "", 6))},
                                       {"PAYLOAD-LENGTH", std::to_string(seed_payload.size())}}), seed_body, 1);
    if (!setup.ok) { ctx.violate("C27.setup_failed", "authenticated STORE failed: " + setup.field("CODE") + " " + setup.field("MESSAGE")); d.stop(); client.shutdown(); return; }
    const std::string manifest = setup.field("MANIFEST");
    // a valid manifest for a chunk this daemon has never seen (issued by some other node)
    std::string foreign_manifest, foreign_key;
    {
        auto cfg = base_config(991);
        en::Node other(make_id(0x27, 0x01), cfg);
        const auto pl = make_payload(256, 271828);
        en::ChunkData data(pl.begin(), pl.end());
        en::ChunkId id{};
        const auto dg = en::crypto::Sha256::digest(std::span<const std::uint8_t>(data));
        std::copy(dg.begin(), dg.end(), id.begin());
        const auto m = other.store_chunk(id, std::move(data), std::chrono::seconds(600));
        foreign_manifest = en::protocol::encode_manifest(m);
        foreign_key = en::chunk_id_to_string(id);
    }
    auto registered = [&](const std::string& key) {
        bool found = false;
        d.with_node([&](en::Node& n) {
            std::unique_lock<std::recursive_mutex> lock(n.scheduler_mutex_);
            found = n.manifest_cache_.count(key) != 0 || n.swarm_plans_.count(key) != 0;
        });
        return found;
    };
    int expected_chunks = 1;
    std::uint64_t uniq = 1;
    bool stopped = false;

    int refused_stops = 0;
    for (auto& op : p.ops) {
        ++ctx.ops_done;
        if (stopped) break;
        const int cmd = static_cast<int>(op.at(0)), kind = static_cast<int>(op.at(1)), pos = static_cast<int>(op.at(2)), frag = static_cast<int>(op.at(3));
        // authentic = a single TOKEN header whose value is exactly the configured token (a variant may coincide with it, e.g. a case change of a token without letters)
        const bool authentic = kind != 1 && kind != 9 && token_variant(kind, kToken, op.at(5, 1)) == kToken;
        std::vector<std::pair<std::string, std::string>> fields;
        std::vector<std::uint8_t> body;
        std::string out_path;
        switch (cmd) {
            case 0: {
                const auto pl = make_payload(100 + uniq % 50, 9000 + uniq);
                ++uniq;
                body.assign(pl.begin(), pl.end());
                fields = {{"COMMAND", "STORE"}, {"TTL", "600"}, {"STORE-POW", std::to_string(ref_solve_store_pow(body, "", 6))}, {"PAYLOAD-LENGTH", std::to_string(body.size())}};
                break;
            }
            case 1: fields = {{"COMMAND", "FETCH"}, {"MANIFEST", op.at(4) ? foreign_manifest : manifest}, {"STREAM", "client"}}; break;
            case 2: out_path = out_dir + "/out" + std::to_string(uniq++) + ".bin"; fields = {{"COMMAND", "FETCH"}, {"MANIFEST", op.at(4) ? foreign_manifest : manifest}, {"OUT", out_path}}; break;
            default: fields = {{"COMMAND", "STOP"}}; break;
        }
        std::vector<std::pair<std::string, std::string>> token_fields;
        if (kind == 9) token_fields = {{"TOKEN", "wrong-one"}, {"TOKEN", "wrong-two"}};
        else if (kind != 1) token_fields = {{pos == 2 ? "token" : "TOKEN", token_variant(kind, kToken, op.at(5, 1))}};
        if (pos == 0) fields.insert(fields.begin(), token_fields.begin(), token_fields.end());
        else fields.insert(fields.end(), token_fields.begin(), token_fields.end());
        ctx.probe(std::string("sent_") + (cmd == 0 ? "store" : cmd == 1 ? "fetch_stream" : cmd == 2 ? "fetch_out" : "stop") + (authentic ? "_auth" : "_unauth"));
        if (!authentic) ctx.boundary(std::string("token_") + token_kind_name[kind]);
        const std::size_t log_before = sk::fs_log().size();
        const std::string count_before = list_count();
        const bool foreign_known_before = registered(foreign_key);
        auto rep = exchange(ctl_headers(fields), body, frag);
        const std::string what = std::string(cmd == 0 ? "STORE" : cmd == 1 ? "FETCH(stream)" : cmd == 2 ? "FETCH(OUT)" : "STOP") + " with " + token_kind_name[kind] + " token";
        if (authentic) {
            if (cmd == 0 && rep.ok) ++expected_chunks;
            if (cmd == 3 && rep.ok) {
                // "no effect" also means no trace: the first accepted STOP is the one that stops the transport, however many STOPs were
                // refused before it
                if (refused_stops > 0) ctx.boundary("authenticated_stop_after_refused_stops");
                if (rep.field("TRANSPORT") != "STOPPED")
                    ctx.violate("C27.refused_request_left_a_trace", fmt("the first accepted STOP answered TRANSPORT:%s after %d refused STOP request(s): a refused request changed what the authenticated one does", rep.field("TRANSPORT").c_str(), refused_stops));
                stopped = true; sk::wait_exit(d.pid, 60 * kSec);
            }
            continue;
        }
        // ---- unauthenticated: must be refused with an authentication error and have no effect
        if (cmd == 3) ++refused_stops;
        if (!rep.got_status) {
            if (!sk::alive(d.pid)) { ctx.violate("C27.daemon_died", what + ": the daemon process ended: " + sk::info(d.pid).exit_detail); break; }
            ctx.violate("C27.no_reply", what + ": no response");
            continue;
        }
        const std::string code = rep.field("CODE");
        if (rep.ok) ctx.violate(std::string("C27.accepted_without_token.") + (cmd == 0 ? "store" : cmd == 1 ? "fetch_stream" : cmd == 2 ? "fetch_out" : "stop"), what + " was answered STATUS:OK (" + code + ")");
        else if (code.find("UNAUTHENTICATED") == std::string::npos && code.find("AUTH") == std::string::npos)
            ctx.violate(std::string("C27.not_an_auth_error.") + (cmd == 0 ? "store" : cmd == 1 ? "fetch_stream" : cmd == 2 ? "fetch_out" : "stop"), what + " was refused with " + code + ", not an authentication error");
        if (!rep.payload.empty()) ctx.violate("C27.payload_leaked", what + " returned " + std::to_string(rep.payload.size()) + " payload bytes");
        // no effect
        if (cmd == 3) {
            sk::sleep_ns(2500 * kMs);
            bool alive_and_serving = sk::alive(d.pid);
            if (alive_and_serving) { client.call([&] { alive_and_serving = d.ping(); }); }
            if (!alive_and_serving) { ctx.violate("C27.stopped_without_token", what + " stopped the daemon"); stopped = true; break; }
        }
        if (cmd == 2) {
            struct stat st;
            if (::stat(out_path.c_str(), &st) == 0) ctx.violate("C27.file_written_without_token", what + " wrote " + std::to_string(st.st_size) + " bytes to a daemon-side path");
        }
        for (std::size_t i = log_before; i < sk::fs_log().size(); ++i) {
            const auto& e = sk::fs_log()[i];
            if (e.pid == d.pid && (e.kind == "open_w" || e.kind == "write" || e.kind == "mkdir") && e.result == 0 && e.path.rfind(d.storage_dir, 0) != 0)
                { ctx.violate("C27.file_written_without_token", what + " made the daemon " + e.kind + " " + e.path.substr(sk::scratch_dir().size())); break; }
        }
        if ((cmd == 1 || cmd == 2) && op.at(4)) {
            ctx.probe("unauth_fetch_of_unknown_manifest");
            if (!foreign_known_before && registered(foreign_key))
                ctx.violate("C27.manifest_registered_without_token", what + " registered the manifest it named in the daemon's node (manifest cache / swarm plan)");
        }
        const std::string count_after = list_count();
        if (count_after != count_before) ctx.violate("C27.stored_without_token", what + " changed the number of stored chunks from " + count_before + " to " + count_after);
        ctx.state(static_cast<std::uint64_t>(cmd * 16 + kind));
    }
    if (!stopped) {
        if (list_count() != std::to_string(expected_chunks)) ctx.probe("final_count_mismatch");
        client.call([&] { if (!d.ping()) ctx.violate("C27.daemon_unresponsive", "the daemon no longer answers PING at the end of the run"); });
    }
    client.shutdown();
    d.stop();
    if (sk::alive(d.pid)) ctx.violate("C27.daemon_does_not_stop", "the daemon did not exit within 120 simulated seconds of SIGTERM");
}

Scenario make_c27() {
    Scenario s;
    s.id = "C27"; s.world = "W4"; s.level = "exploration";
    s.technique = "deterministic simulation: the real `eph serve` main (Node + ControlServer + serve loop) runs as a simulated process with a control token; a scripted client on another simulated host sends STORE / FETCH (streamed and to a daemon-side path) / STOP with missing, wrong, prefix, suffix, case-changed, padded, empty, doubled tokens and tokens extended, prefixed or shortened by n characters (n around 1, 255..257, 512..4096; configured token length 1..512) in any header position and fragmentation; replies, the daemon's file operations, LIST and liveness are checked after each";
    s.real_components = {"src/main.cpp serve path (real main())", "ControlServer (parse_request, handle_store, handle_fetch, handle_stop)", "Node", "SessionManager/RelayClient threads of the daemon"};
    s.stub_components = {"OS: threads -> fibers, sockets -> simulated TCP, clock, entropy, file seam", "control clients are scripted raw requests"};
    s.assumptions = {"'registered' is judged by looking at the daemon Node's manifest cache and swarm plans (reached through the control-server object main() constructs; no change to the repository)",
                     "a request that carries the exact token value anywhere (also under a lower-case header name) counts as authenticated"};
    s.rule = "plan = network knobs + 3..9 requests (command x token kind x header position x fragmentation); non-trivial = a request without the exact token; distinct = plan hash";
    s.gen = gen_c27; s.exec = exec_c27; s.kernel_knobs = w4_knobs;
    s.quick_runs = 3000; s.thorough_runs = 120000; s.quick_secs = 55; s.thorough_secs = 900;
    return s;
}
Registrar reg_c27(make_c27);

}  // namespace
