// W2 — C39: key rotation never leaves the two ends of a session on different keys.
// Two real Nodes with an established session tick at seeded, different periods and phases while
// the simulated clock advances across several rotation intervals (clock reads jitter per call).
#include "worlds/net_common.hpp"

#include <algorithm>

using namespace wl;

namespace {

const en::PeerId kA = make_id(0xA1, 0x11);
const en::PeerId kB = make_id(0xB2, 0x22);

Plan gen_c39(sk::Rng& r, Tier) {
    Plan p;
    p.knobs["rotation"] = r.pick<std::int64_t>({5, 7, 20, 60});
    p.knobs["tick_a_ms"] = r.pick<std::int64_t>({200, 500, 1000, 1700});
    p.knobs["tick_b_ms"] = r.pick<std::int64_t>({300, 1000, 1300, 4000});
    p.knobs["phase_a_ms"] = static_cast<std::int64_t>(r.below(1000));
    p.knobs["phase_b_ms"] = static_cast<std::int64_t>(r.below(1000));
    p.knobs["lat_max_us"] = r.pick<std::int64_t>({0, 500, 20000});
    p.knobs["jitter"] = r.pick<std::int64_t>({0, 1, 1});
    p.knobs["preempt"] = r.pick<std::int64_t>({0, 128, 512});
    const int n = static_cast<int>(r.range(2, 8));
    for (int i = 0; i < n; ++i) {
        Op op;
        const auto c = r.below(100);
        if (c < 46) { op.k = "adv"; op.a = {r.pick<std::int64_t>({1000, 3000, 5500, 8000, 21000, 61000})}; }
        else if (c < 82) { op.k = "probe"; op.a = {static_cast<std::int64_t>(r.below(2))}; }
        else if (c < 93) { op.k = "pause_ticks"; op.a = {static_cast<std::int64_t>(r.below(2)), r.pick<std::int64_t>({2000, 9000, 30000})}; }
        // crash of one node (only its identity seed survives), restart after a gap, session re-established by either side
        else { op.k = "restart"; op.a = {static_cast<std::int64_t>(r.below(2)), r.pick<std::int64_t>({0, 300, 2500, 7000, 40000}), static_cast<std::int64_t>(r.below(2))}; }
        p.ops.push_back(op);
    }
    return p;
}

sk::Knobs knobs_c39(const Plan& p) {
    sk::Knobs k;
    k.lat_max_ns = p.knob("lat_max_us", 500) * 1000;
    k.sock_buf_min = 16384; k.sock_buf_max = 262144;
    k.preempt_per_1024 = static_cast<std::uint32_t>(p.knob("preempt", 128));
    k.clock_jitter = p.knob("jitter", 1) != 0;
    k.jitter_ns = 2000;
    k.max_steps = 4'000'000;
    return k;
}

void exec_c39(const Plan& p, Ctx& ctx) {
    const std::int64_t rotation = p.knob("rotation", 20);
    std::unique_ptr<NodeProc> nodes[2] = {std::make_unique<NodeProc>(), std::make_unique<NodeProc>()};
    std::vector<std::unique_ptr<NodeProc>> graveyard;  // crashed instances (their processes are dead)
    int generation[2] = {0, 0};
    en::Config ca = base_config(301), cb = base_config(302);
    ca.key_rotation_interval = cb.key_rotation_interval = seconds(rotation);
    ca.cleanup_interval = cb.cleanup_interval = seconds(100000);
    const std::int64_t ta = p.knob("tick_a_ms", 1000) * kMs, tb = p.knob("tick_b_ms", 1000) * kMs;
    nodes[0]->start("nodeA", sk::ip(10, 0, 1, 1), kA, ca, ta, p.knob("phase_a_ms", 0) * kMs);
    nodes[1]->start("nodeB", sk::ip(10, 0, 1, 2), kB, cb, tb, p.knob("phase_b_ms", 0) * kMs);
    if (!link_nodes(*nodes[0], *nodes[1])) { ctx.violate("C39.setup_failed", "two honest nodes could not establish a session"); nodes[0]->stop(); nodes[1]->stop(); return; }
    std::int64_t established = sk::now_ns();
    // sampling step and tolerated lag: the end that reaches a rotation boundary later switches at its next tick,
    // so two honest ends hold the same key within one tick period (+ network latency, + the instants at which the
    // two ends recorded the handshake, + the sampling step of this observer) of each other.
    const std::int64_t S = std::clamp<std::int64_t>(std::min(ta, tb) / 2, 100 * kMs, 500 * kMs);
    const std::int64_t G = std::max(ta, tb) + p.knob("lat_max_us", 500) * 1000 * 4 + kSec + 2 * S;
    std::vector<std::pair<std::int64_t, std::int64_t>> pauses;  // [start, end] of tick starvation of either node

    struct View { std::optional<std::array<std::uint8_t, 32>> key, transport_key; bool connected = false; std::uint64_t counter = 0; };
    auto view = [&](NodeProc& n, const en::PeerId& other) {
        View v;
        n.run([&](en::Node& node) {
            v.key = node.session_key(other);
            v.connected = node.sessions_.is_connected(other);
            std::scoped_lock lock(node.sessions_.sessions_mutex_);
            auto it = node.sessions_.sessions_.find(en::peer_id_to_string(other));
            if (it != node.sessions_.sessions_.end() && it->second) v.transport_key = it->second->key;
            auto kc = node.key_manager_.contexts_.find(en::peer_id_to_string(other));
            if (kc != node.key_manager_.contexts_.end()) v.counter = kc->second.counter;
        });
        return v;
    };
    struct Sample { std::int64_t t; View a, b; };
    std::vector<Sample> samples;
    auto near_pause = [&](std::int64_t t) {
        for (auto& [ps, pe] : pauses) if (t >= ps - G && t <= pe + 2 * G) return true;
        return false;
    };

    auto observe = [&](const char* when) -> const Sample& {
        Sample smp{sk::now_ns(), nodes[0] ? view(*nodes[0], kB) : View{}, nodes[1] ? view(*nodes[1], kA) : View{}};
        const View& a = smp.a; const View& b = smp.b;
        const std::int64_t now = smp.t;
        const bool both_connected = a.connected && b.connected;
        const bool differ = a.key && b.key && *a.key != *b.key;
        // (1) internal consistency on each node: the transport encrypts with the key the key manager holds
        if (a.connected && a.key && a.transport_key && *a.key != *a.transport_key)
            ctx.violate("C39.transport_key_stale", fmt("node A: the session encrypts with a key that is not the current session key (%s)", when));
        if (b.connected && b.key && b.transport_key && *b.key != *b.transport_key)
            ctx.violate("C39.transport_key_stale", fmt("node B: the session encrypts with a key that is not the current session key (%s)", when));
        // (2) before any rotation can have happened the keys must agree
        if (both_connected && differ && now < established + rotation * kSec - kSec)
            ctx.violate("C39.keys_differ_before_rotation", fmt("keys differ %.3f s after the handshake although the rotation interval is %lld s (%s)", (now - established) / 1e9, (long long)rotation, when));
        if (a.counter > 0 || b.counter > 0) ctx.boundary("rotation_happened");
        if (both_connected && differ) ctx.probe("sampled_inside_switch_window");
        ctx.state(a.counter * 64 + b.counter * 4 + (both_connected ? 2 : 0) + (differ ? 1 : 0));
        samples.push_back(smp);
        return samples.back();
    };
    auto advance = [&](std::int64_t total, const char* when) {
        for (std::int64_t done = 0; done < total;) { const std::int64_t d = std::min(S, total - done); sk::sleep_ns(d); done += d; observe(when); }
    };

    for (auto& op : p.ops) {
        ++ctx.ops_done;
        if (op.k == "adv") {
            advance(op.at(0) * kMs, "during advance");
        } else if (op.k == "probe") {
            // end-to-end: a negative acknowledgement sent now must cost the sender reputation at the receiver
            NodeProc& from = *nodes[op.at(0) == 0 ? 0 : 1];
            NodeProc& to = *nodes[op.at(0) == 0 ? 1 : 0];
            const en::PeerId from_id = op.at(0) == 0 ? kA : kB, to_id = op.at(0) == 0 ? kB : kA;
            int before = 0, after = 0;
            bool sent = false;
            const Sample s0 = observe("before probe");
            to.run([&](en::Node& n) { before = n.reputation_score(from_id); });
            from.run([&](en::Node& n) {
                const auto key = n.session_key(to_id);
                if (!key) return;
                en::protocol::Message m{};
                m.type = en::protocol::MessageType::Acknowledge;
                m.payload = en::protocol::AcknowledgePayload{make_id(0xDD, 0x01), from_id, false};
                const auto enc = en::protocol::encode_signed(m, std::span<const std::uint8_t>(*key));
                sent = n.send_secure(to_id, enc);
            });
            sk::sleep_ns(200 * kMs + p.knob("lat_max_us", 500) * 2000);
            to.run([&](en::Node& n) { after = n.reputation_score(from_id); });
            const Sample s1 = observe("after probe");
            ctx.probe("probes");
            // both ends held one and the same key from before the send until after the delivery window, on a session both
            // report connected: the message must have been read and authenticated
            const bool steady = s0.a.connected && s0.b.connected && s1.a.connected && s1.b.connected && s0.a.key && s0.b.key && s1.a.key && s1.b.key
                                && *s0.a.key == *s0.b.key && *s1.a.key == *s1.b.key && *s0.a.key == *s1.a.key;
            if (steady) ctx.probe("probes_with_equal_keys");
            if (sent && steady && after == before && before > -90 && !near_pause(s1.t))
                ctx.violate("C39.message_lost_with_equal_keys", fmt("both ends hold the same session key and report the session connected, yet a signed message from node %c sent at %.3f s was not accepted by the other end", op.at(0) == 0 ? 'A' : 'B', s0.t / 1e9));
            if (sent && !steady && after == before) ctx.probe("probe_lost_inside_switch_window");
        } else if (op.k == "pause_ticks") {
            NodeProc& n = *nodes[op.at(0) == 0 ? 0 : 1];
            const std::int64_t ps = sk::now_ns();
            n.actor.tick_enabled = false;
            advance(op.at(1) * kMs, "during tick starvation");
            n.actor.tick_enabled = true;
            n.actor.next_tick = sk::now_ns();
            pauses.push_back({ps, sk::now_ns()});
            ctx.fault("tick_starvation");
        } else if (op.k == "restart") {
            const int i = op.at(0) == 0 ? 0 : 1;
            const std::int64_t ps = sk::now_ns();
            nodes[i]->crash();
            graveyard.push_back(std::move(nodes[i]));
            ctx.fault("node_crash_restart");
            advance(op.at(1) * kMs, "while one node is down");
            ++generation[i];
            nodes[i] = std::make_unique<NodeProc>();
            // same host, same peer id, same identity seed: only the key state is lost; the listener gets a new port
            nodes[i]->start(std::string(i == 0 ? "nodeA" : "nodeB") + ".r" + std::to_string(generation[i]), i == 0 ? sk::ip(10, 0, 1, 1) : sk::ip(10, 0, 1, 2), i == 0 ? kA : kB,
                            i == 0 ? ca : cb, i == 0 ? ta : tb, sk::now_ns() + 50 * kMs);
            // the session is re-established out of band + connect, by the restarted node or by the survivor
            const int initiator = op.at(2) ? i : 1 - i;
            const bool relinked = link_nodes(*nodes[initiator], *nodes[1 - initiator]);
            if (!relinked) ctx.probe("relink_failed");
            else { ctx.boundary("session_reestablished_after_restart"); established = sk::now_ns(); }
            // the interval in which the session was down or being re-established is not judged
            pauses.push_back({ps, sk::now_ns()});
            observe("after restart");
        }
    }
    // settle: several more rotation intervals with both ticking
    advance(3 * rotation * kSec + 3 * G, "settling");

    // (3) the property over the sampled history: whatever key one end holds at an instant at which both ends report the
    // session connected, the other end holds the same key at some instant no further than G away (unless the session
    // was down, or a node was being starved of ticks, around that instant).
    const std::int64_t t_last = samples.empty() ? 0 : samples.back().t;
    auto judge = [&](bool a_side) {
        for (std::size_t i = 0; i < samples.size(); ++i) {
            const Sample& si = samples[i];
            const View& mine = a_side ? si.a : si.b;
            if (!(si.a.connected && si.b.connected) || !mine.key) continue;
            if (si.t + G > t_last || near_pause(si.t)) continue;
            bool matched = false, window_down = false;
            for (std::size_t j = 0; j < samples.size() && !matched; ++j) {
                const Sample& sj = samples[j];
                if (sj.t < si.t - G || sj.t > si.t + G) continue;
                if (!(sj.a.connected && sj.b.connected)) window_down = true;
                const View& other = a_side ? sj.b : sj.a;
                if (other.key && *other.key == *mine.key) matched = true;
            }
            if (matched || window_down) continue;
            const View& other = a_side ? si.b : si.a;
            const char me = a_side ? 'A' : 'B', them = a_side ? 'B' : 'A';
            if (pauses.empty() && std::min(si.a.counter, si.b.counter) == 0 && std::max(si.a.counter, si.b.counter) >= 2)
                ctx.violate("C39.one_side_never_rotates", fmt("at %.3f s both ends report the session connected; node A has rotated %llu times, node B %llu times although both tick regularly, and node %c never holds node %c's key within %.1f s", si.t / 1e9, (unsigned long long)si.a.counter, (unsigned long long)si.b.counter, them, me, G / 1e9));
            else
                ctx.violate("C39.keys_differ_after_rotation", fmt("at %.3f s both ends report the session connected and node %c holds a session key (rotation #%llu) that node %c (rotation #%llu) does not hold at any instant within %.1f s before or after", si.t / 1e9, me, (unsigned long long)mine.counter, them, (unsigned long long)other.counter, G / 1e9));
            return;
        }
    };
    judge(true);
    judge(false);
    nodes[0]->stop();
    nodes[1]->stop();
}

Scenario make_c39() {
    Scenario s;
    s.id = "C39"; s.world = "W2"; s.level = "exploration";
    s.technique = "deterministic simulation: two real Nodes with an established session tick at seeded, different periods and phases (with per-call clock jitter and tick starvation) across several rotation intervals; keys, transport keys and connectivity of both ends are sampled densely (every half tick period) and judged as a history: every key held by one end must be held by the other within a bounded lag; signed probes sent while both ends hold the same key must be accepted end to end";
    s.real_components = {"Node (tick, rotate_session_keys, send_secure, handle_transport_message)", "KeyManager (rotate_if_needed, derive_key)", "SessionManager"};
    s.stub_components = {"OS: threads -> fibers, sockets -> simulated TCP, clock (with seeded per-read jitter), entropy"};
    s.assumptions = {"two honest ends may hold different keys only while one of them has passed a rotation boundary and the other has not ticked yet: every key one end holds (while both report the session connected) must be held by the other end at some sampled instant within G = the larger tick period + 4 x max latency + 1 s + 2 sampling steps; tear-down and re-handshake is also accepted", "samples around a tick starvation of either node are not judged"};
    s.rule = "plan = rotation interval {5,7,20,60 s}, two tick periods and phases, latency, jitter, preemption + 2..8 ops (advance 1..61 s, end-to-end probe, tick starvation of one side, crash + restart of one node with the same identity after 0..40 s followed by re-establishment from either side); non-trivial = at least one rotation happened, a side was starved of ticks or a node was restarted; distinct = plan hash";
    s.gen = gen_c39; s.exec = exec_c39; s.kernel_knobs = knobs_c39;
    s.quick_runs = 1500; s.thorough_runs = 60000; s.quick_secs = 45; s.thorough_secs = 900;
    return s;
}
Registrar reg_c39(make_c39);

}  // namespace
