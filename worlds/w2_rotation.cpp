// W2 — C39: key rotation never leaves the two ends of a session on different keys.
// Two real Nodes with an established session tick at seeded, different periods and phases while
// the simulated clock advances across several rotation intervals (clock reads jitter per call).
#include "worlds/net_common.hpp"

using namespace wl;

namespace {

const en::PeerId kA = make_id(0xA1, 0x11);
const en::PeerId kB = make_id(0xB2, 0x22);

Plan gen_c39(sk::Rng& r, Tier) {
    Plan p;
    p.knobs["rotation"] = r.pick<std::int64_t>({5, 7, 20, 60});
    p.knobs["tick_a_ms"] = r.pick<std::int64_t>({200, 500, 1000, 1700});
    p.knobs["tick_b_ms"] = r.pick<std::int64_t>({300, 1000, 1300, 4000});
    p.knobs["phase_a_ms"] = static_cast<std::int64_t>(r.below(1000));
    p.knobs["phase_b_ms"] = static_cast<std::int64_t>(r.below(1000));
    p.knobs["lat_max_us"] = r.pick<std::int64_t>({0, 500, 20000});
    p.knobs["jitter"] = r.pick<std::int64_t>({0, 1, 1});
    p.knobs["preempt"] = r.pick<std::int64_t>({0, 128, 512});
    const int n = static_cast<int>(r.range(2, 8));
    for (int i = 0; i < n; ++i) {
        Op op;
        const auto c = r.below(100);
        if (c < 50) { op.k = "adv"; op.a = {r.pick<std::int64_t>({1000, 3000, 5500, 8000, 21000, 61000})}; }
        else if (c < 85) { op.k = "probe"; op.a = {static_cast<std::int64_t>(r.below(2))}; }
        else { op.k = "pause_ticks"; op.a = {static_cast<std::int64_t>(r.below(2)), r.pick<std::int64_t>({2000, 9000, 30000})}; }
        p.ops.push_back(op);
    }
    return p;
}

sk::Knobs knobs_c39(const Plan& p) {
    sk::Knobs k;
    k.lat_max_ns = p.knob("lat_max_us", 500) * 1000;
    k.sock_buf_min = 16384; k.sock_buf_max = 262144;
    k.preempt_per_1024 = static_cast<std::uint32_t>(p.knob("preempt", 128));
    k.clock_jitter = p.knob("jitter", 1) != 0;
    k.jitter_ns = 2000;
    k.max_steps = 4'000'000;
    return k;
}

void exec_c39(const Plan& p, Ctx& ctx) {
    const std::int64_t rotation = p.knob("rotation", 20);
    NodeProc A, B;
    en::Config ca = base_config(301), cb = base_config(302);
    ca.key_rotation_interval = cb.key_rotation_interval = seconds(rotation);
    ca.cleanup_interval = cb.cleanup_interval = seconds(100000);
    const std::int64_t ta = p.knob("tick_a_ms", 1000) * kMs, tb = p.knob("tick_b_ms", 1000) * kMs;
    A.start("nodeA", sk::ip(10, 0, 1, 1), kA, ca, ta, p.knob("phase_a_ms", 0) * kMs);
    B.start("nodeB", sk::ip(10, 0, 1, 2), kB, cb, tb, p.knob("phase_b_ms", 0) * kMs);
    if (!link_nodes(A, B)) { ctx.violate("C39.setup_failed", "two honest nodes could not establish a session"); A.stop(); B.stop(); return; }
    const std::int64_t established = sk::now_ns();
    const std::int64_t G = 2 * std::max(ta, tb) + p.knob("lat_max_us", 500) * 1000 * 4 + kSec;
    std::int64_t diverged_since = -1;   // first instant at which both ends were seen connected with different keys
    std::int64_t paused_until[2] = {0, 0};
    bool any_pause = false;
    for (auto& op : p.ops) if (op.k == "pause_ticks") any_pause = true;

    struct View { std::optional<std::array<std::uint8_t, 32>> key, transport_key; bool connected = false; std::uint64_t counter = 0; };
    auto view = [&](NodeProc& n, const en::PeerId& other) {
        View v;
        n.run([&](en::Node& node) {
            v.key = node.session_key(other);
            v.connected = node.sessions_.is_connected(other);
            std::scoped_lock lock(node.sessions_.sessions_mutex_);
            auto it = node.sessions_.sessions_.find(en::peer_id_to_string(other));
            if (it != node.sessions_.sessions_.end() && it->second) v.transport_key = it->second->key;
            auto kc = node.key_manager_.contexts_.find(en::peer_id_to_string(other));
            if (kc != node.key_manager_.contexts_.end()) v.counter = kc->second.counter;
        });
        return v;
    };

    auto observe = [&](const char* when) {
        const View a = view(A, kB), b = view(B, kA);
        const std::int64_t now = sk::now_ns();
        const bool both_connected = a.connected && b.connected;
        const bool differ = a.key && b.key && *a.key != *b.key;
        const bool ticking = now > paused_until[0] + G && now > paused_until[1] + G;
        // (1) internal consistency on each node: the transport encrypts with the key the key manager holds
        if (a.connected && a.key && a.transport_key && *a.key != *a.transport_key && ticking)
            ctx.violate("C39.transport_key_stale", fmt("node A: the session encrypts with a key that is not the current session key (%s)", when));
        if (b.connected && b.key && b.transport_key && *b.key != *b.transport_key && ticking)
            ctx.violate("C39.transport_key_stale", fmt("node B: the session encrypts with a key that is not the current session key (%s)", when));
        // (2) before any rotation can have happened the keys must agree
        if (both_connected && differ && now < established + rotation * kSec - kSec)
            ctx.violate("C39.keys_differ_before_rotation", fmt("keys differ %.3f s after the handshake although the rotation interval is %lld s (%s)", (now - established) / 1e9, (long long)rotation, when));
        // (3) the property: not connected-with-different-keys for longer than G
        if (both_connected && differ) {
            if (diverged_since < 0) diverged_since = now;
            if (now - diverged_since > G && ticking) {
                if (!any_pause && std::min(a.counter, b.counter) == 0 && std::max(a.counter, b.counter) >= 2)
                    ctx.violate("C39.one_side_never_rotates", fmt("both ends connected for %.1f s with different keys; A rotated %llu times, B %llu times although both tick regularly (%s)", (now - diverged_since) / 1e9, (unsigned long long)a.counter, (unsigned long long)b.counter, when));
                else
                    ctx.violate("C39.keys_differ_after_rotation", fmt("both ends report the session connected for %.1f s (> %.1f s) while holding different keys after %llu rotation(s) (%s)", (now - diverged_since) / 1e9, G / 1e9, (unsigned long long)a.counter, when));
            }
        } else {
            diverged_since = -1;
        }
        if (a.counter > 0 || b.counter > 0) ctx.boundary("rotation_happened");
        ctx.state(a.counter * 64 + b.counter * 4 + (both_connected ? 2 : 0) + (differ ? 1 : 0));
    };

    for (auto& op : p.ops) {
        ++ctx.ops_done;
        if (op.k == "adv") {
            // observe a few times across the advance so that a divergence has a start and a duration
            const std::int64_t total = op.at(0) * kMs;
            const int slices = 4;
            for (int i = 0; i < slices; ++i) { sk::sleep_ns(total / slices); observe("during advance"); }
        } else if (op.k == "probe") {
            // end-to-end: a negative acknowledgement sent now must cost the sender reputation at the receiver
            NodeProc& from = op.at(0) == 0 ? A : B;
            NodeProc& to = op.at(0) == 0 ? B : A;
            const en::PeerId from_id = op.at(0) == 0 ? kA : kB, to_id = op.at(0) == 0 ? kB : kA;
            int before = 0, after = 0;
            bool sent = false, connected_from = false, connected_to = false;
            to.run([&](en::Node& n) { before = n.reputation_score(from_id); connected_to = n.sessions_.is_connected(from_id); });
            from.run([&](en::Node& n) {
                connected_from = n.sessions_.is_connected(to_id);
                const auto key = n.session_key(to_id);
                if (!key) return;
                en::protocol::Message m{};
                m.type = en::protocol::MessageType::Acknowledge;
                m.payload = en::protocol::AcknowledgePayload{make_id(0xDD, 0x01), from_id, false};
                const auto enc = en::protocol::encode_signed(m, std::span<const std::uint8_t>(*key));
                sent = n.send_secure(to_id, enc);
            });
            sk::sleep_ns(200 * kMs + p.knob("lat_max_us", 500) * 2000);
            to.run([&](en::Node& n) { after = n.reputation_score(from_id); });
            ctx.probe("probes");
            if (sent && connected_from && connected_to && after == before && before > -98) ctx.probe("probe_lost_on_connected_session");
            observe("after probe");
        } else if (op.k == "pause_ticks") {
            NodeProc& n = op.at(0) == 0 ? A : B;
            n.actor.tick_enabled = false;
            sk::sleep_ns(op.at(1) * kMs);
            n.actor.tick_enabled = true;
            n.actor.next_tick = sk::now_ns();
            paused_until[op.at(0)] = sk::now_ns();
            ctx.fault("tick_starvation");
            observe("after tick starvation");
        }
    }
    // settle: several more rotation intervals with both ticking
    for (int i = 0; i < 6; ++i) { sk::sleep_ns((rotation * kSec) / 2 + G); observe("settling"); }
    A.stop();
    B.stop();
}

Scenario make_c39() {
    Scenario s;
    s.id = "C39"; s.world = "W2"; s.level = "exploration";
    s.technique = "deterministic simulation: two real Nodes with an established session tick at seeded, different periods and phases (with per-call clock jitter and tick starvation) across several rotation intervals; keys, rotation counters, transport keys and connectivity of both ends are sampled and the duration of any connected-but-different-keys state is measured";
    s.real_components = {"Node (tick, rotate_session_keys, send_secure, handle_transport_message)", "KeyManager (rotate_if_needed, derive_key)", "SessionManager"};
    s.stub_components = {"OS: threads -> fibers, sockets -> simulated TCP, clock (with seeded per-read jitter), entropy"};
    s.assumptions = {"a divergence shorter than G = 2 x the larger tick period + 4 x max latency + 1 s is tolerated (tear-down and re-handshake within G would also be accepted)"};
    s.rule = "plan = rotation interval {5,7,20,60 s}, two tick periods and phases, latency, jitter, preemption + 2..8 ops (advance 1..61 s, end-to-end probe, tick starvation of one side); non-trivial = at least one rotation happened or a side was starved of ticks; distinct = plan hash";
    s.gen = gen_c39; s.exec = exec_c39; s.kernel_knobs = knobs_c39;
    s.quick_runs = 1500; s.thorough_runs = 60000; s.quick_secs = 45; s.thorough_secs = 900;
    return s;
}
Registrar reg_c39(make_c39);

}  // namespace
