// W1 — C05: a cleanup tick removes all expired state and reports each expiry once.
// A consumer Node is fed by its own stores, by manifests of a second (publisher) Node, by
// announces delivered to its transport handler entry point, and by provider registrations.
#include "worlds/common.hpp"

#include <errno.h>
#include <sys/stat.h>

using namespace wl;

namespace {

const en::PeerId kSelf = make_id(0xA1, 0x11);
const en::PeerId kPub = make_id(0xB2, 0x22);

en::PeerId peer_n(int n) { return make_id(static_cast<std::uint8_t>(0x40 + n), 0x33); }
en::ChunkId local_id(int i) { return make_id(static_cast<std::uint8_t>(i + 1)); }
en::ChunkId remote_id(int i) { return make_id(static_cast<std::uint8_t>(i + 101), 0x77); }

Plan gen_c05(sk::Rng& r, Tier) {
    Plan p;
    const std::int64_t mn = r.pick<std::int64_t>({1, 2, 5, 30});
    const std::int64_t mx = mn + r.pick<std::int64_t>({5, 60, 600, 3600});
    p.knobs["min_ttl"] = mn; p.knobs["max_ttl"] = mx; p.knobs["def_ttl"] = r.range(mn, mx);
    p.knobs["cleanup"] = r.pick<std::int64_t>({1, 2, 5, 30, 120});
    p.knobs["threshold"] = r.range(1, 3); p.knobs["total"] = r.range(3, 5);
    p.knobs["persistent"] = r.chance(1, 4);   // chunks are also kept as files that are wiped on expiry; disk faults can hit the cleanup
    const int n = static_cast<int>(r.range(5, 40));
    auto ttl = [&] { return r.chance(1, 4) ? r.pick<std::int64_t>({0, mn, mx, mx + 50}) : r.range(mn, std::min(mx, mn + 90)); };
    for (int i = 0; i < n; ++i) {
        Op op;
        const auto c = r.below(100);
        if (c < 18) { op.k = "store"; op.a = {static_cast<std::int64_t>(r.below(3)), static_cast<std::int64_t>(r.below(300)), ttl()}; }
        else if (c < 28) { op.k = "pub_ingest"; op.a = {static_cast<std::int64_t>(r.below(3)), ttl()}; }            // publisher stores, consumer ingests manifest
        else if (c < 38) { op.k = "announce"; op.a = {static_cast<std::int64_t>(r.below(3)), ttl(), static_cast<std::int64_t>(r.below(3))}; }  // announce from the publisher about its chunk (announced ttl, peer)
        else if (c < 46) { op.k = "provider"; op.a = {static_cast<std::int64_t>(r.below(6)), static_cast<std::int64_t>(r.below(4)), r.range(1, 120)}; }  // dht provider registration (chunk, peer, ttl)
        else if (c < 52) { op.k = "replica"; op.a = {static_cast<std::int64_t>(r.below(3))}; }                        // receive_chunk of a publisher chunk
        // the node refreshes its own provider announcement for a chunk it holds, with a TTL unrelated to the chunk's remaining life
        else if (c < 57) { op.k = "self_announce"; op.a = {static_cast<std::int64_t>(r.below(6)), r.pick<std::int64_t>({1, mn, 30, 120, mx, 2 * mx + 7})}; }
        else if (c < 62) { op.k = "lookup"; op.a = {static_cast<std::int64_t>(r.below(3)), static_cast<std::int64_t>(r.below(3))}; }   // get_record / fetch_chunk / export of a local chunk
        else if (c < 74) { op.k = "adv"; op.a = {r.pick<std::int64_t>({10, 999, 1000, 1001, 5000, 30000, 120000, 4000000})}; }
        else if (c < 84) { op.k = "adv_to"; op.a = {static_cast<std::int64_t>(r.below(3)), r.pick<std::int64_t>({-1, 0, 1, 500})}; }
        else if (c < 97 || !p.knobs["persistent"]) { op.k = "tick"; }
        else { op.k = "disk_fault"; op.a = {static_cast<std::int64_t>(r.below(4)), static_cast<std::int64_t>(r.below(2))}; }   // the k-th file call from now on fails (EIO / ENOSPC)
        p.ops.push_back(op);
    }
    return p;
}

struct LocalChunk { std::int64_t deadline; bool expired_reported = false; };

void exec_c05(const Plan& p, Ctx& ctx) {
    en::Config c = base_config(21);
    c.min_manifest_ttl = seconds(p.knob("min_ttl")); c.max_manifest_ttl = seconds(p.knob("max_ttl")); c.default_chunk_ttl = seconds(p.knob("def_ttl"));
    c.cleanup_interval = seconds(p.knob("cleanup"));
    if (p.knob("persistent", 0)) {
        c.storage_persistent_enabled = true; c.storage_wipe_on_expiry = true; c.storage_wipe_passes = 1;
        c.storage_directory = sk::scratch_dir() + "/c05-store";
        ::mkdir(c.storage_directory.c_str(), 0700);
    }
    c.shard_threshold = static_cast<std::uint8_t>(p.knob("threshold")); c.shard_total = static_cast<std::uint8_t>(p.knob("total"));
    c.announce_min_interval = seconds(1); c.announce_burst_limit = 1000;
    en::Config cp = c; cp.identity_seed = 22; cp.cleanup_interval = seconds(100000); cp.storage_persistent_enabled = false;
    auto node = std::make_unique<en::Node>(kSelf, c);
    auto pub = std::make_unique<en::Node>(kPub, cp);
    const std::int64_t mn = node->config().min_manifest_ttl.count(), mx = node->config().max_manifest_ttl.count(), df = node->config().default_chunk_ttl.count();

    std::map<int, LocalChunk> locals;                 // chunks stored on the consumer (model deadlines)
    std::map<int, en::protocol::Manifest> pub_manifests;
    std::map<int, en::ChunkData> pub_cipher;
    std::map<int, std::int64_t> replica_deadline;     // consumer copies of publisher chunks (remote index)
    std::map<std::string, int> notified;              // chunk key -> count
    std::set<std::string> expected_expired;           // keys of consumer-held chunks whose deadline has been swept by a cleanup
    std::uint64_t tag = 1;

    auto drain = [&] {
        for (auto& k : node->drain_cleanup_notifications()) {
            if (++notified[k] > 1) ctx.violate("C05.notified_twice", "expiry of chunk " + k.substr(0, 8) + " reported more than once");
        }
    };

    auto check_after_cleanup = [&](std::int64_t T) {
        const auto steadyT = steady_at(T);
        for (auto& [key, rec] : node->chunk_store_.chunks_)
            if (rec.expires_at <= steadyT) ctx.violate("C05.expired_chunk_held", "chunk " + key.substr(0, 8) + " expired but still held after cleanup");
        for (auto& [key, loc] : node->dht_.table_) {
            if (loc.holders.empty()) ctx.violate("C05.empty_locator_held", "empty locator kept for " + key.substr(0, 8));
            for (auto& h : loc.holders)
                if (h.expires_at <= steadyT) ctx.violate("C05.expired_provider_held", "expired provider contact kept for chunk " + key.substr(0, 8));
        }
        for (auto& [key, sh] : node->dht_.shard_table_)
            if (sh.expires_at <= steadyT) ctx.violate("C05.expired_shard_record_held", "expired key-share record kept for " + key.substr(0, 8));
        for (auto& b : node->dht_.buckets_)
            for (auto& ct : b)
                if (ct.expires_at <= steadyT) ctx.violate("C05.expired_contact_held", "expired routing contact kept after cleanup");
        const auto wallT = std::chrono::system_clock::time_point(std::chrono::nanoseconds(sk::kWallEpochNs + T));
        for (auto& [key, m] : node->manifest_cache_)
            if (m.expires_at <= wallT) ctx.violate("C05.expired_manifest_cached", "cached manifest for " + key.substr(0, 8) + " expired but kept after cleanup");
        for (auto& [key, plan] : node->swarm_plans_) {
            auto it = node->manifest_cache_.find(key);
            const bool expired = it == node->manifest_cache_.end() ? true : it->second.expires_at <= wallT;
            if (expired) ctx.violate("C05.expired_swarm_plan", "swarm plan for " + key.substr(0, 8) + " kept after its manifest expired");
        }
        const auto audit = node->audit_ttl();
        if (!audit.expired_local_chunks.empty() || !audit.expired_locator_chunks.empty() || !audit.expired_contacts.empty())
            ctx.violate("C05.audit_reports_expired", fmt("audit_ttl after cleanup: %zu expired chunks, %zu locators, %zu contacts", audit.expired_local_chunks.size(), audit.expired_locator_chunks.size(), audit.expired_contacts.size()));
        // own announcement withdrawn for every consumer-held chunk that expired by T
        auto own_withdrawn = [&](const en::ChunkId& id, std::int64_t deadline) {
            if (deadline > T) return;
            const auto key = en::chunk_id_to_string(id);
            expected_expired.insert(key);
            auto it = node->dht_.table_.find(key);
            if (it == node->dht_.table_.end()) return;
            for (auto& h : it->second.holders)
                if (h.id == kSelf) ctx.violate("C05.own_announcement_not_withdrawn", "self still listed as provider of expired chunk " + key.substr(0, 8));
        };
        for (auto& [i, lc] : locals) own_withdrawn(local_id(i), lc.deadline);
        for (auto& [i, dl] : replica_deadline) own_withdrawn(remote_id(i), dl);
    };

    for (auto& op : p.ops) {
        ++ctx.ops_done;
        const std::int64_t now = sk::now_ns();
        if (op.k == "store") {
            const int i = static_cast<int>(op.at(0));
            // a chunk overwritten while expired-but-unswept would be a second lifetime of the same key: keep ids single-lifetime
            if (locals.count(i)) { ctx.probe("store_skipped_id_reused"); continue; }
            node->store_chunk(local_id(i), make_payload(static_cast<std::size_t>(op.at(1)), tag++), seconds(op.at(2)));
            locals[i] = {now + model_ttl(op.at(2), df, mn, mx) * kSec};
        } else if (op.k == "pub_ingest" || op.k == "announce" || op.k == "replica") {
            const int i = static_cast<int>(op.at(0));
            if (!pub_manifests.count(i)) {
                const auto payload = make_payload(64 + static_cast<std::size_t>(i), 1000 + static_cast<std::uint64_t>(i));
                pub_manifests[i] = pub->store_chunk(remote_id(i), payload, seconds(op.k == "replica" ? mx : op.at(1)));
                pub_cipher[i] = pub->chunk_store_.get_record(remote_id(i))->data;
            }
            const auto uri = en::protocol::encode_manifest(pub_manifests[i]);
            if (op.k == "pub_ingest") {
                if (node->ingest_manifest(uri)) ctx.probe("manifest_ingested"); else ctx.probe("manifest_rejected");
            } else if (op.k == "announce") {
                en::protocol::AnnouncePayload a{};
                a.chunk_id = remote_id(i); a.peer_id = kPub; a.endpoint = "10.0.0.9:4000"; a.ttl = seconds(op.at(1)); a.manifest_uri = uri;
                node->handle_announce(a, kPub, en::protocol::kCurrentMessageVersion);
                ctx.probe("announce_delivered");
            } else {
                if (replica_deadline.count(i)) continue;
                const auto remaining = wall_to_sim(pub_manifests[i].expires_at) - now;
                if (auto got = node->receive_chunk(uri, pub_cipher[i])) {
                    // deadline per the property: no later than the manifest's own expiry, capped at max TTL
                    replica_deadline[i] = now + std::min<std::int64_t>((remaining / kSec) * kSec, mx * kSec);
                    ctx.probe("replica_stored");
                }
            }
        } else if (op.k == "provider") {
            en::PeerContact ct{};
            ct.id = peer_n(static_cast<int>(op.at(1)));
            ct.address = "10.0.1." + std::to_string(op.at(1)) + ":4000";
            const int ci = static_cast<int>(op.at(0));
            node->dht_.add_contact(ci < 3 ? local_id(ci) : remote_id(ci - 3), ct, seconds(op.at(2)));
        } else if (op.k == "self_announce") {
            const int ci = static_cast<int>(op.at(0));
            const en::ChunkId id = ci < 3 ? local_id(ci) : remote_id(ci - 3);
            // only for chunks the node holds right now (announcing something it never held is a caller error, not this property)
            const bool live = ci < 3 ? (locals.count(ci) && now < locals[ci].deadline) : (replica_deadline.count(ci - 3) && now < replica_deadline[ci - 3]);
            if (live && node->chunk_store_.chunks_.count(en::chunk_id_to_string(id))) { node->announce_chunk(id, seconds(op.at(1))); ctx.boundary("self_announce_of_held_chunk"); }
        } else if (op.k == "lookup") {
            const int i = static_cast<int>(op.at(0));
            auto it = locals.find(i);
            if (it != locals.end() && now >= it->second.deadline && node->chunk_store_.chunks_.count(en::chunk_id_to_string(local_id(i)))) ctx.boundary("lookup_between_deadline_and_tick");
            switch (op.at(1)) {
                case 0: node->chunk_store_.get_record(local_id(i)); break;
                case 1: node->fetch_chunk(local_id(i)); break;
                default: node->export_chunk_record(local_id(i)); break;
            }
        } else if (op.k == "disk_fault") {
            // an I/O error during the cleanup's wipe must not keep the expired chunk (or its notification) back
            sk::fs_fault_at(0, static_cast<int>(op.at(0)), op.at(1) ? ENOSPC : EIO);
            ctx.fault("disk_fault_armed");
        } else if (op.k == "adv") {
            sk::sleep_ns(op.at(0) * kMs);
        } else if (op.k == "adv_to") {
            auto it = locals.find(static_cast<int>(op.at(0)));
            if (it != locals.end()) {
                const std::int64_t target = it->second.deadline + op.at(1) * kMs;
                if (target > sk::now_ns()) sk::sleep_ns(target - sk::now_ns());
            }
        } else if (op.k == "tick") {
            node->tick();
            if (steady_to_sim(node->last_cleanup_) == sk::now_ns()) {
                ctx.probe("cleanup_ran");
                check_after_cleanup(sk::now_ns());
                drain();
            }
        }
        std::uint64_t h = node->chunk_store_.chunks_.size() * 131 + node->dht_.table_.size() * 17 + node->manifest_cache_.size();
        ctx.state(h);
    }
    // settle: go past every deadline, run one more cleanup, and reconcile the notifications
    std::int64_t last = sk::now_ns();
    for (auto& [i, lc] : locals) last = std::max(last, lc.deadline);
    for (auto& [i, dl] : replica_deadline) last = std::max(last, dl);
    last = std::max(last, sk::now_ns() + (mx + 1) * kSec);
    sk::sleep_ns(last - sk::now_ns() + p.knob("cleanup") * kSec + kSec);
    node->tick();
    if (steady_to_sim(node->last_cleanup_) == sk::now_ns()) check_after_cleanup(sk::now_ns());
    drain();
    for (auto& key : expected_expired) {
        if (!notified.count(key)) ctx.violate("C05.expiry_not_notified", "chunk " + key.substr(0, 8) + " expired and was cleaned up without a cleanup notification");
    }
    for (auto& [key, n] : notified)
        if (!expected_expired.count(key)) ctx.violate("C05.spurious_notification", "cleanup notification for " + key.substr(0, 8) + " which did not expire");
    node.reset();
    pub.reset();
}

Scenario make_c05() {
    Scenario s;
    s.id = "C05"; s.world = "W1"; s.level = "exploration";
    s.technique = "deterministic simulation: seeded histories on a real consumer Node (+ real publisher Node) under a simulated clock; full private-state invariant after every cleanup tick; notification multiset reconciled at the end";
    s.real_components = {"Node (tick, store_chunk, ingest_manifest, receive_chunk, handle_announce, audit_ttl)", "ChunkStore", "KademliaTable", "SwarmCoordinator", "Manifest codec"};
    s.stub_components = {"OS clock -> simulated", "entropy -> seeded", "announces delivered through the node's handler entry point, not over a socket"};
    s.assumptions = {"each local chunk id is stored once per run so that 'reported exactly once' is unambiguous"};
    s.rule = "plan = config + 5..40 ops (store, publisher manifest ingest, announce, provider registration, replica receipt, (in a quarter of the runs) persistent storage with wipe-on-expiry and injected disk errors, the node re-announcing a held chunk with an unrelated TTL, lookups incl. between deadline and tick, advances incl. exactly to deadlines, ticks); non-trivial = a lookup hit a chunk between its deadline and the next cleanup, or the node re-announced a held chunk; distinct = plan hash";
    s.gen = gen_c05; s.exec = exec_c05;
    s.kernel_knobs = [](const Plan&) { sk::Knobs k; k.preempt_per_1024 = 0; return k; };
    s.quick_runs = 30000; s.thorough_runs = 1500000; s.quick_secs = 40; s.thorough_secs = 600;
    return s;
}
Registrar reg_c05(make_c05);

}  // namespace
