// C02, control-plane part (DESIGN §6 C02): "the control plane refuses STORE TTLs outside that window". One run in N of the C02
// check starts the real `eph serve` main with a seeded [min, max] TTL window and sends STOREs whose TTL header is absent, at and
// around the window's ends, zero, huge, or spelt so that only a wrapping parser reads it as in range.
#pragma once
#include "harness/harness.hpp"
namespace wl {
hz::Plan gen_c02_control(sk::Rng& r);
void exec_c02_control(const hz::Plan& p, hz::Ctx& ctx);
sk::Knobs c02_control_knobs(const hz::Plan& p);
}
