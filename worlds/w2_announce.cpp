// W2 — C21: announces change node state only when admissible and within the per-peer throttle.
// Scripted peers with real sessions send timed ANNOUNCE sequences to a real Node; the outcome of
// each is read from the public reputation delta, the state from the node's tables.
#include "worlds/w2_rig.hpp"

using namespace wl;

namespace {

enum Kind { Admissible = 0, WrongPeerId, EmptyManifest, Undecodable, Expired, TooShort, ChunkMismatch, ThresholdZero, TooFewShards, AssignedMissing, BadPow, OldVersion, kKinds };
const char* kind_name[] = {"admissible", "peer_id_not_sender", "empty_manifest", "undecodable_manifest", "expired_manifest", "remaining_below_min_ttl", "chunk_id_mismatch",
                           "threshold_zero", "too_few_shards", "assigned_shard_missing", "bad_pow", "version_below_3_with_pow"};

Plan gen_c21(sk::Rng& r, Tier) {
    Plan p;
    gen_rig_knobs(p, r);
    p.knobs["lat_max_us"] = r.pick<std::int64_t>({0, 0, 200, 2000});
    // mostly small values (many boundary crossings per run), sometimes degenerate or beyond the one-hour window cap
    p.knobs["interval"] = r.chance(1, 6) ? r.pick<std::int64_t>({0, -3, 4000, 7200}) : r.pick<std::int64_t>({1, 2, 5, 15});
    p.knobs["burst"] = r.chance(1, 10) ? 0 : r.pick<std::int64_t>({1, 2, 4});
    p.knobs["window"] = r.chance(1, 8) ? r.pick<std::int64_t>({0, 5000}) : r.pick<std::int64_t>({5, 20, 120});
    p.knobs["difficulty"] = r.chance(1, 2) ? r.pick<std::int64_t>({0, 0, 4, 8}) : r.range(1, 12);   // every residue modulo 8
    p.knobs["min_ttl"] = r.pick<std::int64_t>({5, 30});
    p.knobs["peers"] = r.range(1, 3);
    const std::int64_t I = std::max<std::int64_t>(p.knobs["interval"], 1), W = std::max(std::max<std::int64_t>(p.knobs["window"], 1), I);
    const bool long_interval = I > 3000;
    const int n = static_cast<int>(r.range(3, 22));
    for (int i = 0; i < n; ++i) {
        Op op;
        op.k = "announce";
        const std::int64_t kind = r.chance(3, 5) ? 0 : r.range(1, kKinds - 1);
        std::int64_t gap = r.pick<std::int64_t>({0, 50, I * 1000 - 300, I * 1000 + 300, I * 500, W * 1000 - 300, W * 1000 + 300, 1000, 120300, 119000, 180500, 179000, 61000, 302000});
        if (long_interval && r.chance(1, 2)) gap = r.pick<std::int64_t>({3599000, 3600300, 3700000, I * 1000 - 300, I * 1000 + 300, 1800000});
        op.a = {static_cast<std::int64_t>(r.below(3)), static_cast<std::int64_t>(r.below(4)), kind, gap, r.pick<std::int64_t>({3, 4, 4}), static_cast<std::int64_t>(r.below(3))};
        p.ops.push_back(op);
    }
    if (r.chance(1, 5)) {
        // four rejections of one peer from a clean point: the first is more than 120 s old when the third arrives, the last three lie within
        // a minute; then a valid announce, which must find the peer locked out
        const std::int64_t a = r.pick<std::int64_t>({70, 100, 115}), b = r.pick<std::int64_t>({55, 60, 75}), c = r.pick<std::int64_t>({3, 10, 20});
        const std::int64_t peer = static_cast<std::int64_t>(r.below(3)), chunk = static_cast<std::int64_t>(r.below(4));
        auto push = [&](std::int64_t kind, std::int64_t gap_ms) { Op o; o.k = "announce"; o.a = {peer, chunk, kind, gap_ms, 4, static_cast<std::int64_t>(r.below(3))}; p.ops.push_back(o); };
        const std::int64_t bad = r.range(1, kKinds - 1);
        push(bad, 302000); push(bad, a * 1000); push(bad, b * 1000); push(bad, c * 1000); push(0, r.pick<std::int64_t>({2000, 30000, 100000}));
    }
    return p;
}

struct Obs { std::int64_t s, e; bool accepted; };

void exec_c21(const Plan& p, Ctx& ctx) {
    const int difficulty = static_cast<int>(p.knob("difficulty", 0));
    en::Config c = base_config(61);
    c.announce_min_interval = seconds(p.knob("interval", 15));
    c.announce_burst_limit = static_cast<std::size_t>(p.knob("burst", 4));
    c.announce_burst_window = seconds(p.knob("window", 120));
    c.announce_pow_difficulty = static_cast<std::uint8_t>(difficulty);
    c.min_manifest_ttl = seconds(p.knob("min_ttl", 30));
    c.max_manifest_ttl = seconds(7200);
    c.key_rotation_interval = seconds(3600);
    c.cleanup_interval = seconds(100000);
    c.fetch_retry_attempt_limit = 1;
    Rig rig;
    rig.start_node(c, 5000);
    // the limits the node itself reports after sanitising its configuration
    std::int64_t interval = 1, window = 1; std::size_t burst = 1;
    rig.node.run([&](en::Node& n) { interval = n.config().announce_min_interval.count(); window = n.config().announce_burst_window.count(); burst = n.config().announce_burst_limit; });
    if (interval < 1 || burst < 1 || window < 1) ctx.violate("C21.throttle_disabled_by_configuration", fmt("the node reports an announce throttle of interval %lld s, burst %zu, window %lld s for configured %lld/%lld/%lld", (long long)interval, burst, (long long)window, (long long)p.knob("interval"), (long long)p.knob("burst"), (long long)p.knob("window")));
    if (interval < p.knob("interval")) ctx.violate("C21.configured_interval_not_honoured", fmt("configured minimum interval %lld s, the node enforces %lld s", (long long)p.knob("interval"), (long long)interval));
    interval = std::max<std::int64_t>(interval, std::max<std::int64_t>(p.knob("interval"), 1));
    window = std::max<std::int64_t>(window, 1);
    burst = std::max<std::size_t>(burst, 1);
    const int npeers = static_cast<int>(p.knob("peers", 2));
    for (int i = 0; i < npeers; ++i) if (rig.add_peer(static_cast<std::uint8_t>(0x61 + i)) < 0) { ctx.violate("C21.setup_failed", "scripted handshake failed"); rig.stop(); return; }
    std::vector<std::vector<Obs>> history(static_cast<std::size_t>(npeers));
    struct Lock { bool any_rejection = false, tracking = false, definite = false; std::int64_t last_rejection_end = 0, s3 = 0, e3 = 0; std::vector<Obs> fresh; };
    std::vector<Lock> locks(static_cast<std::size_t>(npeers));

    struct Snap { std::string manifest; std::int64_t shard_exp = -1; std::int64_t contact_exp = -1; bool pending = false; bool operator==(const Snap&) const = default; };
    auto snapshot = [&](const en::ChunkId& id, const en::PeerId& peer) {
        Snap s;
        rig.node.run([&](en::Node& n) {
            std::unique_lock<std::recursive_mutex> lock(n.scheduler_mutex_);
            const auto key = en::chunk_id_to_string(id);
            if (auto it = n.manifest_cache_.find(key); it != n.manifest_cache_.end()) s.manifest = pr::encode_manifest(it->second);
            if (auto it = n.dht_.shard_table_.find(key); it != n.dht_.shard_table_.end()) s.shard_exp = steady_to_sim(it->second.expires_at);
            if (auto it = n.dht_.table_.find(key); it != n.dht_.table_.end()) for (auto& h : it->second.holders) if (h.id == peer) s.contact_exp = steady_to_sim(h.expires_at);
            s.pending = n.pending_chunk_fetches_.count(key) != 0;
        });
        return s;
    };

    std::uint64_t uniq = 1;
    std::vector<std::int64_t> connected_at(static_cast<std::size_t>(npeers), sk::now_ns());
    for (auto& op : p.ops) {
        ++ctx.ops_done;
        const int pi = static_cast<int>(op.at(0)) % npeers;
        RigPeer& peer = *rig.peers[static_cast<std::size_t>(pi)];
        const int kind = static_cast<int>(op.at(2));
        sk::sleep_ns(op.at(3) * kMs);
        // the node rotates session keys (at most hourly); a scripted peer does not follow rotations, it re-establishes its
        // session instead (the announce history and lock-out of a peer are kept per peer id, not per session)
        if (sk::now_ns() - connected_at[static_cast<std::size_t>(pi)] > 3000 * kSec) {
            if (!rig.reconnect(pi)) { ctx.violate("C21.session_lost", "an honest peer could not re-establish its session: " + peer.conn.last_error); break; }
            connected_at[static_cast<std::size_t>(pi)] = sk::now_ns();
            ctx.probe("reconnected_after_long_gap");
        }
        const en::ChunkId chunk = make_id(static_cast<std::uint8_t>(0x10 + op.at(1)), 0x71);
        // build the announce
        pr::Manifest m = make_manifest(chunk, 3, 2, (p.knob("min_ttl", 30) + 600) * kSec);
        m.metadata["n"] = std::to_string(uniq++);  // every announce carries a distinct manifest
        if (kind == Expired) m.expires_at -= std::chrono::seconds(p.knob("min_ttl", 30) + 700);
        if (kind == TooShort) m.expires_at -= std::chrono::seconds(603);  // remaining = min_ttl - 3 s
        if (kind == ChunkMismatch) m.chunk_id = make_id(0x7f, 0x72);
        if (kind == ThresholdZero) m.threshold = 0;
        if (kind == TooFewShards) { m.threshold = 3; m.shards.resize(2); }
        pr::AnnouncePayload a{};
        a.chunk_id = chunk;
        a.peer_id = kind == WrongPeerId ? make_id(0x6f, 0x13) : peer.ident.id;
        a.endpoint = "10.0.3." + std::to_string(pi + 1) + ":4100";
        a.ttl = seconds(300);
        a.manifest_uri = pr::encode_manifest(m);
        if (kind == EmptyManifest) a.manifest_uri.clear();
        if (kind == Undecodable) a.manifest_uri = "eph://not-a-manifest-" + std::to_string(uniq);
        if (op.at(5) == 1) a.assigned_shards = {1};
        if (op.at(5) == 2) a.assigned_shards = {1, 3};
        if (kind == AssignedMissing) a.assigned_shards = {1, 9};
        std::uint8_t version = static_cast<std::uint8_t>(op.at(4));
        if (kind == OldVersion) { if (difficulty == 0) continue; version = 2; }
        if (kind == BadPow) {
            if (difficulty == 0) continue;
            // an invalid nonce, in half of the cases the nearest miss there is (exactly one leading zero bit short)
            if (op.at(1) % 2 == 0) { ref_near_miss_announce_pow(a, difficulty); ctx.boundary("announce_pow_one_bit_short"); } else ref_solve_announce_pow(a, difficulty, false);
        }
        else ref_solve_announce_pow(a, difficulty, true);
        const std::uint8_t wire_version = version < 1 ? 1 : (version > 4 ? 4 : version);
        const bool admissible = kind == Admissible && !(difficulty > 0 && wire_version < 3);
        ctx.probe(std::string("sent_") + kind_name[kind]);
        // before
        const Snap before = snapshot(chunk, peer.ident.id);
        int rep_before = 0;
        rig.node.run([&](en::Node& n) { rep_before = n.reputation_score(peer.ident.id); });
        const std::int64_t t_send = sk::now_ns();
        pr::Message msg{};
        msg.version = version;
        msg.type = pr::MessageType::Announce;
        msg.payload = a;
        if (!rig.send(pi, msg) || !rig.barrier(pi)) { ctx.violate("C21.session_lost", "session of an announcing peer broke: " + peer.conn.last_error); break; }
        const std::int64_t t_done = sk::now_ns();
        int rep_after = 0;
        rig.node.run([&](en::Node& n) { rep_after = n.reputation_score(peer.ident.id); });
        const Snap after = snapshot(chunk, peer.ident.id);
        const int delta = rep_after - rep_before;
        bool accepted;
        if (delta == 1 || (rep_before == 100 && delta == 0 && !(before == after))) accepted = true;
        else if (delta == -2 || (rep_before <= -99 && delta <= 0)) accepted = false;
        else { ctx.probe("outcome_unreadable"); continue; }
        history[static_cast<std::size_t>(pi)].push_back({t_send, t_done, accepted});
        ctx.probe(accepted ? "accepted" : "rejected");
        if (accepted && !admissible)
            ctx.violate(std::string("C21.inadmissible_accepted.") + kind_name[kind], fmt("an announce with defect '%s' was accepted (reputation %d -> %d)", kind_name[kind], rep_before, rep_after));
        // A rejected announce must not add or extend anything. The node's own periodic work runs meanwhile and may legitimately
        // take things away (a pending fetch that ran out of attempts, a record whose re-publication carries the remaining,
        // i.e. shorter, lifetime): only additions and extensions are attributed to the announce.
        if (!accepted) {
            const bool manifest_changed = before.manifest != after.manifest && !after.manifest.empty();
            const bool shards_extended = after.shard_exp > before.shard_exp;
            const bool contact_extended = after.contact_exp > before.contact_exp;
            const bool fetch_created = after.pending && !before.pending;
            if (!(before == after) && !(manifest_changed || shards_extended || contact_extended || fetch_created)) ctx.probe("state_shrank_during_a_rejected_announce_not_judged");
            if (manifest_changed || shards_extended || contact_extended || fetch_created)
                ctx.violate("C21.state_changed_on_rejected", fmt("a rejected announce ('%s') changed the node's state for the announced chunk (manifest %s, shard record %s, contact %s, pending fetch %s)", kind_name[kind],
                                                                manifest_changed ? "changed" : "same", shards_extended ? "extended" : "same", contact_extended ? "extended" : "same", fetch_created ? "created" : "same"));
        }
        // throttle over the history of this peer (conservative with respect to handling-time uncertainty)
        auto& h = history[static_cast<std::size_t>(pi)];
        if (accepted) {
            std::vector<const Obs*> acc;
            for (auto& o : h) if (o.accepted) acc.push_back(&o);
            if (acc.size() >= 2) {
                const Obs* prev = acc[acc.size() - 2];
                const std::int64_t widest = acc.back()->e - prev->s;
                if (widest < interval * kSec)
                    ctx.violate("C21.min_interval", fmt("two announces of one peer accepted at most %.3f s apart; minimum interval %lld s", widest / 1e9, (long long)interval));
                if (std::llabs(widest - interval * kSec) < 400 * kMs) ctx.boundary("accept_spacing_near_min_interval");
            }
            if (acc.size() > burst) {
                const Obs* first = acc[acc.size() - burst - 1];
                const std::int64_t widest = acc.back()->e - first->s;
                if (widest < window * kSec)
                    ctx.violate("C21.burst_limit", fmt("%zu announces of one peer accepted within %.3f s; burst limit %zu per %lld s window", burst + 1, widest / 1e9, burst, (long long)window));
                if (std::llabs(widest - window * kSec) < 400 * kMs) ctx.boundary("burst_near_window_edge");
            }
        }
        // Lockout rule, judged only where every reading of "three rejections within 120 s lock the peer out for
        // 180 s" agrees: starting from a clean point (no rejection of this peer in the preceding 301 s, so neither an
        // earlier lockout nor an earlier partial count can exist), the first three rejections, with no acceptance in
        // between, all within 120 s, start a lockout whose definite extent is (end of the third, its start + 180 s).
        // Whether rejections received while locked out count towards the next lockout, and whether an acceptance
        // resets the count, is left open by the statement; such histories are not judged until the next clean point.
        {
            auto& L = locks[static_cast<std::size_t>(pi)];
            const Obs cur = h.back();
            if (!accepted) {
                const bool clean = !L.any_rejection || cur.s - L.last_rejection_end > 301 * kSec;
                if (clean) { L.fresh.clear(); L.fresh.push_back(cur); L.tracking = true; L.definite = false; }
                else if (L.tracking && !L.definite) {
                    L.fresh.push_back(cur);
                    if (L.fresh.size() == 3) {
                        if (L.fresh[2].e - L.fresh[0].s < 119 * kSec) { L.definite = true; L.s3 = L.fresh[2].s; L.e3 = L.fresh[2].e; ctx.boundary("three_rejections_in_a_row"); }
                        else if (L.fresh[2].s - L.fresh[0].e <= 121 * kSec) { L.tracking = false; ctx.probe("three_rejections_at_the_edge_of_120s_not_judged"); }  // the node may or may not have locked the peer out: not judged until the next clean point
                        else {
                            // the window slides: the oldest of the three is more than 120 s old and no longer counts; the two newer ones still do
                            // (no lockout has begun since the clean point and nothing was accepted in between, so no reading can have dropped them)
                            L.fresh.erase(L.fresh.begin());
                            if (L.fresh[1].s - L.fresh[0].e > 121 * kSec) L.fresh.erase(L.fresh.begin());
                            else if (L.fresh[1].e - L.fresh[0].s >= 119 * kSec) { L.tracking = false; ctx.probe("three_rejections_at_the_edge_of_120s_not_judged"); }
                            ctx.probe("three_rejections_not_within_120s_window_slides");
                        }
                    }
                } else if (L.definite && cur.s > L.e3 && cur.e < L.s3 + 179 * kSec) ctx.probe("rejected_while_locked_out");
                L.any_rejection = true;
                L.last_rejection_end = cur.e;
            } else {
                if (L.definite && cur.s > L.e3 && cur.e < L.s3 + 179 * kSec)
                    ctx.violate("C21.lockout_ignored", fmt("an announce was accepted %.3f s after the third of three rejections within 120 s (no rejection in the 301 s before the first); lockout is 180 s", (cur.e - L.s3) / 1e9));
                if (L.tracking && !L.definite) { L.tracking = false; ctx.probe("acceptance_between_rejections_not_judged"); }
            }
        }
        ctx.state(static_cast<std::uint64_t>(kind) * 4 + (accepted ? 1 : 0) + static_cast<std::uint64_t>(pi) * 64);
    }
    rig.stop();
}

Scenario make_c21() {
    Scenario s;
    s.id = "C21"; s.world = "W2"; s.level = "exploration";
    s.technique = "deterministic simulation: scripted peers with real sessions send timed ANNOUNCE sequences (admissible and defective in every listed way) to a real Node under seeded throttle configurations; outcomes read from the reputation delta, state from the node's tables, time from the simulated clock";
    s.real_components = {"Node (handle_announce, register_incoming_announce, announce lockout, verify_announce_pow, schedule_assigned_fetch)", "SessionManager", "Manifest/Message codecs", "KademliaTable"};
    s.stub_components = {"OS: threads -> fibers, sockets -> simulated TCP, clock, entropy", "announcing peers are scripted processes; PoW solved by an independent reference"};
    s.assumptions = {"one-directional ('only if'): acceptance of every admissible announce is not required",
                     "handling time of an announce is only known to lie between send and barrier completion; spacing rules are judged with the widest possible gap, so boundary-exact spacings are generated but not flagged",
                     "the lockout rule is judged from a clean point (no rejection in the preceding 301 s) for rejections with no acceptance in between, with a sliding 120 s window until the first lockout begins; whether rejections during a lockout count again and whether an acceptance resets the count are left open by the statement"};
    s.rule = "plan = throttle triple, PoW difficulty, min TTL, 1..3 peers, network knobs + 3..22 announces (12 kinds: admissible + each inadmissibility) with gaps around the interval/window/120 s/180 s boundaries; non-trivial = acceptances spaced near a throttle boundary or three rejections in a row; distinct = plan hash; a fifth of the runs end with four rejections of one peer at 0, 70..115, +55..75, +3..20 s after a clean point and a valid announce (sliding 120 s lock-out window)";
    s.gen = gen_c21; s.exec = exec_c21; s.kernel_knobs = rig_knobs;
    s.quick_runs = 2500; s.thorough_runs = 100000; s.quick_secs = 50; s.thorough_secs = 900;
    return s;
}
Registrar reg_c21(make_c21);

}  // namespace
