// World W1 — store world: one real Node (ChunkStore, KademliaTable, SwarmCoordinator,
// KeyManager, crypto, codecs) driven by a single driver fiber against reference models.
// Clock, entropy and files are the simulated ones. Properties: C01 C02 C05 (Node level).
#include "worlds/common.hpp"
#include "worlds/swarm_variant.hpp"
#include "worlds/c02_control_variant.hpp"

using namespace wl;

namespace {

struct CfgKnobs {
    std::int64_t min_ttl, max_ttl, def_ttl, cleanup;
    int threshold, total;
};

CfgKnobs gen_cfg(sk::Rng& r) {
    CfgKnobs k{};
    k.min_ttl = r.pick<std::int64_t>({1, 1, 2, 5, 30, 60});
    k.max_ttl = k.min_ttl + r.pick<std::int64_t>({0, 1, 10, 100, 3600, 21600});
    if (k.max_ttl > 86400) k.max_ttl = 86400;
    k.def_ttl = r.range(k.min_ttl, k.max_ttl);
    k.cleanup = r.pick<std::int64_t>({1, 2, 5, 30, 300});
    k.threshold = static_cast<int>(r.range(1, 4));
    k.total = static_cast<int>(r.range(k.threshold, 6));
    return k;
}

void put_cfg(Plan& p, const CfgKnobs& k) {
    p.knobs["min_ttl"] = k.min_ttl; p.knobs["max_ttl"] = k.max_ttl; p.knobs["def_ttl"] = k.def_ttl;
    p.knobs["cleanup"] = k.cleanup; p.knobs["threshold"] = k.threshold; p.knobs["total"] = k.total;
}

en::Config cfg_from_plan(const Plan& p) {
    en::Config c = base_config(static_cast<std::uint32_t>(p.knob("identity", 7)));
    c.min_manifest_ttl = seconds(p.knob("min_ttl", 30));
    c.max_manifest_ttl = seconds(p.knob("max_ttl", 21600));
    c.default_chunk_ttl = seconds(p.knob("def_ttl", 3600));
    c.cleanup_interval = seconds(p.knob("cleanup", 300));
    c.shard_threshold = static_cast<std::uint8_t>(p.knob("threshold", 3));
    c.shard_total = static_cast<std::uint8_t>(p.knob("total", 5));
    return c;
}

std::int64_t pick_ttl(sk::Rng& r, const CfgKnobs& k) {
    switch (r.below(10)) {
        case 0: return 0;
        case 1: return -5;
        case 2: return 1;
        case 3: return k.min_ttl - 1;
        case 4: return k.min_ttl;
        case 5: return k.max_ttl;
        case 6: return k.max_ttl + 1;
        case 7: return 1'000'000'000LL;
        default: return r.range(k.min_ttl, std::min<std::int64_t>(k.max_ttl, k.min_ttl + 120));
    }
}

// ---------------------------------------------------------------- model
struct Entry {
    en::ChunkData payload;
    en::protocol::Manifest manifest;
    std::int64_t deadline = 0;  // sim ns
    std::int64_t ttl_eff = 0;
    std::uint64_t tag = 0;
};

struct World {
    std::unique_ptr<en::Node> node;
    std::map<int, Entry> model;       // id index -> live-or-not-yet-forgotten entry
    std::int64_t min_ttl, max_ttl, def_ttl;
    std::uint64_t tags = 1;
};

const en::PeerId kSelf = make_id(0xA1, 0x11);

bool live(const Entry& e) { return sk::now_ns() < e.deadline; }

void check_read(World& w, Ctx& ctx, int idx, int path) {
    const en::ChunkId id = make_id(static_cast<std::uint8_t>(idx + 1));
    auto it = w.model.find(idx);
    const bool should = it != w.model.end() && live(it->second);
    const std::int64_t now = sk::now_ns();
    if (it != w.model.end()) {
        if (now == it->second.deadline) ctx.boundary("read_exactly_at_deadline");
        else if (now > it->second.deadline) ctx.probe("read_after_deadline");
        else ctx.probe("read_while_live");
    } else ctx.probe("read_unknown");
    static const char* names[] = {"get", "get_record", "fetch_chunk", "export_record", "listing"};
    const std::string pn = names[path];
    auto check_cipher = [&](const en::ChunkData& cipher, const char* what) {
        const auto key = key_from_manifest(it->second.manifest);
        const auto plain = en::crypto::CryptoManager::decrypt_with_key(key, id, std::span<const std::uint8_t>(cipher), it->second.manifest.nonce);
        if (!plain || *plain != it->second.payload)
            ctx.violate("C01.wrong_bytes." + pn, fmt("%s of chunk %d returned bytes that do not decrypt to the stored payload (%s)", what, idx, short_hex(it->second.payload).c_str()));
    };
    switch (path) {
        case 0: {
            auto got = w.node->chunk_store_.get(id);
            if (should && !got) ctx.violate("C01.live_not_served.get", fmt("get(chunk %d) empty at t=%.3f, deadline %.3f", idx, now / 1e9, it->second.deadline / 1e9));
            if (!should && got) ctx.violate("C01.served_after_deadline.get", fmt("get(chunk %d) served at t=%.3f, deadline %.3f", idx, now / 1e9, it == w.model.end() ? -1.0 : it->second.deadline / 1e9));
            if (should && got) check_cipher(*got, "get");
            break;
        }
        case 1:
        case 3: {
            auto got = path == 1 ? w.node->chunk_store_.get_record(id) : w.node->export_chunk_record(id);
            if (should && !got) ctx.violate("C01.live_not_served." + pn, fmt("%s(chunk %d) empty at t=%.3f, deadline %.3f", pn.c_str(), idx, now / 1e9, it->second.deadline / 1e9));
            if (!should && got) ctx.violate("C01.served_after_deadline." + pn, fmt("%s(chunk %d) served at t=%.3f, deadline %.3f", pn.c_str(), idx, now / 1e9, it == w.model.end() ? -1.0 : it->second.deadline / 1e9));
            if (should && got) {
                check_cipher(got->data, pn.c_str());
                if (steady_to_sim(got->expires_at) != it->second.deadline)
                    ctx.violate("C01.wrong_deadline." + pn, fmt("record of chunk %d expires at %.3f, model deadline %.3f", idx, steady_to_sim(got->expires_at) / 1e9, it->second.deadline / 1e9));
            }
            break;
        }
        case 2: {
            auto got = w.node->fetch_chunk(id);
            if (should && !got) ctx.violate("C01.live_not_served.fetch_chunk", fmt("fetch_chunk(chunk %d) empty at t=%.3f, deadline %.3f", idx, now / 1e9, it->second.deadline / 1e9));
            if (!should && got) ctx.violate("C01.served_after_deadline.fetch_chunk", fmt("fetch_chunk(chunk %d) served at t=%.3f, deadline %.3f", idx, now / 1e9, it == w.model.end() ? -1.0 : it->second.deadline / 1e9));
            if (should && got && *got != it->second.payload)
                ctx.violate("C01.wrong_bytes.fetch_chunk", fmt("fetch_chunk(chunk %d) returned %s, stored %s", idx, short_hex(*got).c_str(), short_hex(it->second.payload).c_str()));
            break;
        }
        case 4: {
            const auto list = w.node->stored_chunks();
            bool present = false;
            for (auto& e : list) {
                if (e.id != id) continue;
                present = true;
                if (should) {
                    if (steady_to_sim(e.expires_at) != it->second.deadline)
                        ctx.violate("C01.wrong_deadline.listing", fmt("listing shows chunk %d expiring at %.3f, model deadline %.3f", idx, steady_to_sim(e.expires_at) / 1e9, it->second.deadline / 1e9));
                    if (e.size != it->second.payload.size())
                        ctx.violate("C01.wrong_bytes.listing", fmt("listing shows chunk %d with size %zu, stored %zu", idx, e.size, it->second.payload.size()));
                }
            }
            if (should && !present) ctx.violate("C01.live_not_served.listing", fmt("listing lacks live chunk %d at t=%.3f", idx, now / 1e9));
            if (!should && present) ctx.violate("C01.served_after_deadline.listing", fmt("listing still shows chunk %d at t=%.3f, deadline %.3f", idx, now / 1e9, it == w.model.end() ? -1.0 : it->second.deadline / 1e9));
            break;
        }
        default: break;
    }
}

void do_store(World& w, Ctx& ctx, int idx, std::size_t size, std::int64_t ttl) {
    const en::ChunkId id = make_id(static_cast<std::uint8_t>(idx + 1));
    Entry e;
    e.tag = w.tags++;
    e.payload = make_payload(size, e.tag);
    auto prev = w.model.find(idx);
    if (prev != w.model.end() && live(prev->second)) ctx.probe("overwrite_live");
    e.ttl_eff = model_ttl(ttl, w.def_ttl, w.min_ttl, w.max_ttl);
    e.deadline = sk::now_ns() + e.ttl_eff * kSec;
    if (prev != w.model.end() && live(prev->second) && e.deadline < prev->second.deadline) ctx.boundary("overwrite_shortens_deadline");
    e.manifest = w.node->store_chunk(id, e.payload, seconds(ttl));
    w.model[idx] = std::move(e);
}

std::uint64_t abstract_state(World& w) {
    std::uint64_t h = 1;
    for (int i = 0; i < 4; ++i) {
        auto it = w.model.find(i);
        int s = 0;
        if (it != w.model.end()) s = live(it->second) ? 1 : 2;
        const bool held = w.node->chunk_store_.chunks_.count(en::chunk_id_to_string(make_id(static_cast<std::uint8_t>(i + 1)))) != 0;
        h = h * 7 + static_cast<std::uint64_t>(s * 2 + (held ? 1 : 0));
    }
    return h;
}

// ================================================================ C01
Plan gen_c01(sk::Rng& r, Tier) {
    Plan p;
    const CfgKnobs k = gen_cfg(r);
    put_cfg(p, k);
    const int n = static_cast<int>(r.range(4, 40));
    for (int i = 0; i < n; ++i) {
        Op op;
        const auto c = r.below(100);
        if (c < 25) { op.k = "store"; op.a = {static_cast<std::int64_t>(r.below(4)), static_cast<std::int64_t>(r.pick<std::int64_t>({0, 1, 31, 64, 65, 300, 4096})), pick_ttl(r, k)}; }
        else if (c < 55) { op.k = "read"; op.a = {static_cast<std::int64_t>(r.below(4)), static_cast<std::int64_t>(r.below(5))}; }
        else if (c < 70) { op.k = "adv"; op.a = {r.pick<std::int64_t>({1, 10, 500, 999, 1000, 1001, 5000, 30000, 600000})}; }
        else if (c < 88) { op.k = "adv_to"; op.a = {static_cast<std::int64_t>(r.below(4)), r.pick<std::int64_t>({-1000, -1, 0, 0, 1, 1000})}; }
        else if (c < 94) { op.k = "tick"; }
        else { op.k = "sweep"; }
        p.ops.push_back(op);
    }
    return p;
}

void exec_c01(const Plan& p, Ctx& ctx) {
    World w;
    w.min_ttl = p.knob("min_ttl"); w.max_ttl = p.knob("max_ttl"); w.def_ttl = p.knob("def_ttl");
    w.node = std::make_unique<en::Node>(kSelf, cfg_from_plan(p));
    // the node reports the sanitised window; the model uses what the node reports
    w.min_ttl = w.node->config().min_manifest_ttl.count();
    w.max_ttl = w.node->config().max_manifest_ttl.count();
    w.def_ttl = w.node->config().default_chunk_ttl.count();
    for (auto& op : p.ops) {
        ++ctx.ops_done;
        if (op.k == "store") do_store(w, ctx, static_cast<int>(op.at(0)), static_cast<std::size_t>(op.at(1)), op.at(2));
        else if (op.k == "read") check_read(w, ctx, static_cast<int>(op.at(0)), static_cast<int>(op.at(1)));
        else if (op.k == "adv") sk::sleep_ns(op.at(0) * kMs);
        else if (op.k == "adv_to") {
            auto it = w.model.find(static_cast<int>(op.at(0)));
            if (it != w.model.end()) {
                const std::int64_t target = it->second.deadline + op.at(1) * kMs;
                if (target > sk::now_ns()) sk::sleep_ns(target - sk::now_ns());
            }
        } else if (op.k == "tick") w.node->tick();
        else if (op.k == "sweep") w.node->chunk_store_.sweep_expired();
        ctx.state(abstract_state(w));
    }
    // closing sweep of all read paths for every id
    for (int idx = 0; idx < 4; ++idx)
        for (int path = 4; path >= 0; --path) check_read(w, ctx, idx, path);
    w.node.reset();
}

Scenario make_c01() {
    Scenario s;
    s.id = "C01"; s.world = "W1"; s.level = "exploration";
    s.technique = "deterministic simulation: seeded op sequences on a real Node under a simulated clock, checked op-by-op against a map reference model";
    s.real_components = {"Node", "ChunkStore", "KademliaTable", "SwarmCoordinator", "CryptoManager/ChaCha20/Shamir/Sha256", "Manifest codec"};
    s.stub_components = {"OS clock (steady+system) -> simulated", "std::random_device -> seeded stream", "no network (transport not started)"};
    s.assumptions = {"single driver fiber: operations take zero simulated time, so deadlines are exact",
                     "peer-request read path is exercised in W2 (C23/C11), not here"};
    s.rule = "plan = random config (TTL window, shards) + 4..40 ops over 4 chunk ids (store with boundary TTLs, reads through get/get_record/fetch_chunk/export/listing, "
             "advances incl. exactly to a deadline +-1ms, tick, sweep); non-trivial = a read landed exactly on a deadline or an overwrite shortened a live deadline; distinct = plan hash";
    s.gen = gen_c01;
    s.exec = exec_c01;
    s.kernel_knobs = [](const Plan&) { sk::Knobs k; k.preempt_per_1024 = 0; return k; };
    s.quick_runs = 40000; s.thorough_runs = 3000000; s.quick_secs = 40; s.thorough_secs = 600;
    add_swarm_variant(s, 100);
    return s;
}
Registrar reg_c01(make_c01);

}  // namespace

// ================================================================ C02
namespace {

const std::vector<std::int64_t> kWild = {-(1LL << 62), -86400, -1, 0, 1, 4, 5, 6, 29, 30, 31, 3599, 3600, 3601, 86399, 86400, 86401, 1LL << 31, 1LL << 62};

Plan gen_c02(sk::Rng& r, Tier) {
    Plan p;
    auto wild = [&] { return r.chance(1, 3) ? r.range(1, 90000) : r.pick(kWild); };
    p.knobs["min_ttl"] = wild(); p.knobs["max_ttl"] = wild(); p.knobs["def_ttl"] = wild();
    p.knobs["rotation"] = wild(); p.knobs["ann_interval"] = wild(); p.knobs["ann_window"] = wild();
    p.knobs["ann_burst"] = r.pick<std::int64_t>({0, 1, 4, 1000});
    p.knobs["pow_a"] = r.pick<std::int64_t>({0, 1, 23, 24, 25, 200, 255}); p.knobs["pow_h"] = r.pick<std::int64_t>({0, 1, 23, 24, 25, 255});
    p.knobs["pow_s"] = r.pick<std::int64_t>({0, 6, 24, 25, 255});
    p.knobs["cleanup"] = r.pick<std::int64_t>({1, 30, 300});
    p.knobs["threshold"] = r.range(0, 4); p.knobs["total"] = r.range(0, 6);
    const int n = static_cast<int>(r.range(1, 10));
    for (int i = 0; i < n; ++i) {
        Op op;
        if (r.chance(3, 4)) { op.k = "store"; op.a = {static_cast<std::int64_t>(r.below(3)), static_cast<std::int64_t>(r.below(200)), r.chance(1, 2) ? r.pick(kWild) : r.range(-10, 100000)}; }
        else { op.k = "adv"; op.a = {r.pick<std::int64_t>({1, 1000, 60000, 3600000})}; }
        p.ops.push_back(op);
    }
    return p;
}

void exec_c02(const Plan& p, Ctx& ctx) {
    en::Config c = base_config(11);
    c.min_manifest_ttl = seconds(p.knob("min_ttl")); c.max_manifest_ttl = seconds(p.knob("max_ttl")); c.default_chunk_ttl = seconds(p.knob("def_ttl"));
    c.key_rotation_interval = seconds(p.knob("rotation")); c.announce_min_interval = seconds(p.knob("ann_interval"));
    c.announce_burst_window = seconds(p.knob("ann_window")); c.announce_burst_limit = static_cast<std::size_t>(p.knob("ann_burst"));
    c.announce_pow_difficulty = static_cast<std::uint8_t>(p.knob("pow_a")); c.handshake_pow_difficulty = static_cast<std::uint8_t>(p.knob("pow_h"));
    c.store_pow_difficulty = static_cast<std::uint8_t>(p.knob("pow_s"));
    c.cleanup_interval = seconds(p.knob("cleanup", 300));
    c.shard_threshold = static_cast<std::uint8_t>(p.knob("threshold")); c.shard_total = static_cast<std::uint8_t>(p.knob("total"));
    if (p.knob("min_ttl") > p.knob("max_ttl")) ctx.boundary("inverted_window");
    if (p.knob("min_ttl") <= 0 || p.knob("max_ttl") <= 0 || p.knob("def_ttl") <= 0) ctx.boundary("non_positive_config_ttl");
    en::Node node(kSelf, c);
    const auto& e = node.config();
    const std::int64_t mn = e.min_manifest_ttl.count(), mx = e.max_manifest_ttl.count(), df = e.default_chunk_ttl.count(), rot = e.key_rotation_interval.count();
    if (!(1 <= mn && mn <= mx && mx <= 86400))
        ctx.violate("C02.window", fmt("effective TTL window [%lld,%lld] from config min=%lld max=%lld", (long long)mn, (long long)mx, (long long)p.knob("min_ttl"), (long long)p.knob("max_ttl")));
    if (!(mn <= df && df <= mx))
        ctx.violate("C02.default_outside_window", fmt("effective default TTL %lld outside [%lld,%lld]", (long long)df, (long long)mn, (long long)mx));
    if (!(5 <= rot && rot <= 3600)) ctx.violate("C02.rotation", fmt("effective key rotation %lld s outside [5,3600] (configured %lld)", (long long)rot, (long long)p.knob("rotation")));
    if (e.announce_pow_difficulty > 24 || e.handshake_pow_difficulty > 24 || e.store_pow_difficulty > 24)
        ctx.violate("C02.pow_cap", fmt("effective PoW difficulties %u/%u/%u exceed 24", e.announce_pow_difficulty, e.handshake_pow_difficulty, e.store_pow_difficulty));
    std::uint64_t tag = 1;
    for (auto& op : p.ops) {
        ++ctx.ops_done;
        if (op.k == "adv") { sk::sleep_ns(op.at(0) * kMs); continue; }
        const en::ChunkId id = make_id(static_cast<std::uint8_t>(op.at(0) + 1));
        const std::int64_t ttl = op.at(2);
        if (ttl <= 0) ctx.boundary("non_positive_requested_ttl");
        if (ttl > mx) ctx.boundary("requested_ttl_above_max");
        if (ttl > 0 && ttl < mn) ctx.boundary("requested_ttl_below_min");
        const std::int64_t t = sk::now_ns();
        const auto manifest = node.store_chunk(id, make_payload(static_cast<std::size_t>(op.at(1)), tag++), seconds(ttl));
        auto inside = [&](std::int64_t life_ns, const char* what) {
            if (life_ns < mn * kSec || life_ns > mx * kSec)
                ctx.violate(std::string("C02.lifetime.") + what, fmt("%s created by store(ttl=%lld) lives %.3f s, window [%lld,%lld]", what, (long long)ttl, life_ns / 1e9, (long long)mn, (long long)mx));
        };
        if (auto rec = node.chunk_store_.get_record(id)) inside(steady_to_sim(rec->expires_at) - t, "chunk_record");
        else ctx.violate("C02.lifetime.chunk_record", fmt("store(ttl=%lld) left no live chunk record", (long long)ttl));
        inside(wall_to_sim(manifest.expires_at) - t, "manifest_expiry");
        if (auto sh = node.dht_.shard_record(id)) inside(steady_to_sim(sh->expires_at) - t, "shard_record");
        else ctx.violate("C02.lifetime.shard_record", fmt("store(ttl=%lld) left no live shard record", (long long)ttl));
        bool self_found = false;
        for (auto& loc : node.dht_.snapshot_locators()) {
            if (loc.id != id) continue;
            for (auto& h : loc.holders) if (h.id == kSelf) { self_found = true; inside(steady_to_sim(h.expires_at) - t, "self_announcement"); }
        }
        if (!self_found) ctx.violate("C02.lifetime.self_announcement", fmt("store(ttl=%lld) left no self provider entry", (long long)ttl));
        ctx.state(static_cast<std::uint64_t>(mn * 1000003 + mx) ^ static_cast<std::uint64_t>(ttl));
    }
}

Scenario make_c02() {
    Scenario s;
    s.id = "C02"; s.world = "W1"; s.level = "exploration";
    s.technique = "deterministic simulation: random/boundary Config values and requested TTLs on a real Node under a simulated clock; exact lifetime arithmetic";
    s.real_components = {"Node (sanitize_config, store_chunk)", "ChunkStore", "KademliaTable", "Manifest", "control-plane variant: src/main.cpp serve main + ControlServer::handle_store (TTL header parsing and range check)"};
    s.stub_components = {"OS clock -> simulated", "entropy -> seeded"};
    s.assumptions = {"the control-plane clause is judged one-directionally: an accepted STORE must carry a TTL header that denotes an integer inside the window (or none); refusals are counted, not judged (admission is C28)"};
    s.rule = "plan = Config with each TTL/rotation/announce/PoW field drawn from {negative,0,1,boundaries+-1,2^31,2^62,random} + 1..10 stores with wild requested TTLs; non-trivial = inverted/non-positive window or a requested TTL outside the window; distinct = plan hash";
    // one run in 150 is the control-plane part: the real daemon with a seeded TTL window answers STOREs with TTL headers around it
    s.gen = [](sk::Rng& r, Tier t) { if (r.chance(1, 150)) return gen_c02_control(r); return gen_c02(r, t); };
    s.exec = [](const Plan& p, Ctx& c) { if (p.knob("c02_control", 0)) exec_c02_control(p, c); else exec_c02(p, c); };
    s.kernel_knobs = [](const Plan& p) { if (p.knob("c02_control", 0)) return c02_control_knobs(p); sk::Knobs k; k.preempt_per_1024 = 0; return k; };
    s.quick_runs = 40000; s.thorough_runs = 2000000; s.quick_secs = 30; s.thorough_secs = 600;
    return s;
}
Registrar reg_c02(make_c02);

}  // namespace
