// W4 — C30 (`eph fetch` only writes bytes that match the manifest, on every discovery path) and
// C31 (fetch output stays inside the chosen directory; the node only issues sanitised names).
// The real `eph fetch` main runs as a simulated process against: the real daemon (local control
// plane and real transport port), and scripted endpoints that know the manifest (and therefore the
// chunk key) and answer with correct / truncated / substituted / extended / empty bytes over the
// transport, relay, control-hint and control:// fallback paths.
#include "worlds/w4_common.hpp"

#include "ephemeralnet/crypto/CryptoManager.hpp"
#include "ephemeralnet/crypto/Shamir.hpp"
#include "ephemeralnet/protocol/Manifest.hpp"

#include <dirent.h>
#include <sys/stat.h>

using namespace wl;

namespace {

enum Mode { kCorrect = 0, kTruncated, kSubstituted, kExtended, kEmpty, kRefuse, kGarbage, kSubstitutedGround, kModeCount };
const char* mode_name[] = {"correct", "truncated", "substituted", "extended", "empty", "refuse", "garbage", "substituted_hash_prefix_ground"};

std::vector<std::uint8_t> variant_of(const std::vector<std::uint8_t>& p, int mode) {
    switch (mode) {
        case kCorrect: return p;
        case kTruncated: return std::vector<std::uint8_t>(p.begin(), p.begin() + static_cast<long>(p.size() / 2));
        case kSubstituted: { auto q = p; for (std::size_t i = 0; i < q.size(); i += 7) q[i] ^= 0x5a; if (q == p && !q.empty()) q[0] ^= 1; return q; }
        case kExtended: { auto q = p; q.push_back(0x42); q.push_back(0x43); return q; }
        case kEmpty: return {};
        case kSubstitutedGround: {
            // what an adversary who can afford a few hundred hash evaluations sends: other bytes of the same length whose SHA-256
            // starts with the same byte as the genuine payload's (a digest comparison that stops early accepts them)
            const auto want = en::crypto::Sha256::digest(std::span<const std::uint8_t>(p))[0];
            auto q = p;
            if (q.empty()) q.push_back(0);
            for (std::uint32_t ctr = 1; ctr < 200000; ++ctr) {
                q[0] = static_cast<std::uint8_t>(p.empty() ? ctr : p[0] ^ (ctr & 0xff));
                if (q.size() > 1) q[q.size() - 1] = static_cast<std::uint8_t>(p[p.size() - 1] ^ ((ctr >> 8) & 0xff));
                if (q.size() > 2) q[q.size() / 2] = static_cast<std::uint8_t>(p[p.size() / 2] ^ ((ctr >> 16) & 0xff) ^ 0x80);
                if (q != p && en::crypto::Sha256::digest(std::span<const std::uint8_t>(q))[0] == want) return q;
            }
            return q;
        }
        default: { std::vector<std::uint8_t> q(p.size() + 3); for (std::size_t i = 0; i < q.size(); ++i) q[i] = static_cast<std::uint8_t>(i * 31 + 7); return q; }
    }
}

en::crypto::Key key_of(const en::protocol::Manifest& m) {
    std::vector<en::crypto::ShamirShare> shares;
    for (auto& s : m.shards) { en::crypto::ShamirShare sh{}; sh.index = s.index; sh.value = s.value; shares.push_back(sh); }
    en::crypto::Key k{};
    k.bytes = en::crypto::Shamir::combine(shares, m.threshold);
    return k;
}

// ---- scripted endpoints (one simulated process on a foreign host)
struct Hostile {
    int pid = -1;
    std::uint32_t host = sk::ip(10, 0, 9, 9);
    PeerIdentity identity = PeerIdentity::make(0x77, 0x1234567u);
    std::uint16_t transport_port = 46000, relay_port = 49000, control_port = 48000, fallback_port = 48001, localctl_port = 48002;
    int transport_mode = kCorrect, relay_mode = kCorrect, control_mode = kCorrect, fallback_mode = kCorrect, local_mode = kCorrect;
    en::protocol::Manifest manifest;
    std::vector<std::uint8_t> plain;
    std::map<std::string, int> served;  // path -> times a payload was handed out
    bool stop = false;

    static int listen_on(std::uint16_t port) {
        const int fd = ::socket(AF_INET, SOCK_STREAM, 0);
        sockaddr_in a{};
        a.sin_family = AF_INET;
        a.sin_port = htons(port);
        a.sin_addr.s_addr = htonl(INADDR_ANY);
        int one = 1;
        ::setsockopt(fd, SOL_SOCKET, SO_REUSEADDR, &one, sizeof one);
        if (::bind(fd, reinterpret_cast<sockaddr*>(&a), sizeof a) != 0 || ::listen(fd, 16) != 0) { ::close(fd); return -1; }
        return fd;
    }

    void serve_transport(int fd, int mode, const std::string& tag) {
        PeerConn c;
        c.fd = fd;
        timeval tv{10, 0};
        ::setsockopt(fd, SOL_SOCKET, SO_RCVTIMEO, &tv, sizeof tv);
        en::PeerId their_id{};
        std::uint8_t len4[4];
        if (c.recv_all(their_id.data(), their_id.size()) != 1 || c.recv_all(len4, 4) != 1) { c.close_now(); return; }
        const std::uint32_t len = (std::uint32_t(len4[0]) << 24) | (std::uint32_t(len4[1]) << 16) | (std::uint32_t(len4[2]) << 8) | len4[3];
        if (len > 65536) { c.close_now(); return; }
        std::vector<std::uint8_t> frame(len);
        if (len && c.recv_all(frame.data(), len) != 1) { c.close_now(); return; }
        const auto hs = en::protocol::decode(frame);
        const auto* hp = hs ? std::get_if<en::protocol::TransportHandshakePayload>(&hs->payload) : nullptr;
        if (!hp) { c.close_now(); return; }
        c.key = ref_session_key(identity.scalar, identity.pub, hp->public_identity);
        c.have_key = true;
        if (mode == kRefuse) { c.close_now(); return; }
        en::protocol::Message ack{};
        ack.type = en::protocol::MessageType::HandshakeAck;
        ack.payload = en::protocol::HandshakeAckPayload{true, en::protocol::kCurrentMessageVersion, identity.pub};
        if (!c.send_signed(ack)) { c.close_now(); return; }
        auto req = c.recv_message();
        if (!req || req->type != en::protocol::MessageType::Request) { c.close_now(); return; }
        en::protocol::Message reply{};
        reply.type = en::protocol::MessageType::Chunk;
        en::protocol::ChunkPayload cp{};
        cp.chunk_id = manifest.chunk_id;
        cp.ttl = std::chrono::seconds(600);
        const auto bytes = variant_of(plain, mode);
        if (mode == kGarbage) cp.data = bytes;  // not even encrypted under the chunk key
        else {
            // the endpoint knows the manifest, hence the chunk key: it can encrypt any plaintext validly
            const auto ct = en::crypto::CryptoManager::decrypt_with_key(key_of(manifest), manifest.chunk_id, std::span<const std::uint8_t>(bytes), manifest.nonce);
            cp.data = ct.value_or(std::vector<std::uint8_t>{});
        }
        reply.payload = cp;
        if (c.send_signed(reply)) ++served[tag];
        sk::sleep_ns(50 * kMs);
        c.close_now();
    }

    void serve_control(int fd, int mode, const std::string& tag) {
        timeval tv{10, 0};
        ::setsockopt(fd, SOL_SOCKET, SO_RCVTIMEO, &tv, sizeof tv);
        std::string req;
        char ch;
        while (req.size() < 65536 && req.find("\n\n") == std::string::npos) {
            const ssize_t r = ::recv(fd, &ch, 1, 0);
            if (r <= 0) break;
            if (ch != '\r') req.push_back(ch);
        }
        if (mode == kRefuse) {
            const std::string resp = "STATUS:ERROR\nCODE:ERR_FETCH_NOT_FOUND\nMESSAGE:no such chunk\n\n";
            ::send(fd, resp.data(), resp.size(), MSG_NOSIGNAL);
        } else {
            const auto bytes = variant_of(plain, mode);
            std::string resp = "STATUS:OK\nSIZE:" + std::to_string(plain.size()) + "\nPAYLOAD-LENGTH:" + std::to_string(bytes.size()) + "\n\n";
            resp.append(bytes.begin(), bytes.end());
            std::size_t off = 0;
            while (off < resp.size()) { const ssize_t r = ::send(fd, resp.data() + off, resp.size() - off, MSG_NOSIGNAL); if (r <= 0) break; off += static_cast<std::size_t>(r); }
            if (off == resp.size()) ++served[tag];
        }
        ::shutdown(fd, SHUT_WR);
        sk::sleep_ns(50 * kMs);
        ::close(fd);
    }

    void serve_relay(int fd) {
        std::string line;
        char ch;
        timeval tv{10, 0};
        ::setsockopt(fd, SOL_SOCKET, SO_RCVTIMEO, &tv, sizeof tv);
        while (line.size() < 512) { const ssize_t r = ::recv(fd, &ch, 1, 0); if (r <= 0 || ch == '\n') break; line.push_back(ch); }
        if (line.rfind("CONNECT ", 0) != 0) { ::close(fd); return; }
        ::send(fd, "OK\n", 3, MSG_NOSIGNAL);
        serve_transport(fd, relay_mode, "relay");
    }

    void accept_loop(std::uint16_t port, std::function<void(int)> handler) {
        const int lfd = listen_on(port);
        if (lfd < 0) return;
        for (;;) {
            const int c = ::accept(lfd, nullptr, nullptr);
            if (c < 0) return;
            sk::go("hostile.conn", [handler, c] { handler(c); });
        }
    }

    void start() {
        pid = sk::spawn("hostile", host, [this] {
            ::signal(SIGPIPE, SIG_IGN);
            sk::go("hostile.transport", [this] { accept_loop(transport_port, [this](int c) { serve_transport(c, transport_mode, "transport"); }); });
            sk::go("hostile.relay", [this] { accept_loop(relay_port, [this](int c) { serve_relay(c); }); });
            sk::go("hostile.control", [this] { accept_loop(control_port, [this](int c) { serve_control(c, control_mode, "control"); }); });
            sk::go("hostile.fallback", [this] { accept_loop(fallback_port, [this](int c) { serve_control(c, fallback_mode, "fallback"); }); });
            sk::go("hostile.local", [this] { accept_loop(localctl_port, [this](int c) { serve_control(c, local_mode, "local"); }); });
            while (!stop) sk::sleep_ns(200 * kMs);
            return 0;
        }, 8u << 20);
    }
    void shutdown() { stop = true; if (pid >= 0) sk::kill(pid); }
};

bool read_file(const std::string& path, std::vector<std::uint8_t>& out) {
    FILE* f = ::fopen(path.c_str(), "rb");
    if (!f) return false;
    out.clear();
    std::uint8_t buf[4096];
    std::size_t n;
    while ((n = ::fread(buf, 1, sizeof buf, f)) > 0) out.insert(out.end(), buf, buf + n);
    ::fclose(f);
    return true;
}

void list_tree(const std::string& root, const std::string& rel, std::vector<std::string>& out) {
    DIR* d = ::opendir((root + rel).c_str());
    if (!d) return;
    while (auto* e = ::readdir(d)) {
        const std::string n = e->d_name;
        if (n == "." || n == "..") continue;
        const std::string r = rel + "/" + n;
        struct stat st;
        if (::lstat((root + r).c_str(), &st) != 0) continue;
        out.push_back(r + (S_ISDIR(st.st_mode) ? "/" : ""));
        if (S_ISDIR(st.st_mode)) list_tree(root, r, out);
    }
    ::closedir(d);
}

bool clean_name(const std::string& n) {
    if (n.empty() || n == "." || n == "..") return false;
    for (unsigned char ch : n) {
        if (ch < 0x20 || ch == 0x7f) return false;
        if (ch == '/' || ch == '\\' || ch == ':' || ch == '*' || ch == '?' || ch == '"' || ch == '<' || ch == '>' || ch == '|') return false;
    }
    return true;
}

struct Published {
    bool ok = false;
    std::string uri;
    en::protocol::Manifest manifest;
    std::vector<std::uint8_t> plain;
};

Published publish(Daemon& d, Actor& client, std::uint64_t salt, std::size_t size, const std::string& filename_header = "", bool hash_starts_with_zero = false) {
    Published pub;
    auto pl = make_payload(size, 52000 + salt);
    // optionally a payload whose SHA-256 starts with a zero byte (one stored file in 256 has one)
    for (std::uint64_t g = 1; hash_starts_with_zero && en::crypto::Sha256::digest(std::span<const std::uint8_t>(pl))[0] != 0 && g < 100000; ++g) pl = make_payload(size, 52000 + salt + 1000003 * g);
    pub.plain.assign(pl.begin(), pl.end());
    std::vector<std::pair<std::string, std::string>> f{{"COMMAND", "STORE"}, {"TTL", "900"}};
    std::string sanitized;
    if (!filename_header.empty()) { f.push_back({"PATH", filename_header}); sanitized = en::security::sanitize_filename_hint(filename_header).value_or(""); }
    f.push_back({"STORE-POW", std::to_string(ref_solve_store_pow(pub.plain, sanitized, 6))});
    f.push_back({"PAYLOAD-LENGTH", std::to_string(pub.plain.size())});
    CtlReply rep;
    client.call([&] { rep = ctl_exchange(ip_text(d.host), d.control_port, ctl_headers(f), pub.plain); });
    if (!rep.ok) return pub;
    pub.uri = rep.field("MANIFEST");
    try { pub.manifest = en::protocol::decode_manifest(pub.uri); pub.ok = true; } catch (...) {}
    return pub;
}

// ================================================================ C30
Plan gen_c30(sk::Rng& r, Tier) {
    Plan p;
    gen_w4_knobs(p, r);
    p.knobs["size"] = r.pick<std::int64_t>({1, 33, 700, 5000, 70000});
    // which paths the manifest advertises and how each endpoint answers; -1 = path absent
    auto path = [&](int absent_in_4) { return r.chance(static_cast<std::uint32_t>(absent_in_4), 4) ? std::int64_t{-1} : static_cast<std::int64_t>(r.below(kModeCount)); };
    p.knobs["transport"] = path(2);      // hint to the scripted publisher
    p.knobs["real_transport"] = r.chance(1, 4);  // hint to the real daemon's transport port (honest)
    p.knobs["relay"] = path(3);
    p.knobs["control"] = path(1);
    p.knobs["fallback"] = path(2);
    p.knobs["local"] = r.pick<std::int64_t>({0, 0, 1, 2, 2});  // 0 real daemon (has the chunk), 1 nothing listening, 2 scripted endpoint
    p.knobs["local_mode"] = static_cast<std::int64_t>(r.below(kModeCount));
    p.knobs["flags"] = r.pick<std::int64_t>({0, 0, 1, 2, 3});    // none, --direct-only, --transport-only, --control-fallback
    p.knobs["relay_shape"] = static_cast<std::int64_t>(r.below(2));
    p.knobs["dest"] = r.pick<std::int64_t>({0, 0, 0, 2, 2, 2, 1});  // 0 new file, 1 existing file (never overwritten without a tty), 2 directory
    p.knobs["bits"] = r.pick<std::int64_t>({0, 0, 4});
    p.knobs["zero_hash"] = r.chance(1, 3);   // the stored payload's SHA-256 starts with 0x00
    p.knobs["expired"] = r.chance(1, 5) ? r.range(1, 2) : 0;   // the manifest handed to the CLI has expired (1: an hour ago, 2: two seconds ago)
    if (p.knobs["zero_hash"] && p.knobs["size"] > 5000) p.knobs["size"] = 5000;
    Op op; op.k = "fetch"; p.ops.push_back(op);
    if (r.chance(1, 3)) p.ops.push_back(op);
    return p;
}

void exec_c30(const Plan& p, Ctx& ctx) {
    capture_reset();
    Daemon d;
    d.extra_args = {"--min-ttl", "5", "--max-ttl", "7200", "--default-ttl", "900"};
    d.start();
    if (!d.wait_ready()) { ctx.violate("C30.setup_failed", "daemon did not answer PING: " + sk::info(d.pid).exit_detail); d.stop(); return; }
    Actor client;
    client.start("ctl-client", d.host);
    auto pub = publish(d, client, 1, static_cast<std::size_t>(p.knob("size", 700)), "", p.knob("zero_hash", 0) != 0);
    if (!pub.ok) { ctx.violate("C30.setup_failed", "STORE failed"); client.shutdown(); d.stop(); return; }
    if (p.knob("zero_hash", 0)) ctx.boundary("payload_hash_starts_with_zero_byte");
    Hostile h;
    h.transport_mode = static_cast<int>(std::max<std::int64_t>(0, p.knob("transport", -1)));
    h.relay_mode = static_cast<int>(std::max<std::int64_t>(0, p.knob("relay", -1)));
    h.control_mode = static_cast<int>(std::max<std::int64_t>(0, p.knob("control", -1)));
    h.fallback_mode = static_cast<int>(std::max<std::int64_t>(0, p.knob("fallback", -1)));
    h.local_mode = static_cast<int>(p.knob("local_mode", 0));
    h.plain = pub.plain;

    // the manifest is not signed: whoever hands it out decides the hints and the publisher identity
    auto m = pub.manifest;
    const auto daemon_meta = m.metadata;
    m.discovery_hints.clear();
    m.fallback_hints.clear();
    m.security.token_challenge_bits = static_cast<std::uint8_t>(p.knob("bits", 0));
    std::uint8_t prio = 0;
    const std::string hh = ip_text(h.host);
    const bool scripted_transport = p.knob("transport", -1) >= 0 || p.knob("relay", -1) >= 0;
    if (scripted_transport) {
        m.metadata["publisher_peer"] = en::peer_id_to_string(h.identity.id);
        m.metadata["publisher_public"] = std::to_string(h.identity.pub);
    }
    if (p.knob("transport", -1) >= 0) m.discovery_hints.push_back({"transport", "tcp", hh + ":" + std::to_string(h.transport_port), prio++});
    if (p.knob("real_transport", 0) && !scripted_transport) m.discovery_hints.push_back({"transport", "tcp", ip_text(d.host) + ":" + std::to_string(d.transport_port), prio++});
    if (p.knob("relay", -1) >= 0) m.discovery_hints.push_back(p.knob("relay_shape", 0) ? en::protocol::DiscoveryHint{"transport", "relay", hh + ":" + std::to_string(h.relay_port), prio++}
                                                                                        : en::protocol::DiscoveryHint{"relay", "tcp", hh + ":" + std::to_string(h.relay_port) + (p.knob("relay_shape", 0) == 0 ? "?peer=" + en::peer_id_to_string(h.identity.id) : ""), prio++});
    if (p.knob("control", -1) >= 0) m.discovery_hints.push_back({"control", "control", hh + ":" + std::to_string(h.control_port), prio++});
    if (p.knob("fallback", -1) >= 0) m.fallback_hints.push_back({"control://" + hh + ":" + std::to_string(h.fallback_port), 0});
    h.manifest = m;
    // in some runs the manifest has already expired when `eph fetch` is given it (an hour ago, or a moment ago)
    if (const auto ex = p.knob("expired", 0); ex != 0) {
        m.expires_at = std::chrono::system_clock::time_point(std::chrono::nanoseconds(sk::kWallEpochNs + sk::now_ns())) - std::chrono::seconds(ex == 1 ? 3600 : 2);
        ctx.boundary("manifest_already_expired");
    }
    const std::string uri = en::protocol::encode_manifest(m);
    h.start();
    sk::sleep_ns(300 * kMs);
    bool hostile_possible = false;
    for (const char* k : {"transport", "relay", "control", "fallback"}) if (p.knob(k, -1) > 0 && p.knob(k, -1) != kRefuse) hostile_possible = true;
    if (p.knob("local") == 2 && p.knob("local_mode") > 0 && p.knob("local_mode") != kRefuse) hostile_possible = true;
    if (hostile_possible) ctx.boundary("endpoint_returns_other_bytes");

    const std::string out_root = sk::scratch_dir() + "/cli-out";
    ::mkdir(out_root.c_str(), 0700);
    const std::vector<std::uint8_t> old_content{'o', 'l', 'd', '-', 'f', 'i', 'l', 'e'};
    int n = 0;
    for (auto& op : p.ops) {
        (void)op;
        ++ctx.ops_done;
        ++n;
        std::string dest = out_root + "/out" + std::to_string(n) + ".bin";
        const int dest_kind = static_cast<int>(p.knob("dest", 0));
        if (dest_kind == 1) { FILE* f = ::fopen(dest.c_str(), "wb"); if (f) { ::fwrite(old_content.data(), 1, old_content.size(), f); ::fclose(f); } }
        if (dest_kind == 2) { dest = out_root + "/dir" + std::to_string(n); ::mkdir(dest.c_str(), 0700); }
        std::vector<std::string> args{"eph", "--yes", "--identity-seed", "777"};
        const int local = static_cast<int>(p.knob("local", 0));
        if (local == 0) { args.insert(args.end(), {"--control-host", ip_text(d.host), "--control-port", std::to_string(d.control_port)}); }
        else if (local == 1) { args.insert(args.end(), {"--control-host", hh, "--control-port", "48999"}); }
        else { args.insert(args.end(), {"--control-host", hh, "--control-port", std::to_string(h.localctl_port)}); }
        args.push_back("fetch");
        args.push_back(uri);
        args.push_back("--out");
        args.push_back(dest);
        switch (p.knob("flags", 0)) { case 1: args.push_back("--direct-only"); break; case 2: args.push_back("--transport-only"); break; case 3: args.push_back("--control-fallback"); break; default: break; }
        h.served.clear();
        const CliRun run = run_eph(sk::ip(10, 0, 7, 1), args);
        if (!run.finished) { ctx.violate("C30.cli_hung", "`eph fetch` did not finish within 600 simulated seconds"); continue; }
        if (run.kind != sk::ExitKind::Returned) ctx.violate("C30.cli_crashed", "`eph fetch` ended abnormally: " + sk::info(run.pid).exit_detail);
        if (::getenv("VERIF_SHOW")) fprintf(stderr, "---- eph %s ... exit=%d\n%s\n%s\n", args[args.size() > 9 ? 8 : 4].c_str(), run.exit_code, run.out.c_str(), run.err.c_str());
        for (auto& [k, v] : h.served) if (v) ctx.probe("served_" + k);
        ctx.probe(run.exit_code == 0 ? "cli_exit_0" : "cli_exit_nonzero");
        // ---- oracle: whatever file exists afterwards holds exactly the stored payload (or is the untouched old file)
        std::vector<std::string> files;
        if (dest_kind == 2) { std::vector<std::string> tree; list_tree(dest, "", tree); for (auto& t : tree) if (t.back() != '/') files.push_back(dest + t); }
        else { struct stat st; if (::stat(dest.c_str(), &st) == 0) files.push_back(dest); }
        for (auto& f : files) {
            std::vector<std::uint8_t> got;
            if (!read_file(f, got)) continue;
            if (dest_kind == 1 && got == old_content) { ctx.probe("old_file_untouched"); continue; }
            const auto digest = en::crypto::Sha256::digest(std::span<const std::uint8_t>(got));
            // attribute to the path that handed the bytes out
            std::string via = "unknown";
            const std::string so = run.out;
            if (so.find("(transport)") != std::string::npos) via = so.find("(relay)") != std::string::npos ? "relay" : "transport";
            else if (so.find("Fallback fetch succeeded") != std::string::npos) via = "fallback";
            else if (so.find("Direct fetch succeeded") != std::string::npos) via = "control_hint";
            else if (run.exit_code == 0) via = "local_daemon";
            if (digest == m.chunk_hash && got == pub.plain) { ctx.probe("file_correct_via_" + via); continue; }
            ctx.violate("C30.wrong_bytes_written." + via,
                        fmt("`eph fetch` (exit %d) left %zu bytes in %s that do not hash to the manifest's content hash (stored payload: %zu bytes); delivered via %s",
                            run.exit_code, got.size(), f.substr(out_root.size()).c_str(), pub.plain.size(), via.c_str()));
        }
        if (run.exit_code == 0 && files.empty() && run.out.find("written on the daemon host") == std::string::npos) ctx.probe("exit0_without_file");
        ctx.state(static_cast<std::uint64_t>(run.exit_code == 0) | (files.size() << 1) | (static_cast<std::uint64_t>(h.served.size()) << 4));
    }
    h.shutdown();
    client.shutdown();
    d.stop();
}

Scenario make_c30() {
    Scenario s;
    s.id = "C30"; s.world = "W4"; s.level = "exploration";
    s.technique = "deterministic simulation: the real `eph fetch` main as a simulated process; the manifest (issued by the real daemon, then re-pointed) advertises any subset of transport, relay, control and control:// fallback endpoints, each served by a scripted endpoint that knows the chunk key and returns correct, truncated, substituted, substituted-with-a-ground-hash-prefix, extended, empty, refused or garbage bytes (in a third of the runs the stored payload's SHA-256 starts with a zero byte); the local daemon is the real one, absent, or scripted; afterwards every file under the destination must equal the stored payload";
    s.real_components = {"src/main.cpp fetch path (real main(): attempt_transport_hint, attempt_control_hint, fallback, local daemon, finalize_fetch)", "ControlClient", "protocol codecs, KeyExchange, ChaCha20, Shamir", "the real daemon main (publisher of the manifest, honest local daemon, honest transport endpoint)"};
    s.stub_components = {"OS seams (fibers, simulated TCP, clock, entropy, file seam)", "hostile endpoints are scripted"};
    s.assumptions = {"the manifest handed to `eph fetch` decodes; its chunk_hash is the content hash the statement refers to"};
    s.rule = "plan = payload size, per-path presence and answer mode, local daemon kind, discovery flags, destination kind, PoW bits; non-trivial = some reachable endpoint returns bytes other than the payload; distinct = plan hash";
    s.gen = gen_c30; s.exec = exec_c30; s.kernel_knobs = w4_knobs;
    s.quick_runs = 2500; s.thorough_runs = 100000; s.quick_secs = 55; s.thorough_secs = 900;
    return s;
}
Registrar reg_c30(make_c30);

// ================================================================ C31
const std::vector<std::string>& nasty_names() {
    static const std::vector<std::string> v = {
        "../../escape.txt", "..", ".", "", "/etc/passwd", "a/b/c.txt", "..\\..\\evil.bat", "C:\\Windows\\win.ini", "sub/", "/",
        "name\nwith\nnewlines", std::string("nul\0byte", 8), "tab\there", "\x01\x02\x03", "...", ". .", " ", "con:", "a*b?c\"d<e>f|g", "good-name_1.txt",
        "\xff\xfe\xfd.bin", "\xc3\x28", "..%2f..%2fx", "dir/../../x", "////", "\\\\server\\share", "x/.", "x/..", "./x", ".hidden", "\x7f" "del",
        std::string(300, 'A'), std::string(254, 'b') + "/c", std::string(1000, '.'), "..\x01", ".\x02.", "\x1f..", ".\n.", "a\\..\\b", "~", "$(reboot)", "`id`", "-rf",
    };
    return v;
}

Plan gen_c31(sk::Rng& r, Tier) {
    Plan p;
    gen_w4_knobs(p, r);
    const int n = static_cast<int>(r.range(2, 6));
    for (int i = 0; i < n; ++i) {
        Op op;
        op.k = r.chance(3, 5) ? "fetch_dir" : r.chance(1, 2) ? "store_name" : "node_name";
        if (r.chance(3, 4)) op.s = r.pick(nasty_names());
        else {
            // composed: random pieces
            const int parts = static_cast<int>(r.range(1, 5));
            for (int k = 0; k < parts; ++k) op.s += r.pick<std::string>({"..", "/", "\\", ".", "x", "\x01", "\n", ":", " ", "name", "\xe2\x80\xae", "*", "\x7f"});
        }
        op.a = {static_cast<std::int64_t>(r.below(3))};  // destination form: existing dir, dir with trailing slash (not existing), --fetch-default-dir
        p.ops.push_back(op);
    }
    return p;
}

void exec_c31(const Plan& p, Ctx& ctx) {
    capture_reset();
    Daemon d;
    d.extra_args = {"--min-ttl", "5", "--max-ttl", "7200", "--default-ttl", "900"};
    d.start();
    if (!d.wait_ready()) { ctx.violate("C31.setup_failed", "daemon did not answer PING: " + sk::info(d.pid).exit_detail); d.stop(); return; }
    Actor client;
    client.start("ctl-client", d.host);
    const std::string root = sk::scratch_dir() + "/sandbox";
    ::mkdir(root.c_str(), 0700);
    sk::fs_log_enable(true);
    int n = 0;
    for (auto& op : p.ops) {
        ++ctx.ops_done;
        ++n;
        if (!sk::alive(d.pid)) { ctx.violate("C31.daemon_died", "the daemon ended: " + sk::info(d.pid).exit_detail); break; }
        sk::sleep_ns(5100 * kMs);
        if (op.k == "node_name") {
            // Node::store_chunk called directly: any byte string can be the original name
            const auto pl = make_payload(48, 77000 + static_cast<std::uint64_t>(n));
            en::ChunkData data(pl.begin(), pl.end());
            en::ChunkId id{};
            const auto dg = en::crypto::Sha256::digest(std::span<const std::uint8_t>(data));
            std::copy(dg.begin(), dg.end(), id.begin());
            auto cfg = base_config(4000 + static_cast<std::uint32_t>(n));
            cfg.storage_persistent_enabled = false;
            en::Node node(make_id(0x31, static_cast<std::uint8_t>(n)), cfg);
            const auto man = node.store_chunk(id, std::move(data), std::chrono::seconds(600), op.s);
            ctx.probe("node_store_with_name");
            if (const auto it = man.metadata.find("filename"); it != man.metadata.end()) {
                ctx.boundary("name_recorded");
                if (!clean_name(it->second) || it->second.size() > 255)
                    ctx.violate("C31.manifest_name_not_sanitised", "Node::store_chunk recorded filename metadata (hex) " + hz::hex(reinterpret_cast<const std::uint8_t*>(it->second.data()), std::min<std::size_t>(it->second.size(), 40)));
            }
            continue;
        }
        if (op.k == "store_name") {
            // the node only records sanitised names in the manifests it issues (control STORE with a FILENAME header; header values cannot carry LF)
            std::string name = op.s;
            for (auto& ch : name) if (ch == '\n' || ch == '\r' || ch == '\0') ch = '_';
            auto pub = publish(d, client, static_cast<std::uint64_t>(100 + n), 64, name);
            if (!pub.ok) { ctx.probe("store_refused"); continue; }
            ctx.probe("store_with_name");
            const auto it = pub.manifest.metadata.find("filename");
            if (it != pub.manifest.metadata.end()) {
                if (!clean_name(it->second)) ctx.violate("C31.manifest_name_not_sanitised", "the daemon issued a manifest whose filename metadata is '" + hz::hex(reinterpret_cast<const std::uint8_t*>(it->second.data()), std::min<std::size_t>(it->second.size(), 40)) + "' (hex)");
                if (it->second.size() > 255) ctx.violate("C31.manifest_name_too_long", "issued filename metadata has " + std::to_string(it->second.size()) + " bytes");
                ctx.boundary("name_recorded");
            }
            continue;
        }
        // ---- fetch into a directory with a manifest suggesting op.s
        auto pub = publish(d, client, static_cast<std::uint64_t>(n), 200);
        if (!pub.ok) { ctx.probe("store_refused"); continue; }
        auto m = pub.manifest;
        m.metadata["filename"] = op.s;
        std::string uri;
        try { uri = en::protocol::encode_manifest(m); } catch (...) { ctx.probe("manifest_not_encodable"); continue; }
        try { (void)en::protocol::decode_manifest(uri); } catch (...) { ctx.probe("manifest_not_decodable"); continue; }
        const std::string target = root + "/target" + std::to_string(n);
        const int form = static_cast<int>(op.at(0));
        std::vector<std::string> args{"eph", "--yes", "--control-host", ip_text(d.host), "--control-port", std::to_string(d.control_port)};
        if (form == 2) { ::mkdir(target.c_str(), 0700); args.insert(args.end(), {"--fetch-default-dir", target}); }
        args.push_back("fetch");
        args.push_back(uri);
        if (form == 0) { ::mkdir(target.c_str(), 0700); args.insert(args.end(), {"--out", target}); }
        if (form == 1) { args.insert(args.end(), {"--out", target + "/"}); }
        std::vector<std::string> before;
        list_tree(root, "", before);
        const std::size_t log_before = sk::fs_log().size();
        const CliRun run = run_eph(d.host, args);
        if (!run.finished) { ctx.violate("C31.cli_hung", "`eph fetch` did not finish"); continue; }
        if (run.kind != sk::ExitKind::Returned) ctx.violate("C31.cli_crashed", "`eph fetch` ended abnormally: " + sk::info(run.pid).exit_detail);
        ctx.probe(run.exit_code == 0 ? "fetch_ok" : "fetch_failed");
        if (!clean_name(op.s)) ctx.boundary("hostile_filename");
        std::vector<std::string> after;
        list_tree(root, "", after);
        const std::set<std::string> was(before.begin(), before.end());
        const std::string prefix = "/target" + std::to_string(n);
        for (auto& a : after) {
            if (was.count(a)) continue;
            if (a == prefix + "/") continue;  // the target directory itself (trailing-slash form)
            const bool inside = a.rfind(prefix + "/", 0) == 0;
            const std::string leaf = inside ? a.substr(prefix.size() + 1) : a;
            if (!inside) { ctx.violate("C31.created_outside_target", "fetch into " + prefix + " created " + a + " (suggested name hex " + hz::hex(reinterpret_cast<const std::uint8_t*>(op.s.data()), std::min<std::size_t>(op.s.size(), 24)) + ")"); continue; }
            if (leaf.find('/') != std::string::npos && leaf.find('/') + 1 != leaf.size()) { ctx.violate("C31.not_a_direct_child", "fetch created " + a + " below the target directory"); continue; }
            std::string name = leaf;
            if (!name.empty() && name.back() == '/') { ctx.violate("C31.created_directory", "fetch created a directory " + a); continue; }
            if (!clean_name(name)) ctx.violate("C31.unclean_name", "fetch created a file whose name is (hex) " + hz::hex(reinterpret_cast<const std::uint8_t*>(name.data()), std::min<std::size_t>(name.size(), 40)));
            else ctx.probe("file_created_clean");
        }
        // every file call of the CLI process that creates or writes something stays under the target
        for (std::size_t i = log_before; i < sk::fs_log().size(); ++i) {
            const auto& e = sk::fs_log()[i];
            if (e.pid != run.pid || e.result != 0) continue;
            if (e.kind != "open_w" && e.kind != "open_rw" && e.kind != "mkdir" && e.kind != "rename" && e.kind != "unlink" && e.kind != "truncate") continue;
            std::error_code ec;
            const auto canon = std::filesystem::weakly_canonical(std::filesystem::path(e.path), ec).string();
            const auto tcanon = std::filesystem::weakly_canonical(std::filesystem::path(target), ec).string();
            if (canon != tcanon && canon.rfind(tcanon + "/", 0) != 0)
                ctx.violate("C31.file_call_outside_target", "`eph fetch` did " + e.kind + " on " + e.path.substr(std::min(e.path.size(), sk::scratch_dir().size())));
        }
        ctx.state(static_cast<std::uint64_t>(after.size() - before.size()) * 4 + static_cast<std::uint64_t>(form));
    }
    client.shutdown();
    d.stop();
}

Scenario make_c31() {
    Scenario s;
    s.id = "C31"; s.world = "W4"; s.level = "exploration";
    s.technique = "deterministic simulation: the real `eph fetch` main writes into a directory (existing, trailing-slash, --fetch-default-dir) with manifests whose filename metadata is hostile (traversal, separators, control bytes, dots, empty, very long, non-UTF-8); the directory tree before/after and every file call of the CLI process (file seam) are checked; STORE with hostile FILENAME headers checks the names the real daemon records";
    s.real_components = {"src/main.cpp fetch path incl. sanitize_filename lambda (real main())", "Node::store_chunk sanitize_filename", "security::sanitize_filename_hint", "ControlServer handle_store/handle_fetch", "manifest codec"};
    s.stub_components = {"OS seams (fibers, simulated TCP, clock, entropy, file seam observing real files in a scratch directory)"};
    s.assumptions = {"FILENAME header values cannot carry LF/CR/NUL (line protocol); such bytes are exercised through manifest metadata instead"};
    s.rule = "plan = 2..6 operations (fetch into a directory with a hostile suggested name in one of three destination forms, or STORE with a hostile FILENAME); non-trivial = the suggested name is not already clean; distinct = plan hash";
    s.gen = gen_c31; s.exec = exec_c31; s.kernel_knobs = w4_knobs;
    s.quick_runs = 1500; s.thorough_runs = 60000; s.quick_secs = 55; s.thorough_secs = 900;
    return s;
}
Registrar reg_c31(make_c31);

}  // namespace
