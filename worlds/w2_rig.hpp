// W2 rig: one real Node under test plus up to four scripted peers, each with an established
// session (own simulated process, own reader fiber). Used by C21, C23, C24, C03, C11, C35.
#pragma once

#include "worlds/net_common.hpp"

namespace wl {

namespace pr = ephemeralnet::protocol;

inline const en::PeerId kRigNode = make_id(0xA1, 0x11);
inline const en::ChunkId kBarrierChunk = make_id(0xCC, 0x99);

struct RigPeer {
    Actor actor;
    PeerIdentity ident;
    PeerConn conn;
    bool up = false;
    std::vector<pr::Message> received;   // decoded, in arrival order (barrier replies filtered out)
    std::vector<std::int64_t> received_at; // simulated arrival time of each entry of `received`
    std::uint64_t undecodable = 0;
};

struct Rig {
    NodeProc node;
    std::vector<std::unique_ptr<RigPeer>> peers;
    std::uint32_t node_public = 0;
    int handshake_difficulty = 0;

    void start_node(const en::Config& cfg, std::int64_t tick_ms, std::int64_t phase_ms = 137) {
        handshake_difficulty = cfg.handshake_pow_difficulty;
        node.start("node", sk::ip(10, 0, 1, 1), kRigNode, cfg, tick_ms * kMs, phase_ms * kMs);
        node.run([&](en::Node& n) { node_public = n.public_identity(); });
    }
    // returns index or -1
    int add_peer(std::uint8_t tag) {
        auto p = std::make_unique<RigPeer>();
        p->ident = PeerIdentity::make(tag, 5000011u + 1009u * tag);
        p->actor.start("peer" + std::to_string(peers.size()), sk::ip(10, 0, 3, static_cast<std::uint8_t>(1 + peers.size())));
        RigPeer* rp = p.get();
        rp->actor.call([&, rp] { rp->up = scripted_handshake(rp->conn, rp->ident, kRigNode, node_public, handshake_difficulty, ip_text(node.actor.host), node.port); });
        peers.push_back(std::move(p));
        return peers.back()->up ? static_cast<int>(peers.size()) - 1 : -1;
    }
    // Closes the peer's connection and establishes a new session. A node that has not yet noticed the end of the old
    // connection may acknowledge the new handshake and then drop the new connection in favour of the one it still believes
    // in; an honest peer retries, so does this one (the session is probed with a barrier before it is trusted).
    bool reconnect(int i) {
        RigPeer* rp = peers[static_cast<std::size_t>(i)].get();
        for (int attempt = 0; attempt < 4; ++attempt) {
            rp->actor.call([&, rp, attempt] {
                rp->conn.close_now();
                rp->conn = PeerConn{};
                sk::sleep_ns((20 + 200 * attempt) * kMs);
                rp->up = scripted_handshake(rp->conn, rp->ident, kRigNode, node_public, handshake_difficulty, ip_text(node.actor.host), node.port);
            });
            if (rp->up && barrier(i, 5000)) return true;
        }
        return false;
    }
    bool send(int i, const pr::Message& m) {
        RigPeer* rp = peers[static_cast<std::size_t>(i)].get();
        bool ok = false;
        rp->actor.call([&, rp] { ok = rp->conn.send_signed(m); });
        return ok;
    }
    bool send_plain(int i, const std::vector<std::uint8_t>& bytes) {
        RigPeer* rp = peers[static_cast<std::size_t>(i)].get();
        bool ok = false;
        rp->actor.call([&, rp] { ok = rp->conn.send_plain(bytes); });
        return ok;
    }
    // move everything that arrived into `received`
    void drain(int i) {
        RigPeer* rp = peers[static_cast<std::size_t>(i)].get();
        if (!rp->conn.rx) return;
        while (!rp->conn.rx->frames.empty()) {
            auto f = std::move(rp->conn.rx->frames.front());
            rp->conn.rx->frames.pop_front();
            const std::int64_t at = rp->conn.rx->times.empty() ? sk::now_ns() : rp->conn.rx->times.front();
            if (!rp->conn.rx->times.empty()) rp->conn.rx->times.pop_front();
            auto m = pr::decode_signed(f, std::span<const std::uint8_t>(rp->conn.key));
            if (!m) { ++rp->undecodable; continue; }
            if (auto* a = std::get_if<pr::AcknowledgePayload>(&m->payload); a && a->chunk_id == kBarrierChunk) continue;
            rp->received.push_back(std::move(*m));
            rp->received_at.push_back(at);
        }
    }
    // everything peer i sent before this call has been handled by the node when it returns true
    bool barrier(int i, std::int64_t timeout_ms = 30000) {
        RigPeer* rp = peers[static_cast<std::size_t>(i)].get();
        if (!rp->up || !rp->conn.rx) return false;
        bool ok = false;
        rp->actor.call([&, rp] {
            pr::Message m{};
            m.type = pr::MessageType::Request;
            m.payload = pr::RequestPayload{kBarrierChunk, rp->ident.id};
            if (!rp->conn.send_signed(m)) return;
            auto state = rp->conn.rx;
            const auto key = rp->conn.key;
            // wait for the barrier reply without consuming other frames
            std::size_t scanned = 0;
            sk::wait_until([&] {
                for (; scanned < state->frames.size(); ++scanned) {
                    auto d = pr::decode_signed(state->frames[scanned], std::span<const std::uint8_t>(key));
                    if (d) if (auto* a = std::get_if<pr::AcknowledgePayload>(&d->payload); a && a->chunk_id == kBarrierChunk) { ok = true; return true; }
                }
                return state->closed;
            }, timeout_ms * kMs);
        });
        drain(i);
        return ok;
    }
    void stop() {
        for (auto& p : peers) {
            RigPeer* rp = p.get();
            if (rp->actor.alive()) { rp->actor.call([rp] { rp->conn.close_now(); }); rp->actor.shutdown(); }
        }
        node.stop();
    }
};

inline sk::Knobs rig_knobs(const Plan& p) {
    sk::Knobs k;
    k.sock_buf_min = static_cast<std::uint32_t>(p.knob("buf_min", 16384));
    k.sock_buf_max = static_cast<std::uint32_t>(p.knob("buf_max", 262144));
    k.lat_max_ns = p.knob("lat_max_us", 1000) * 1000;
    k.preempt_per_1024 = static_cast<std::uint32_t>(p.knob("preempt", 256));
    k.short_io_per_1024 = static_cast<std::uint32_t>(p.knob("short_io", 128));
    k.max_steps = 4'000'000;
    return k;
}
inline void gen_rig_knobs(Plan& p, sk::Rng& r) {
    // buffers hold at least one frame: blocking sends from reader threads against a peer that is itself
    // blocked are a liveness question examined under C35, not part of these properties
    p.knobs["buf_min"] = r.pick<std::int64_t>({16384, 65536});
    p.knobs["buf_max"] = r.pick<std::int64_t>({65536, 262144});
    p.knobs["lat_max_us"] = r.pick<std::int64_t>({0, 200, 3000});
    p.knobs["preempt"] = r.pick<std::int64_t>({0, 128, 512});
    p.knobs["short_io"] = r.pick<std::int64_t>({0, 128, 512});
}

// a well-formed manifest built by the harness (as a remote publisher would)
inline pr::Manifest make_manifest(const en::ChunkId& id, int shards, int threshold, std::int64_t expires_in_ns) {
    pr::Manifest m{};
    m.chunk_id = id;
    m.threshold = static_cast<std::uint8_t>(threshold);
    m.total_shares = static_cast<std::uint8_t>(shards);
    m.expires_at = std::chrono::system_clock::time_point(std::chrono::nanoseconds(sk::kWallEpochNs + sk::now_ns() + expires_in_ns));
    for (int i = 0; i < shards; ++i) { pr::KeyShard s{}; s.index = static_cast<std::uint8_t>(i + 1); s.value.fill(static_cast<std::uint8_t>(i * 3 + 1)); m.shards.push_back(s); }
    m.chunk_hash.fill(0x42);
    return m;
}

}  // namespace wl
