// W1 — C06 (provider lookups) and C07 (routing table shape and closest-peer answers) on a real
// KademliaTable under the simulated clock, against reference models.
#include "worlds/common.hpp"

#include <algorithm>

using namespace wl;

namespace {

const en::PeerId kSelf = make_id(0xA1, 0x11);

en::PeerId peer_id_n(int n) {
    en::PeerId id{};
    id.fill(0x5a);
    id[0] = static_cast<std::uint8_t>(n);
    id[1] = static_cast<std::uint8_t>(n * 13 + 5);
    return id;
}

// ================================================================ C06
Plan gen_c06(sk::Rng& r, Tier) {
    Plan p;
    p.knobs["peers"] = r.pick<std::int64_t>({3, 6, 25, 30});
    const int n = static_cast<int>(r.range(5, 60));
    const std::int64_t peers = p.knobs["peers"];
    for (int i = 0; i < n; ++i) {
        Op op;
        const auto c = r.below(100);
        if (c < 45) { op.k = "add"; op.a = {static_cast<std::int64_t>(r.below(3)), static_cast<std::int64_t>(r.below(static_cast<std::uint64_t>(peers))), r.pick<std::int64_t>({1, 1, 2, 5, 30, 100, 1000, 86400})}; }
        else if (c < 55) { op.k = "withdraw"; op.a = {static_cast<std::int64_t>(r.below(3)), static_cast<std::int64_t>(r.below(static_cast<std::uint64_t>(peers)))}; }
        else if (c < 75) { op.k = "find"; op.a = {static_cast<std::int64_t>(r.below(3))}; }
        else if (c < 85) { op.k = "sweep"; }
        else { op.k = "adv"; op.a = {r.pick<std::int64_t>({1, 999, 1000, 1001, 2000, 5000, 29999, 30000, 100000})}; }
        p.ops.push_back(op);
    }
    // burst variant: many providers on one chunk so that the 20-cap is exercised
    if (r.chance(1, 4)) {
        for (int i = 0; i < 28; ++i) p.ops.insert(p.ops.begin() + static_cast<long>(r.below(p.ops.size() + 1)), Op{"add", {0, i % peers, r.range(1, 200)}, ""});
    }
    return p;
}

struct Prov { std::int64_t dl; bool uncertain; };

void exec_c06(const Plan& p, Ctx& ctx) {
    en::Config cfg = base_config(5);
    en::KademliaTable table(kSelf, cfg);
    // chunk -> peer -> latest announcement. `uncertain` = the 20-cap may or may not have evicted it
    // (a tie at the cut); `dropped` = evicted by the cap for certain (it may still be returned by an
    // implementation that breaks ties differently, so its presence is tolerated, its absence expected).
    std::map<int, std::map<int, Prov>> held;
    std::map<int, std::map<int, std::int64_t>> dropped;

    auto check_find = [&](int chunk, const char* when) {
        const std::int64_t now = sk::now_ns();
        auto got = table.find_providers(make_id(static_cast<std::uint8_t>(chunk + 1)));
        std::set<int> seen;
        for (auto& ct : got) {
            const int peer = ct.id[0];
            if (!seen.insert(peer).second) ctx.violate("C06.duplicate_provider", fmt("provider %d returned twice for chunk %d (%s)", peer, chunk, when));
            const std::int64_t exp = steady_to_sim(ct.expires_at);
            std::int64_t dl = -1;
            if (auto it = held[chunk].find(peer); it != held[chunk].end()) dl = it->second.dl;
            else if (auto it2 = dropped[chunk].find(peer); it2 != dropped[chunk].end()) dl = it2->second;
            else { ctx.violate("C06.unknown_or_withdrawn_provider", fmt("provider %d returned for chunk %d but it never announced or was withdrawn (%s)", peer, chunk, when)); continue; }
            if (dl <= now) ctx.violate("C06.expired_provider_returned", fmt("provider %d of chunk %d returned at t=%.3f, its latest announcement expired at %.3f (%s)", peer, chunk, now / 1e9, dl / 1e9, when));
            else if (exp != dl) ctx.violate("C06.stale_expiry", fmt("provider %d of chunk %d reported with expiry %.3f, latest announcement says %.3f (%s)", peer, chunk, exp / 1e9, dl / 1e9, when));
        }
        if (got.size() > 20) ctx.violate("C06.more_than_20", fmt("%zu providers returned for chunk %d", got.size(), chunk));
        std::size_t must = 0;
        for (auto& [peer, pr] : held[chunk]) {
            if (pr.dl <= now || pr.uncertain) continue;
            ++must;
            if (!seen.count(peer))
                ctx.violate("C06.live_provider_missing", fmt("provider %d of chunk %d missing at t=%.3f although its latest announcement lives until %.3f (%s)", peer, chunk, now / 1e9, pr.dl / 1e9, when));
        }
        if (must > 0 && got.size() == must) ctx.probe("exact_answer");
    };

    for (auto& op : p.ops) {
        ++ctx.ops_done;
        const std::int64_t now = sk::now_ns();
        if (op.k == "add") {
            const int chunk = static_cast<int>(op.at(0)), peer = static_cast<int>(op.at(1));
            en::PeerContact ct{};
            ct.id = peer_id_n(peer);
            ct.address = "10.1.0." + std::to_string(peer) + ":4000";
            auto& m = held[chunk];
            const std::int64_t dl = now + op.at(2) * kSec;
            if (m.count(peer) && m[peer].dl > now && dl < m[peer].dl) ctx.boundary("reannounce_shorter");
            for (auto& [q, pr] : m) if (q != peer && pr.dl > now && pr.dl > dl + 2 * kSec) { ctx.boundary("short_announce_next_to_long_lived_provider"); break; }
            table.add_contact(make_id(static_cast<std::uint8_t>(chunk + 1)), ct, seconds(op.at(2)));
            m[peer] = {dl, false};
            dropped[chunk].erase(peer);
            // expired entries always go first under the cap, so only live ones matter for the model
            std::vector<int> D, U;
            for (auto& [q, pr] : m) if (pr.dl > now) (pr.uncertain ? U : D).push_back(q);
            if (D.size() + U.size() > 20) {
                ctx.boundary("cap_20_exceeded");
                std::int64_t mD = INT64_MAX;
                for (int q : D) mD = std::min(mD, m[q].dl);
                std::vector<int> at_min;
                for (int q : D) if (m[q].dl == mD) at_min.push_back(q);
                bool lower_uncertain = false;
                for (int q : U) if (m[q].dl <= mD) lower_uncertain = true;
                if (U.empty() && at_min.size() == 1) { dropped[chunk][at_min[0]] = m[at_min[0]].dl; m.erase(at_min[0]); }
                else if (!lower_uncertain || true) { for (int q : at_min) m[q].uncertain = true; }
            }
        } else if (op.k == "withdraw") {
            const int chunk = static_cast<int>(op.at(0)), peer = static_cast<int>(op.at(1));
            table.withdraw_contact(make_id(static_cast<std::uint8_t>(chunk + 1)), peer_id_n(peer));
            held[chunk].erase(peer);
            dropped[chunk].erase(peer);
        } else if (op.k == "find") {
            check_find(static_cast<int>(op.at(0)), "find");
        } else if (op.k == "sweep") {
            table.sweep_expired();
            for (int c = 0; c < 3; ++c) check_find(c, "after sweep");
        } else if (op.k == "adv") {
            sk::sleep_ns(op.at(0) * kMs);
        }
        std::uint64_t h = 0;
        for (auto& [c, m] : held) { int l = 0; for (auto& [q, pr] : m) if (pr.dl > sk::now_ns()) ++l; h = h * 31 + static_cast<std::uint64_t>(l); }
        ctx.state(h);
    }
    for (int c = 0; c < 3; ++c) check_find(c, "final");
}

Scenario make_c06() {
    Scenario s;
    s.id = "C06"; s.world = "W1"; s.level = "exploration";
    s.technique = "deterministic simulation: seeded add/withdraw/find/sweep/advance histories on a real KademliaTable under a simulated clock vs a chunk->peer->deadline model";
    s.real_components = {"KademliaTable (add_contact, withdraw_contact, find_providers, sweep_expired)"};
    s.stub_components = {"OS clock -> simulated"};
    s.assumptions = {"when more than 20 providers are live on one chunk, which of the providers tied with or below the 20th-latest deadline survive is not judged (the property fixes only 'those expiring last')"};
    s.rule = "plan = 5..90 ops over 3 chunks x up to 30 peers with TTLs 1 s..1 day; non-trivial = a re-announcement shortened a provider's life, a short announcement arrived next to a long-lived provider, or the 20-cap was exceeded; distinct = plan hash";
    s.gen = gen_c06; s.exec = exec_c06;
    s.kernel_knobs = [](const Plan&) { sk::Knobs k; k.preempt_per_1024 = 0; return k; };
    s.quick_runs = 40000; s.thorough_runs = 3000000; s.quick_secs = 30; s.thorough_secs = 600;
    return s;
}
Registrar reg_c06(make_c06);

// ================================================================ C07
// ids sharing `prefix_bits` leading bits with the local id, then differing
en::PeerId id_with_prefix(int prefix_bits, std::uint64_t salt) {
    en::PeerId id = kSelf;
    if (prefix_bits >= 256) return id;
    const int byte = prefix_bits / 8, bit = 7 - prefix_bits % 8;
    id[static_cast<std::size_t>(byte)] ^= static_cast<std::uint8_t>(1u << bit);  // first differing bit
    sk::Rng r(salt * 0x9e37 + static_cast<std::uint64_t>(prefix_bits));
    // randomise everything below the differing bit
    for (int b = prefix_bits + 1; b < 256; ++b) {
        if (r.below(2)) id[static_cast<std::size_t>(b / 8)] ^= static_cast<std::uint8_t>(1u << (7 - b % 8));
    }
    return id;
}

Plan gen_c07(sk::Rng& r, Tier) {
    Plan p;
    const int n = static_cast<int>(r.range(5, 80));
    const int deep = static_cast<int>(r.pick<std::int64_t>({0, 1, 7, 8, 100, 200, 254, 255}));
    // in a third of the runs one bucket is driven to (and past) its capacity first: 15..24 distinct ids with the same prefix length
    if (r.chance(1, 3)) {
        const int burst = static_cast<int>(r.range(15, 24));
        for (int i = 0; i < burst; ++i) { Op op; op.k = r.chance(4, 5) ? "register" : "provider"; op.a = {deep, 100 + i, r.pick<std::int64_t>({60, 900}), static_cast<std::int64_t>(r.below(5))}; p.ops.push_back(op); }
    }
    for (int i = 0; i < n; ++i) {
        Op op;
        const auto c = r.below(100);
        // a = {prefix_bits, salt, ttl_s(or -1 = unset expiry), addr_tag}
        const std::int64_t prefix = r.chance(1, 2) ? deep : r.pick<std::int64_t>({0, 1, 2, 7, 8, 9, 15, 16, 31, 128, 254, 255, 256});
        const std::int64_t salt = static_cast<std::int64_t>(r.below(r.chance(1, 2) ? 24 : 4));
        if (c < 40) { op.k = "register"; op.a = {prefix, salt, r.pick<std::int64_t>({-1, 0, 1, 5, 60, 900}), static_cast<std::int64_t>(r.below(5))}; }
        else if (c < 55) { op.k = "provider"; op.a = {prefix, salt, r.pick<std::int64_t>({1, 5, 60, 900}), static_cast<std::int64_t>(r.below(5))}; }
        else if (c < 80) { op.k = "closest"; op.a = {r.pick<std::int64_t>({0, 1, 7, 8, 128, 255, 256}), static_cast<std::int64_t>(r.below(24)), r.pick<std::int64_t>({0, 1, 2, 16, 17, 1000})}; }
        else if (c < 88) { op.k = "sweep"; }
        else { op.k = "adv"; op.a = {r.pick<std::int64_t>({1, 999, 1000, 1001, 5000, 60000})}; }
        p.ops.push_back(op);
    }
    return p;
}

struct Dist { std::array<std::uint8_t, 32> d; };
bool operator<(const Dist& a, const Dist& b) { return a.d < b.d; }
Dist xor_dist(const en::PeerId& a, const en::PeerId& b) { Dist r; for (int i = 0; i < 32; ++i) r.d[static_cast<std::size_t>(i)] = a[static_cast<std::size_t>(i)] ^ b[static_cast<std::size_t>(i)]; return r; }

void exec_c07(const Plan& p, Ctx& ctx) {
    en::Config cfg = base_config(5);
    en::KademliaTable table(kSelf, cfg);
    std::map<std::string, std::pair<std::string, std::int64_t>> latest;  // id -> (address, expiry sim ns) of latest upsert

    auto check_shape = [&](const char* when) {
        std::set<std::string> seen;
        for (std::size_t b = 0; b < table.buckets_.size(); ++b) {
            const auto& bucket = table.buckets_[b];
            if (bucket.size() > 16) ctx.violate("C07.bucket_overfull", fmt("bucket %zu holds %zu contacts (%s)", b, bucket.size(), when));
            for (auto& ct : bucket) {
                if (ct.id == kSelf) ctx.violate("C07.self_in_table", fmt("local id held in bucket %zu (%s)", b, when));
                // bucket index = index of highest differing bit, counted from the least significant end
                int lead = 0;
                for (; lead < 256; ++lead) {
                    const auto diff = static_cast<std::uint8_t>(ct.id[static_cast<std::size_t>(lead / 8)] ^ kSelf[static_cast<std::size_t>(lead / 8)]);
                    if (diff & (1u << (7 - lead % 8))) break;
                }
                if (lead < 256 && static_cast<std::size_t>(255 - lead) != b)
                    ctx.violate("C07.wrong_bucket", fmt("contact with %d shared leading bits sits in bucket %zu, expected %d (%s)", lead, b, 255 - lead, when));
                const auto key = en::peer_id_to_string(ct.id);
                if (!seen.insert(key).second) ctx.violate("C07.duplicate_entry", fmt("contact %s held twice (%s)", key.substr(0, 8).c_str(), when));
                auto it = latest.find(key);
                if (it != latest.end()) {
                    if (ct.address != it->second.first) ctx.violate("C07.stale_address", fmt("contact %s has address %s, latest upsert gave %s (%s)", key.substr(0, 8).c_str(), ct.address.c_str(), it->second.first.c_str(), when));
                    if (steady_to_sim(ct.expires_at) != it->second.second) ctx.violate("C07.stale_expiry", fmt("contact %s expires at %.3f, latest upsert gave %.3f (%s)", key.substr(0, 8).c_str(), steady_to_sim(ct.expires_at) / 1e9, it->second.second / 1e9, when));
                }
            }
        }
    };

    auto upsert = [&](const en::PeerId& id, int addr_tag, std::int64_t ttl, bool as_provider) {
        en::PeerContact ct{};
        ct.id = id;
        ct.address = "10.2." + std::to_string(addr_tag) + ".1:4000";
        const std::int64_t now = sk::now_ns();
        std::int64_t expiry;
        if (as_provider) {
            table.add_contact(make_id(9), ct, seconds(ttl));
            expiry = now + ttl * kSec;
        } else {
            if (ttl >= 0) { ct.expires_at = steady_at(now + ttl * kSec); expiry = now + ttl * kSec; }
            else expiry = now;  // unset expiry is registered as 'now' by the table
            table.register_peer(ct);
        }
        if (id == kSelf) { ctx.boundary("upsert_self"); return; }
        latest[en::peer_id_to_string(id)] = {ct.address, expiry};
        // the contact just upserted, if not already expired, must be present
        if (expiry > now) {
            bool found = false;
            for (auto& b : table.buckets_) for (auto& e : b) if (e.id == id) found = true;
            if (!found) ctx.violate("C07.upsert_lost", fmt("contact upserted with %lld s to live is not in the table", (long long)ttl));
        }
    };

    for (auto& op : p.ops) {
        ++ctx.ops_done;
        if (op.k == "register" || op.k == "provider") {
            const auto id = id_with_prefix(static_cast<int>(op.at(0)), static_cast<std::uint64_t>(op.at(1)));
            if (op.at(0) >= 200) ctx.probe("deep_bucket_upsert");
            const auto key = en::peer_id_to_string(id);
            if (latest.count(key)) ctx.probe("refresh");
            upsert(id, static_cast<int>(op.at(3)), op.at(2), op.k == "provider");
            std::size_t fill = 0;
            for (auto& b : table.buckets_) fill = std::max(fill, b.size());
            if (fill >= 16) ctx.boundary("bucket_full");
            check_shape(op.k.c_str());
        } else if (op.k == "closest") {
            const auto target = id_with_prefix(static_cast<int>(op.at(0)), static_cast<std::uint64_t>(op.at(1)) + 77);
            const std::size_t k = static_cast<std::size_t>(op.at(2));
            const std::int64_t now = sk::now_ns();
            std::vector<std::pair<Dist, en::PeerId>> H;
            for (auto& b : table.buckets_) for (auto& e : b) if (steady_to_sim(e.expires_at) > now) H.push_back({xor_dist(e.id, target), e.id});
            std::sort(H.begin(), H.end(), [](auto& a, auto& b) { return a.first < b.first; });
            const auto got = table.closest_peers(target, k);
            const std::size_t want = std::min(k, H.size());
            if (got.size() != want) ctx.violate("C07.closest_count", fmt("closest_peers(k=%zu) returned %zu of %zu live contacts, expected %zu", k, got.size(), H.size(), want));
            for (std::size_t i = 0; i < got.size() && i < want; ++i) {
                if (got[i].id != H[i].second) { ctx.violate("C07.closest_order", fmt("closest_peers answer differs from XOR order at position %zu of %zu", i, want)); break; }
                if (steady_to_sim(got[i].expires_at) <= now) ctx.violate("C07.closest_expired", "closest_peers returned an expired contact");
            }
            for (std::size_t i = 1; i < got.size(); ++i)
                if (!(xor_dist(got[i - 1].id, target) < xor_dist(got[i].id, target))) { ctx.violate("C07.closest_not_increasing", "closest_peers distances not strictly increasing"); break; }
            if (H.size() > k && k > 0) ctx.probe("closest_truncated");
        } else if (op.k == "sweep") {
            table.sweep_expired();
            const std::int64_t now = sk::now_ns();
            for (auto& b : table.buckets_) for (auto& e : b) if (steady_to_sim(e.expires_at) <= now) ctx.violate("C07.sweep_left_expired", "sweep left an expired contact in a bucket");
            check_shape("sweep");
        } else if (op.k == "adv") {
            sk::sleep_ns(op.at(0) * kMs);
        }
        std::uint64_t h = 0;
        for (std::size_t b = 0; b < table.buckets_.size(); ++b) if (!table.buckets_[b].empty()) h = h * 131 + b * 17 + table.buckets_[b].size();
        ctx.state(h);
    }
    check_shape("final");
}

Scenario make_c07() {
    Scenario s;
    s.id = "C07"; s.world = "W1"; s.level = "exploration";
    s.technique = "deterministic simulation: seeded register/provider/sweep/closest histories on a real KademliaTable under a simulated clock; bucket-shape invariant after every upsert; answers compared with an independent XOR sort of the unexpired contacts physically held";
    s.real_components = {"KademliaTable (register_peer, add_contact, closest_peers, sweep_expired, bucket placement)"};
    s.stub_components = {"OS clock -> simulated"};
    s.assumptions = {"which contact a full bucket evicts is not judged (the property does not fix it)"};
    s.rule = "plan = 5..80 ops with ids sharing 0..255 leading bits with the local id (incl. the local id itself), refreshes with new address/expiry, unset/zero expiries, sweeps, advances, closest queries with k in {0,1,2,16,17,1000}; non-trivial = a bucket reached 16 entries or the local id was upserted; distinct = plan hash";
    s.gen = gen_c07; s.exec = exec_c07;
    s.kernel_knobs = [](const Plan&) { sk::Knobs k; k.preempt_per_1024 = 0; return k; };
    s.quick_runs = 40000; s.thorough_runs = 3000000; s.quick_secs = 30; s.thorough_secs = 600;
    return s;
}
Registrar reg_c07(make_c07);

}  // namespace
