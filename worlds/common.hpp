// Shared helpers for worlds. World translation units are compiled with -fno-access-control,
// so private members of repository classes are readable directly (no hooks in /repo).
#pragma once

#include "harness/harness.hpp"

#include "ephemeralnet/Config.hpp"
#include "ephemeralnet/Types.hpp"
#include "ephemeralnet/core/Node.hpp"
#include "ephemeralnet/crypto/CryptoManager.hpp"
#include "ephemeralnet/crypto/Shamir.hpp"
#include "ephemeralnet/crypto/Sha256.hpp"
#include "ephemeralnet/protocol/Manifest.hpp"
#include "ephemeralnet/protocol/Message.hpp"

#include <chrono>
#include <cstring>
#include <memory>
#include <optional>

namespace wl {

using namespace hz;
namespace en = ephemeralnet;
using std::chrono::seconds;

constexpr std::int64_t kSec = 1'000'000'000LL;
constexpr std::int64_t kMs = 1'000'000LL;

// steady/system time points of the simulated clock at simulated instant t (ns since run start)
inline std::chrono::steady_clock::time_point steady_at(std::int64_t t_ns) {
    return std::chrono::steady_clock::time_point(std::chrono::nanoseconds(sk::kSteadyEpochNs + t_ns));
}
inline std::int64_t steady_to_sim(std::chrono::steady_clock::time_point tp) {
    return std::chrono::duration_cast<std::chrono::nanoseconds>(tp.time_since_epoch()).count() - sk::kSteadyEpochNs;
}
inline std::int64_t wall_to_sim(std::chrono::system_clock::time_point tp, std::int64_t wall_offset = 0) {
    return std::chrono::duration_cast<std::chrono::nanoseconds>(tp.time_since_epoch()).count() - sk::kWallEpochNs - wall_offset;
}

inline en::ChunkId make_id(std::uint8_t tag, std::uint8_t fill = 0) {
    en::ChunkId id{};
    id.fill(fill);
    id[0] = tag;
    id[31] = static_cast<std::uint8_t>(tag * 7 + 1);
    return id;
}

// deterministic payload with a unique tag so every read is attributable to one store
inline en::ChunkData make_payload(std::size_t size, std::uint64_t tag) {
    en::ChunkData d(size);
    std::uint64_t x = tag * 0x9e3779b97f4a7c15ULL + 1;
    for (std::size_t i = 0; i < size; ++i) {
        x ^= x << 13; x ^= x >> 7; x ^= x << 17;
        d[i] = static_cast<std::uint8_t>(x >> 24);
    }
    if (size >= 8) std::memcpy(d.data(), &tag, 8);
    return d;
}

inline std::string short_hex(const en::ChunkData& d) {
    return hz::hex(d.data(), std::min<std::size_t>(d.size(), 8)) + "/" + std::to_string(d.size());
}

// clamp as the property states it: effective TTL = requested if > 0 else default, inside [min,max]
inline std::int64_t model_ttl(std::int64_t req, std::int64_t def, std::int64_t mn, std::int64_t mx) {
    std::int64_t t = req > 0 ? req : def;
    if (t < mn) t = mn;
    if (t > mx) t = mx;
    return t;
}

inline en::crypto::Key key_from_manifest(const en::protocol::Manifest& m) {
    std::vector<en::crypto::ShamirShare> shares;
    for (auto& s : m.shards) shares.push_back({s.index, s.value});
    en::crypto::Key k{};
    k.bytes = en::crypto::Shamir::combine(shares, m.threshold);
    return k;
}

// base configuration used by W1/W2 nodes: no real networking side effects at construction
inline en::Config base_config(std::uint32_t seed) {
    en::Config c;
    c.identity_seed = seed;
    c.nat_stun_enabled = false;
    c.relay_enabled = false;
    c.storage_persistent_enabled = false;
    c.announce_pow_difficulty = 0;
    c.handshake_pow_difficulty = 0;
    c.store_pow_difficulty = 0;
    return c;
}

}  // namespace wl
