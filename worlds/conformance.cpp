// Sim-vs-kernel conformance (DESIGN §9/§19): small socket/epoll/eventfd/file scenarios are executed once
// against the real kernel (outside sk::run every interposed call forwards to libc; real loopback, real
// threads) and once inside the simulation; the observable traces (return values, errno names, byte
// counts, flags) must be identical. A simulated-kernel behaviour that a finding rests on has to be in
// this table.  ./check conformance
#include "harness/harness.hpp"

#include <arpa/inet.h>
#include <errno.h>
#include <fcntl.h>
#include <netdb.h>
#include <netinet/in.h>
#include <signal.h>
#include <sys/epoll.h>
#include <sys/eventfd.h>
#include <sys/socket.h>
#include <sys/stat.h>
#include <unistd.h>

#include <chrono>
#include <condition_variable>
#include <mutex>
#include <cstdio>
#include <cstring>
#include <functional>
#include <string>
#include <thread>
#include <vector>

namespace {

using Trace = std::vector<std::string>;

std::string en(int e) {
    switch (e) {
        case 0: return "0";
        case ECONNREFUSED: return "ECONNREFUSED"; case EPIPE: return "EPIPE"; case ECONNRESET: return "ECONNRESET";
        case EAGAIN: return "EAGAIN"; case EINVAL: return "EINVAL"; case EBADF: return "EBADF"; case ENOENT: return "ENOENT";
        case EADDRINUSE: return "EADDRINUSE"; case ENOTCONN: return "ENOTCONN"; case EINTR: return "EINTR"; case EISCONN: return "EISCONN";
        default: return "errno" + std::to_string(e);
    }
}
std::string rv(const char* what, long r) { return std::string(what) + "=" + std::to_string(r) + (r < 0 ? " " + en(errno) : ""); }
void nap(int ms) { std::this_thread::sleep_for(std::chrono::milliseconds(ms)); }

sockaddr_in loop_addr(std::uint16_t port) { sockaddr_in a{}; a.sin_family = AF_INET; a.sin_port = htons(port); inet_pton(AF_INET, "127.0.0.1", &a.sin_addr); return a; }
std::uint16_t port_of(int fd) { sockaddr_in a{}; socklen_t l = sizeof a; getsockname(fd, reinterpret_cast<sockaddr*>(&a), &l); return ntohs(a.sin_port); }
int listener(std::uint16_t* port, int backlog = 8) {
    const int fd = ::socket(AF_INET, SOCK_STREAM, 0);
    int one = 1; setsockopt(fd, SOL_SOCKET, SO_REUSEADDR, &one, sizeof one);
    auto a = loop_addr(0);
    ::bind(fd, reinterpret_cast<sockaddr*>(&a), sizeof a);
    ::listen(fd, backlog);
    *port = port_of(fd);
    return fd;
}
int dial(std::uint16_t port) { const int fd = ::socket(AF_INET, SOCK_STREAM, 0); auto a = loop_addr(port); if (::connect(fd, reinterpret_cast<sockaddr*>(&a), sizeof a) != 0) { const int e = errno; ::close(fd); errno = e; return -1; } return fd; }
struct Pair { int l = -1, c = -1, s = -1; };  // listener, client end, server (accepted) end
Pair make_pair() { Pair p; std::uint16_t port = 0; p.l = listener(&port); p.c = dial(port); p.s = ::accept(p.l, nullptr, nullptr); return p; }
void close_pair(Pair& p) { for (int* fd : {&p.c, &p.s, &p.l}) if (*fd >= 0) { ::close(*fd); *fd = -1; } }

struct Scn { const char* name; std::function<void(Trace&)> run; };

std::vector<Scn> conf_scenarios() {
    std::vector<Scn> v;
    v.push_back({"connect_to_closed_port_is_refused", [](Trace& t) {
        std::uint16_t port = 0; const int l = listener(&port); ::close(l);
        const int c = dial(port); t.push_back(rv("connect", c < 0 ? -1 : 0)); if (c >= 0) ::close(c);
    }});
    v.push_back({"connect_completes_before_accept_and_bytes_arrive", [](Trace& t) {
        std::uint16_t port = 0; const int l = listener(&port);
        const int c = dial(port); t.push_back(rv("connect", c < 0 ? -1 : 0));
        t.push_back(rv("send", ::send(c, "hello", 5, MSG_NOSIGNAL)));
        sockaddr_in pa{}; socklen_t pl = sizeof pa;
        const int s = ::accept(l, reinterpret_cast<sockaddr*>(&pa), &pl); t.push_back(rv("accept", s < 0 ? -1 : 0));
        t.push_back(std::string("accept_reports_client_port=") + (ntohs(pa.sin_port) == port_of(c) ? "1" : "0"));
        sockaddr_in qa{}; socklen_t ql = sizeof qa; getpeername(c, reinterpret_cast<sockaddr*>(&qa), &ql);
        t.push_back(std::string("getpeername_is_listener_port=") + (ntohs(qa.sin_port) == port ? "1" : "0"));
        char b[16] = {0}; nap(5); const long r = ::recv(s, b, sizeof b, 0); t.push_back(rv("recv", r) + " '" + std::string(b, r > 0 ? static_cast<std::size_t>(r) : 0) + "'");
        ::close(c); ::close(s); ::close(l);
    }});
    v.push_back({"send_timeout_bounds_the_whole_call_against_a_trickling_reader", [](Trace& t) {
        // SO_SNDTIMEO counts down over all the waits of one send(): a reader that keeps taking a little cannot keep the call alive
        Pair p = make_pair();
        timeval tv{0, 300000}; t.push_back(rv("setsockopt", setsockopt(p.c, SOL_SOCKET, SO_SNDTIMEO, &tv, sizeof tv)));
        bool stop = false;
        std::thread th([&] { char b[512]; while (!stop) { if (::recv(p.s, b, sizeof b, MSG_DONTWAIT) == 0) break; nap(40); } });
        std::vector<char> big(32u << 20, 'x');
        const auto t0 = std::chrono::steady_clock::now();
        const long r = ::send(p.c, big.data(), big.size(), MSG_NOSIGNAL);
        const auto ms = std::chrono::duration_cast<std::chrono::milliseconds>(std::chrono::steady_clock::now() - t0).count();
        t.push_back(std::string("send_returns_a_partial_count=") + (r > 0 && static_cast<std::size_t>(r) < big.size() ? "1" : "0"));
        t.push_back(std::string("after_about_the_timeout=") + (ms >= 250 && ms < 1500 ? "1" : "0"));
        stop = true; th.join();
        // nobody reads now: once the buffers are full a call takes nothing and gives up with EAGAIN
        long r2 = 0; auto t1 = std::chrono::steady_clock::now();
        for (int i = 0; i < 64; ++i) { t1 = std::chrono::steady_clock::now(); r2 = ::send(p.c, big.data(), big.size(), MSG_NOSIGNAL); if (r2 <= 0) break; }
        const auto ms2 = std::chrono::duration_cast<std::chrono::milliseconds>(std::chrono::steady_clock::now() - t1).count();
        t.push_back(rv("send_with_no_reader", r2));
        t.push_back(std::string("after_about_the_timeout=") + (ms2 >= 250 && ms2 < 1500 ? "1" : "0"));
        close_pair(p);
    }});
    v.push_back({"condition_variable_times_out_then_is_signalled", [](Trace& t) {
        std::mutex m; std::condition_variable cv; bool flag = false;
        {
            std::unique_lock lk(m);
            const auto t0 = std::chrono::steady_clock::now();
            const bool got = cv.wait_for(lk, std::chrono::milliseconds(60), [&] { return flag; });
            const auto ms = std::chrono::duration_cast<std::chrono::milliseconds>(std::chrono::steady_clock::now() - t0).count();
            t.push_back(std::string("wait_for_without_signal=") + (got ? "1" : "0") + " after_about_60ms=" + (ms >= 55 && ms < 400 ? "1" : "0"));
        }
        std::thread th([&] { nap(30); { std::scoped_lock lk(m); flag = true; } cv.notify_all(); });
        {
            std::unique_lock lk(m);
            const bool got = cv.wait_for(lk, std::chrono::seconds(5), [&] { return flag; });
            t.push_back(std::string("wait_for_with_signal=") + (got ? "1" : "0"));
        }
        th.join();
        int woken = 0; flag = false;
        std::thread w1([&] { std::unique_lock lk(m); cv.wait(lk, [&] { return flag; }); ++woken; });
        std::thread w2([&] { std::unique_lock lk(m); cv.wait(lk, [&] { return flag; }); ++woken; });
        nap(30); { std::scoped_lock lk(m); flag = true; } cv.notify_all();
        w1.join(); w2.join();
        t.push_back("both_waiters_woken=" + std::to_string(woken));
    }});
    v.push_back({"recv_after_fin_returns_buffered_data_then_zero", [](Trace& t) {
        Pair p = make_pair();
        ::send(p.c, "xy", 2, MSG_NOSIGNAL); ::close(p.c); p.c = -1; nap(10);
        char b[8]; t.push_back(rv("recv1", ::recv(p.s, b, sizeof b, 0))); t.push_back(rv("recv2", ::recv(p.s, b, sizeof b, 0))); t.push_back(rv("recv3", ::recv(p.s, b, sizeof b, 0)));
        close_pair(p);
    }});
    v.push_back({"send_after_clean_peer_close_succeeds_once_then_epipe", [](Trace& t) {
        Pair p = make_pair();
        ::close(p.s); p.s = -1; nap(10);
        t.push_back(rv("send1", ::send(p.c, "abc", 3, MSG_NOSIGNAL))); nap(10);
        t.push_back(rv("send2", ::send(p.c, "abc", 3, MSG_NOSIGNAL)));
        t.push_back(rv("send3", ::send(p.c, "abc", 3, MSG_NOSIGNAL)));
        close_pair(p);
    }});
    v.push_back({"peer_close_with_unread_data_resets_then_epipe", [](Trace& t) {
        Pair p = make_pair();
        ::send(p.c, "unread", 6, MSG_NOSIGNAL); nap(10);
        ::close(p.s); p.s = -1; nap(10);
        t.push_back(rv("send1", ::send(p.c, "abc", 3, MSG_NOSIGNAL)));
        t.push_back(rv("send2", ::send(p.c, "abc", 3, MSG_NOSIGNAL)));
        close_pair(p);
    }});
    v.push_back({"recv_after_reset_reports_econnreset_once", [](Trace& t) {
        Pair p = make_pair();
        ::send(p.c, "unread", 6, MSG_NOSIGNAL); nap(10);
        ::close(p.s); p.s = -1; nap(10);
        char b[8]; t.push_back(rv("recv1", ::recv(p.c, b, sizeof b, 0))); t.push_back(rv("recv2", ::recv(p.c, b, sizeof b, 0)));
        close_pair(p);
    }});
    v.push_back({"so_rcvtimeo_expires_with_eagain", [](Trace& t) {
        Pair p = make_pair();
        timeval tv{0, 60000}; t.push_back(rv("setsockopt", setsockopt(p.s, SOL_SOCKET, SO_RCVTIMEO, &tv, sizeof tv)));
        const auto t0 = std::chrono::steady_clock::now();
        char b[8]; t.push_back(rv("recv", ::recv(p.s, b, sizeof b, 0)));
        const auto ms = std::chrono::duration_cast<std::chrono::milliseconds>(std::chrono::steady_clock::now() - t0).count();
        t.push_back(std::string("waited_at_least_55ms=") + (ms >= 55 ? "1" : "0") + " less_than_1s=" + (ms < 1000 ? "1" : "0"));
        close_pair(p);
    }});
    v.push_back({"nonblocking_recv_and_accept_without_data_are_eagain", [](Trace& t) {
        Pair p = make_pair();
        fcntl(p.s, F_SETFL, fcntl(p.s, F_GETFL, 0) | O_NONBLOCK);
        char b[8]; t.push_back(rv("recv", ::recv(p.s, b, sizeof b, 0)));
        fcntl(p.l, F_SETFL, fcntl(p.l, F_GETFL, 0) | O_NONBLOCK);
        t.push_back(rv("accept", ::accept(p.l, nullptr, nullptr)));
        t.push_back(rv("recv_dontwait", ::recv(p.c, b, sizeof b, MSG_DONTWAIT)));
        close_pair(p);
    }});
    v.push_back({"half_close_lets_the_other_direction_continue", [](Trace& t) {
        Pair p = make_pair();
        t.push_back(rv("shutdown_wr", ::shutdown(p.c, SHUT_WR))); nap(10);
        char b[8]; t.push_back(rv("server_recv", ::recv(p.s, b, sizeof b, 0)));
        t.push_back(rv("server_send", ::send(p.s, "ok", 2, MSG_NOSIGNAL))); nap(10);
        t.push_back(rv("client_recv", ::recv(p.c, b, sizeof b, 0)));
        t.push_back(rv("client_send_after_shut_wr", ::send(p.c, "x", 1, MSG_NOSIGNAL)));
        close_pair(p);
    }});
    v.push_back({"shutdown_rdwr_on_own_stream_makes_recv_return_zero", [](Trace& t) {
        Pair p = make_pair();
        t.push_back(rv("shutdown", ::shutdown(p.s, SHUT_RDWR)));
        char b[8]; t.push_back(rv("recv", ::recv(p.s, b, sizeof b, 0)));
        nap(10); t.push_back(rv("peer_recv", ::recv(p.c, b, sizeof b, 0)));
        close_pair(p);
    }});
    v.push_back({"lowest_free_descriptor_is_reused", [](Trace& t) {
        const int a = ::socket(AF_INET, SOCK_STREAM, 0), b = ::socket(AF_INET, SOCK_STREAM, 0);
        ::close(a); const int c = ::socket(AF_INET, SOCK_STREAM, 0);
        t.push_back(std::string("reused=") + (c == a ? "1" : "0") + " distinct=" + (b != c ? "1" : "0"));
        ::close(b); ::close(c);
        t.push_back(rv("close_twice", ::close(c)));
        char x; t.push_back(rv("recv_on_closed", ::recv(c, &x, 1, 0)));
    }});
    v.push_back({"epoll_is_level_triggered", [](Trace& t) {
        Pair p = make_pair();
        const int ep = epoll_create1(0);
        epoll_event ev{}; ev.events = EPOLLIN; ev.data.fd = p.s;
        t.push_back(rv("ctl_add", epoll_ctl(ep, EPOLL_CTL_ADD, p.s, &ev)));
        epoll_event out[4];
        t.push_back(rv("wait_idle", epoll_wait(ep, out, 4, 0)));
        ::send(p.c, "abc", 3, MSG_NOSIGNAL); nap(10);
        int n = epoll_wait(ep, out, 4, 100); t.push_back(rv("wait_data", n) + (n > 0 ? " in=" + std::to_string((out[0].events & EPOLLIN) ? 1 : 0) : ""));
        n = epoll_wait(ep, out, 4, 0); t.push_back(rv("wait_again_unread", n));
        char b[8]; t.push_back(rv("recv", ::recv(p.s, b, sizeof b, 0)));
        t.push_back(rv("wait_after_read", epoll_wait(ep, out, 4, 0)));
        ::close(p.c); p.c = -1; nap(10);
        n = epoll_wait(ep, out, 4, 100); t.push_back(rv("wait_after_peer_close", n) + (n > 0 ? " in=" + std::to_string((out[0].events & EPOLLIN) ? 1 : 0) : ""));
        t.push_back(rv("recv_eof", ::recv(p.s, b, sizeof b, 0)));
        t.push_back(rv("ctl_del", epoll_ctl(ep, EPOLL_CTL_DEL, p.s, nullptr)));
        t.push_back(rv("ctl_del_again", epoll_ctl(ep, EPOLL_CTL_DEL, p.s, nullptr)));
        ::close(ep); close_pair(p);
    }});
    v.push_back({"epoll_reports_writable_and_listener_readable", [](Trace& t) {
        std::uint16_t port = 0; const int l = listener(&port);
        const int ep = epoll_create1(0);
        epoll_event ev{}; ev.events = EPOLLIN; ev.data.fd = l; epoll_ctl(ep, EPOLL_CTL_ADD, l, &ev);
        epoll_event out[4];
        t.push_back(rv("wait_no_pending", epoll_wait(ep, out, 4, 0)));
        const int c = dial(port); nap(10);
        int n = epoll_wait(ep, out, 4, 100); t.push_back(rv("wait_pending_connection", n));
        const int s = ::accept(l, nullptr, nullptr);
        t.push_back(rv("wait_after_accept", epoll_wait(ep, out, 4, 0)));
        ev.events = EPOLLOUT; ev.data.fd = s; epoll_ctl(ep, EPOLL_CTL_ADD, s, &ev);
        n = epoll_wait(ep, out, 4, 0); t.push_back(rv("wait_writable", n) + (n > 0 ? " out=" + std::to_string((out[0].events & EPOLLOUT) ? 1 : 0) : ""));
        ::close(c); ::close(s); ::close(l); ::close(ep);
    }});
    v.push_back({"eventfd_counts_and_blocks", [](Trace& t) {
        const int e = eventfd(0, EFD_NONBLOCK);
        std::uint64_t x = 0;
        t.push_back(rv("read_empty", ::read(e, &x, 8)));
        x = 3; t.push_back(rv("write3", ::write(e, &x, 8)));
        x = 4; t.push_back(rv("write4", ::write(e, &x, 8)));
        const int ep = epoll_create1(0); epoll_event ev{}; ev.events = EPOLLIN; ev.data.fd = e; epoll_ctl(ep, EPOLL_CTL_ADD, e, &ev);
        epoll_event out[2]; t.push_back(rv("epoll_readable", epoll_wait(ep, out, 2, 0)));
        x = 0; const long r = ::read(e, &x, 8); t.push_back(rv("read", r) + " value=" + std::to_string(x));
        t.push_back(rv("read_again", ::read(e, &x, 8)));
        t.push_back(rv("epoll_idle", epoll_wait(ep, out, 2, 0)));
        char small[4]; t.push_back(rv("read_short_buffer", ::read(e, small, 4)));
        ::close(ep); ::close(e);
    }});
    v.push_back({"msg_peek_leaves_data", [](Trace& t) {
        Pair p = make_pair();
        ::send(p.c, "abcdef", 6, MSG_NOSIGNAL); nap(10);
        char b[8] = {0}; long r = ::recv(p.s, b, 3, MSG_PEEK); t.push_back(rv("peek", r) + " '" + std::string(b, r > 0 ? static_cast<std::size_t>(r) : 0) + "'");
        r = ::recv(p.s, b, 8, 0); t.push_back(rv("recv", r) + " '" + std::string(b, r > 0 ? static_cast<std::size_t>(r) : 0) + "'");
        close_pair(p);
    }});
    v.push_back({"blocked_accept_is_woken_by_shutdown_of_the_listener", [](Trace& t) {
        std::uint16_t port = 0; const int l = listener(&port);
        long r = 1; int e = 0;
        std::thread th([&] { r = ::accept(l, nullptr, nullptr); e = errno; });
        nap(40);
        t.push_back(rv("shutdown", ::shutdown(l, SHUT_RDWR)));
        th.join();
        t.push_back("accept=" + std::to_string(r) + " " + en(e));
        ::close(l);
    }});
    v.push_back({"blocked_recv_is_woken_by_shutdown_from_another_thread", [](Trace& t) {
        Pair p = make_pair();
        long r = 1; int e = 0;
        std::thread th([&] { char b[8]; r = ::recv(p.s, b, sizeof b, 0); e = errno; });
        nap(40);
        t.push_back(rv("shutdown", ::shutdown(p.s, SHUT_RDWR)));
        th.join();
        t.push_back("recv=" + std::to_string(r) + (r < 0 ? " " + en(e) : ""));
        close_pair(p);
    }});
    v.push_back({"blocked_recv_is_woken_by_peer_data_and_by_peer_close", [](Trace& t) {
        Pair p = make_pair();
        long r1 = -9, r2 = -9;
        std::thread th([&] { char b[8]; r1 = ::recv(p.s, b, sizeof b, 0); r2 = ::recv(p.s, b, sizeof b, 0); });
        nap(30); ::send(p.c, "zz", 2, MSG_NOSIGNAL); nap(30); ::close(p.c); p.c = -1;
        th.join();
        t.push_back("recv1=" + std::to_string(r1) + " recv2=" + std::to_string(r2));
        close_pair(p);
    }});
    v.push_back({"nonblocking_send_into_a_full_pipe_ends_in_eagain_and_resumes_after_a_read", [](Trace& t) {
        Pair p = make_pair();
        fcntl(p.c, F_SETFL, fcntl(p.c, F_GETFL, 0) | O_NONBLOCK);
        std::vector<char> chunk(65536, 'q');
        long total = 0; bool again = false;
        for (int i = 0; i < 4096 && !again; ++i) { const long r = ::send(p.c, chunk.data(), chunk.size(), MSG_NOSIGNAL); if (r > 0) total += r; else if (errno == EAGAIN) again = true; else break; }
        t.push_back(std::string("reached_eagain=") + (again ? "1" : "0") + " accepted_some=" + (total > 0 ? "1" : "0"));
        // drain everything on the other side, then the sender can write again
        fcntl(p.s, F_SETFL, fcntl(p.s, F_GETFL, 0) | O_NONBLOCK);
        long drained = 0; for (int idle = 0; idle < 20;) { const long r = ::recv(p.s, chunk.data(), chunk.size(), 0); if (r > 0) { drained += r; idle = 0; } else { ++idle; nap(2); } }
        t.push_back(std::string("drained_equals_accepted=") + (drained == total ? "1" : "0"));
        t.push_back(std::string("send_after_drain_positive=") + (::send(p.c, "x", 1, MSG_NOSIGNAL) == 1 ? "1" : "0"));
        close_pair(p);
    }});
    v.push_back({"second_bind_of_a_listening_port_is_refused", [](Trace& t) {
        std::uint16_t port = 0; const int l = listener(&port);
        const int s2 = ::socket(AF_INET, SOCK_STREAM, 0); auto a = loop_addr(port);
        t.push_back(rv("bind", ::bind(s2, reinterpret_cast<sockaddr*>(&a), sizeof a)));
        ::close(s2); ::close(l);
    }});
    v.push_back({"getaddrinfo_numeric_host", [](Trace& t) {
        addrinfo hints{}; hints.ai_family = AF_UNSPEC; hints.ai_socktype = SOCK_STREAM;
        addrinfo* res = nullptr; const int r = getaddrinfo("127.0.0.1", "4242", &hints, &res);
        t.push_back("getaddrinfo=" + std::to_string(r));
        if (r == 0 && res) { t.push_back("family=" + std::to_string(res->ai_family) + " port=" + std::to_string(ntohs(reinterpret_cast<sockaddr_in*>(res->ai_addr)->sin_port)) + " next=" + (res->ai_next ? "1" : "0")); freeaddrinfo(res); }
    }});
    v.push_back({"udp_client_sees_datagram_boundaries_truncation_and_timeouts", [](Trace& t) {
        // The repository uses UDP only as a STUN client, and the simulation models UDP servers only as scripted responders.
        // So the responder differs by mode (a real socket served by a thread / sk::udp_serve); the client side - which is
        // what the repository's code is - runs the same calls in both. For a 2-byte request "ab" the responder answers with
        // two datagrams "ab" and "cde!"; for anything else it stays silent.
        std::uint16_t port = 0;
        int srv = -1; bool stop = false; std::thread th;
        if (sk::in_sim()) {
            port = 3478;
            sk::udp_serve("127.0.0.1", port, [](const std::vector<std::uint8_t>& req, const std::string&) {
                std::vector<std::pair<std::int64_t, std::vector<std::uint8_t>>> out;
                // the second answer leaves later than any simulated latency: UDP may reorder, loopback does not
                if (req.size() == 2) { out.push_back({0, {'a', 'b'}}); out.push_back({5000000, {'c', 'd', 'e', '!'}}); }
                return out;
            });
        } else {
            srv = ::socket(AF_INET, SOCK_DGRAM, 0); auto a = loop_addr(0); ::bind(srv, reinterpret_cast<sockaddr*>(&a), sizeof a); port = port_of(srv);
            timeval tv{0, 20000}; setsockopt(srv, SOL_SOCKET, SO_RCVTIMEO, &tv, sizeof tv);
            th = std::thread([&] {
                while (!stop) {
                    char b[64]; sockaddr_in from{}; socklen_t fl = sizeof from;
                    const long r = ::recvfrom(srv, b, sizeof b, 0, reinterpret_cast<sockaddr*>(&from), &fl);
                    if (r == 2) { ::sendto(srv, "ab", 2, 0, reinterpret_cast<sockaddr*>(&from), fl); ::sendto(srv, "cde!", 4, 0, reinterpret_cast<sockaddr*>(&from), fl); }
                }
            });
        }
        const int c = ::socket(AF_INET, SOCK_DGRAM, 0); auto to = loop_addr(port);
        t.push_back(rv("connect", ::connect(c, reinterpret_cast<sockaddr*>(&to), sizeof to)));
        timeval tv{0, 80000}; t.push_back(rv("setsockopt", setsockopt(c, SOL_SOCKET, SO_RCVTIMEO, &tv, sizeof tv)));
        t.push_back(rv("send_request", ::send(c, "ab", 2, 0)));
        char b[16] = {0};
        long r = ::recv(c, b, sizeof b, 0); t.push_back(rv("recv1", r) + " '" + std::string(b, r > 0 ? static_cast<std::size_t>(r) : 0) + "'");
        r = ::recv(c, b, 1, 0); t.push_back(rv("recv2_into_1_byte", r) + " '" + std::string(b, r > 0 ? static_cast<std::size_t>(r) : 0) + "'");
        t.push_back(rv("recv3_rest_was_discarded", ::recv(c, b, sizeof b, 0)));
        t.push_back(rv("send_ignored_request", ::send(c, "xyz", 3, 0)));
        t.push_back(rv("recv4_no_answer", ::recv(c, b, sizeof b, 0)));
        ::close(c);
        if (!sk::in_sim()) { stop = true; th.join(); ::close(srv); }
    }});
    v.push_back({"files_remove_and_unlink", [](Trace& t) {
        const std::string dir = sk::in_sim() ? sk::scratch_dir() : std::string("/dev/shm");
        const std::string f = dir + "/conformance_" + std::to_string(getpid()) + ".tmp";
        t.push_back(rv("remove_missing", ::remove(f.c_str())));
        FILE* fp = fopen(f.c_str(), "wb"); t.push_back(std::string("fopen=") + (fp ? "ok" : "null"));
        if (fp) { t.push_back(rv("fwrite", static_cast<long>(fwrite("0123456789", 1, 10, fp)))); t.push_back(rv("fclose", fclose(fp))); }
        struct stat st{}; t.push_back(rv("stat", ::stat(f.c_str(), &st)) + " size=" + std::to_string(static_cast<long>(st.st_size)));
        FILE* rd = fopen(f.c_str(), "rb");
        t.push_back(rv("unlink_while_open", ::unlink(f.c_str())));
        char b[16] = {0}; if (rd) { t.push_back(rv("read_after_unlink", static_cast<long>(fread(b, 1, 16, rd)))); fclose(rd); }
        t.push_back(rv("stat_after_unlink", ::stat(f.c_str(), &st)));
        t.push_back(rv("unlink_again", ::unlink(f.c_str())));
        FILE* none = fopen((dir + "/no_such_dir/x").c_str(), "wb"); t.push_back(std::string("fopen_in_missing_dir=") + (none ? "ok" : "null " + en(errno))); if (none) fclose(none);
    }});
    return v;
}

}  // namespace

namespace hz {

int conformance_main() {
    ::signal(SIGPIPE, SIG_IGN);
    int bad = 0, n = 0;
    for (auto& sc : conf_scenarios()) {
        Trace real, sim;
        sc.run(real);  // outside the simulation every interposed call forwards to the kernel
        sk::Knobs k;
        k.preempt_per_1024 = 0; k.short_io_per_1024 = 0; k.lat_min_ns = 0; k.lat_max_ns = 200'000;
        k.sock_buf_min = 65536; k.sock_buf_max = 262144;
        const auto st = sk::run(0xC0F0 + static_cast<std::uint64_t>(n), k, [&] { ::signal(SIGPIPE, SIG_IGN); sc.run(sim); });
        ++n;
        const bool same = real == sim && st.fatal.empty();
        printf("%s %s\n", same ? "same   " : "DIFFERS", sc.name);
        if (!same) {
            ++bad;
            if (!st.fatal.empty()) printf("    simulated run aborted: %s\n", st.fatal.c_str());
            const std::size_t m = std::max(real.size(), sim.size());
            for (std::size_t i = 0; i < m; ++i) {
                const std::string a = i < real.size() ? real[i] : "(none)", b = i < sim.size() ? sim[i] : "(none)";
                printf("    %c kernel: %-45s sim: %s\n", a == b ? ' ' : '!', a.c_str(), b.c_str());
            }
        }
    }
    printf("conformance: %d scenarios, %d differ\n", n, bad);
    fflush(stdout);
    return bad ? 1 : 0;
}

}  // namespace hz
