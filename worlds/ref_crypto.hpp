// Independent SHA-256 (FIPS 180-4) and HMAC-SHA256 (RFC 2104), written from the standards for the oracles:
// nothing here calls into the repository, so a change in src/crypto that stays self-consistent
// (both ends of a session compute the same wrong MAC) is still seen.
#pragma once

#include <array>
#include <cstdint>
#include <cstring>
#include <vector>

namespace wl::ref {

inline std::array<std::uint8_t, 32> sha256(const std::uint8_t* data, std::size_t len) {
    static const std::uint32_t K[64] = {
        0x428a2f98, 0x71374491, 0xb5c0fbcf, 0xe9b5dba5, 0x3956c25b, 0x59f111f1, 0x923f82a4, 0xab1c5ed5, 0xd807aa98, 0x12835b01, 0x243185be,
        0x550c7dc3, 0x72be5d74, 0x80deb1fe, 0x9bdc06a7, 0xc19bf174, 0xe49b69c1, 0xefbe4786, 0x0fc19dc6, 0x240ca1cc, 0x2de92c6f, 0x4a7484aa,
        0x5cb0a9dc, 0x76f988da, 0x983e5152, 0xa831c66d, 0xb00327c8, 0xbf597fc7, 0xc6e00bf3, 0xd5a79147, 0x06ca6351, 0x14292967, 0x27b70a85,
        0x2e1b2138, 0x4d2c6dfc, 0x53380d13, 0x650a7354, 0x766a0abb, 0x81c2c92e, 0x92722c85, 0xa2bfe8a1, 0xa81a664b, 0xc24b8b70, 0xc76c51a3,
        0xd192e819, 0xd6990624, 0xf40e3585, 0x106aa070, 0x19a4c116, 0x1e376c08, 0x2748774c, 0x34b0bcb5, 0x391c0cb3, 0x4ed8aa4a, 0x5b9cca4f,
        0x682e6ff3, 0x748f82ee, 0x78a5636f, 0x84c87814, 0x8cc70208, 0x90befffa, 0xa4506ceb, 0xbef9a3f7, 0xc67178f2};
    std::uint32_t h[8] = {0x6a09e667, 0xbb67ae85, 0x3c6ef372, 0xa54ff53a, 0x510e527f, 0x9b05688c, 0x1f83d9ab, 0x5be0cd19};
    std::vector<std::uint8_t> m(data, data + len);
    m.push_back(0x80);
    while (m.size() % 64 != 56) m.push_back(0);
    const std::uint64_t bits = static_cast<std::uint64_t>(len) * 8;
    for (int i = 7; i >= 0; --i) m.push_back(static_cast<std::uint8_t>(bits >> (8 * i)));
    auto rotr = [](std::uint32_t x, int n) { return (x >> n) | (x << (32 - n)); };
    for (std::size_t off = 0; off < m.size(); off += 64) {
        std::uint32_t w[64];
        for (int i = 0; i < 16; ++i)
            w[i] = (std::uint32_t(m[off + 4 * i]) << 24) | (std::uint32_t(m[off + 4 * i + 1]) << 16) | (std::uint32_t(m[off + 4 * i + 2]) << 8) | m[off + 4 * i + 3];
        for (int i = 16; i < 64; ++i) {
            const std::uint32_t s0 = rotr(w[i - 15], 7) ^ rotr(w[i - 15], 18) ^ (w[i - 15] >> 3);
            const std::uint32_t s1 = rotr(w[i - 2], 17) ^ rotr(w[i - 2], 19) ^ (w[i - 2] >> 10);
            w[i] = w[i - 16] + s0 + w[i - 7] + s1;
        }
        std::uint32_t a = h[0], b = h[1], c = h[2], d = h[3], e = h[4], f = h[5], g = h[6], hh = h[7];
        for (int i = 0; i < 64; ++i) {
            const std::uint32_t S1 = rotr(e, 6) ^ rotr(e, 11) ^ rotr(e, 25);
            const std::uint32_t ch = (e & f) ^ (~e & g);
            const std::uint32_t t1 = hh + S1 + ch + K[i] + w[i];
            const std::uint32_t S0 = rotr(a, 2) ^ rotr(a, 13) ^ rotr(a, 22);
            const std::uint32_t mj = (a & b) ^ (a & c) ^ (b & c);
            const std::uint32_t t2 = S0 + mj;
            hh = g; g = f; f = e; e = d + t1; d = c; c = b; b = a; a = t1 + t2;
        }
        h[0] += a; h[1] += b; h[2] += c; h[3] += d; h[4] += e; h[5] += f; h[6] += g; h[7] += hh;
    }
    std::array<std::uint8_t, 32> out{};
    for (int i = 0; i < 8; ++i) { out[4 * i] = h[i] >> 24; out[4 * i + 1] = h[i] >> 16; out[4 * i + 2] = h[i] >> 8; out[4 * i + 3] = h[i]; }
    return out;
}

inline std::array<std::uint8_t, 32> hmac_sha256(const std::uint8_t* key, std::size_t key_len, const std::uint8_t* msg, std::size_t msg_len) {
    std::uint8_t block[64] = {0};
    if (key_len > 64) { const auto d = sha256(key, key_len); std::memcpy(block, d.data(), 32); }
    else if (key_len) std::memcpy(block, key, key_len);
    std::vector<std::uint8_t> inner(64 + msg_len), outer(64 + 32);
    for (int i = 0; i < 64; ++i) { inner[static_cast<std::size_t>(i)] = block[i] ^ 0x36; outer[static_cast<std::size_t>(i)] = block[i] ^ 0x5c; }
    if (msg_len) std::memcpy(inner.data() + 64, msg, msg_len);
    const auto ih = sha256(inner.data(), inner.size());
    std::memcpy(outer.data() + 64, ih.data(), 32);
    return sha256(outer.data(), outer.size());
}

}  // namespace wl::ref
