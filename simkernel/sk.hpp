// simkernel — deterministic single-threaded simulation of the OS surface that
// EphemeralNet touches: threads (as fibers), mutexes, clocks, sleeps, entropy,
// TCP/UDP sockets, epoll/eventfd, and an observing/fault-injecting file seam.
// Everything is decided by one seeded PRNG. See /verif/DESIGN.md §3.
#pragma once

#include <cstddef>
#include <cstdint>
#include <functional>
#include <string>
#include <vector>

namespace sk {

// ---------------------------------------------------------------- PRNG
struct Rng {
    std::uint64_t s[4]{};
    explicit Rng(std::uint64_t seed = 0) { reseed(seed); }
    void reseed(std::uint64_t seed);
    std::uint64_t next();
    // uniform in [0, n) ; n == 0 -> 0
    std::uint64_t below(std::uint64_t n) { return n ? next() % n : 0; }
    // uniform in [lo, hi]
    std::int64_t range(std::int64_t lo, std::int64_t hi) {
        return hi <= lo ? lo : lo + static_cast<std::int64_t>(below(static_cast<std::uint64_t>(hi - lo) + 1));
    }
    bool chance(std::uint32_t num, std::uint32_t den) { return below(den) < num; }
    template <class T> const T& pick(const std::vector<T>& v) { return v[below(v.size())]; }
};
std::uint64_t mix64(std::uint64_t a, std::uint64_t b);

// ---------------------------------------------------------------- knobs
struct Knobs {
    // scheduling
    std::uint32_t preempt_per_1024 = 256;  // chance to switch fiber at a scheduling point
    // a thread may be descheduled for a long time at any instant: with this chance a fiber that reaches a scheduling point is put
    // to sleep for up to deschedule_max_ns of simulated time although it could run (timers of other threads fire meanwhile)
    std::uint32_t deschedule_per_65536 = 0;
    std::int64_t deschedule_max_ns = 1'500'000'000;
    // a thread that has just been given the processor back does some work before it can lose it again: this many of its own scheduling
    // points pass between two long preemptions of one fiber (otherwise a loop of 30 000 one-byte reads is slowed down a hundredfold,
    // which is an overloaded machine, not a preemption). Drivers that aim preemptions at one operation set it to 0 for that time.
    std::uint32_t deschedule_min_gap = 2000;
    // the same long preemption, aimed at the classic place of atomicity violations: right after a mutex is released (between two
    // critical sections that the code assumes to follow each other at once). Chance per unlock, in 1/65536.
    std::uint32_t deschedule_after_unlock_per_65536 = 0;
    bool clock_jitter = false;             // every clock read advances time by 1..jitter_ns
    std::uint32_t jitter_ns = 1000;
    // network
    std::int64_t lat_min_ns = 0;
    std::int64_t lat_max_ns = 2'000'000;   // per-segment delivery latency
    std::uint32_t sock_buf_min = 4096;     // per-direction capacity drawn in [min,max]
    std::uint32_t sock_buf_max = 262144;
    std::uint32_t short_io_per_1024 = 128; // chance a send/recv transfers only a prefix
    std::uint32_t connect_timeout_ms = 3000;
    // limits
    std::uint64_t max_steps = 2'000'000;   // scheduling steps before the run is declared stuck
    std::int64_t max_sim_ns = 0;           // 0 = unlimited
    bool trace = false;                    // keep a textual event log (replay / debugging)
};

// ---------------------------------------------------------------- run control
struct RunStats {
    std::uint64_t steps = 0;          // scheduling points passed
    std::uint64_t switches = 0;       // actual context switches
    std::uint64_t sched_hash = 0;     // hash of first 256 scheduling decisions
    std::uint64_t log_hash = 0;       // rolling hash of every recorded event
    std::int64_t sim_ns = 0;          // simulated time at end
    std::uint64_t fibers_created = 0;
    std::uint64_t short_reads = 0, short_writes = 0, eagain = 0, resets = 0, refused = 0,
                  rcv_timeouts = 0, sigpipes = 0, conn_established = 0, accept_faults = 0,
                  dgram_lost = 0, dgram_dup = 0, dgram_delivered = 0,
                  file_faults = 0, file_ops = 0, crashes = 0, clock_steps = 0, bytes_tx = 0, descheduled = 0, descheduled_after_unlock = 0;
    bool deadlock = false;            // no runnable fiber, no timer, driver unfinished
    bool step_limit = false;
    std::string fatal;                // non-empty: run aborted by the kernel (description)
};

enum class ExitKind { Running, Returned, Exception, SigPipe, Killed, Terminate };

struct ProcInfo {
    int pid = 0;
    std::string name;
    std::uint32_t host = 0;  // IPv4, host byte order
    ExitKind exit = ExitKind::Running;
    int exit_code = 0;
    std::string exit_detail;  // exception what(), etc.
    std::vector<std::string> thread_failures;  // "uncaught exception in thread: ..."
};

// Run a whole simulation. `driver` executes as the main fiber of process 0
// ("driver", host 10.0.0.1). Returns when the driver returns (or the run is
// aborted). All remaining fibers are abandoned and all kernel state reset.
RunStats run(std::uint64_t seed, const Knobs& knobs, const std::function<void()>& driver);

// abandon the current run from any fiber (stacks are dropped, nothing is unwound): used when the
// driver cannot continue safely. stats.fatal is set to `why`.
[[noreturn]] void fail_run(const std::string& why);
// called every 16384 scheduling steps (a liveness signal for an outer watchdog)
void set_heartbeat(std::function<void()> fn);
bool in_sim();                 // true while inside run() on a fiber
Knobs& knobs();                // current run's knobs (mutable by the driver)
Rng& rng();                    // schedule/network PRNG of the run
Rng& plan_rng();               // separate stream, for driver-side generation at run time
RunStats& stats();

// --- processes
constexpr std::uint32_t ip(std::uint8_t a, std::uint8_t b, std::uint8_t c, std::uint8_t d) {
    return (std::uint32_t(a) << 24) | (std::uint32_t(b) << 16) | (std::uint32_t(c) << 8) | d;
}
int spawn(const std::string& name, std::uint32_t host, std::function<int()> main_fn,
          std::size_t stack_bytes = 8u << 20);
void kill(int pid);                       // crash: abandon fibers, reset its sockets
bool alive(int pid);
ProcInfo info(int pid);
bool wait_exit(int pid, std::int64_t timeout_ns);  // driver helper: block until pid exits
int current_pid();
std::vector<ProcInfo> all_procs();
void set_wall_offset(int pid, std::int64_t ns);    // per-process wall clock skew / step
// spawn an additional fiber ("thread") inside the calling process
void go(const std::string& name, std::function<void()> fn, std::size_t stack_bytes = 2u << 20);
int live_fibers(int pid);
bool deliver_signal(int pid, int sig);      // run pid's handler for sig (default disposition: kill)

// --- time
std::int64_t now_ns();                    // simulated steady time since run start
void sleep_ns(std::int64_t ns);           // park the calling fiber
void yield();                             // scheduling point
// block until pred() or timeout; returns pred()
bool wait_until(const std::function<bool()>& pred, std::int64_t timeout_ns);
constexpr std::int64_t kSteadyEpochNs = 1'000'000'000'000LL;         // steady clock at run start (1000 s)
constexpr std::int64_t kWallEpochNs = 1'700'000'000'000'000'000LL;   // wall clock at run start
std::int64_t steady_raw_ns();             // what steady_clock::now() would return (no jitter applied)
std::int64_t wall_raw_ns(int pid);

// --- event log
void note(const char* what, std::uint64_t a = 0, std::uint64_t b = 0);  // hashed (+ traced) event
void trace(const std::string& line);                                    // traced only if knobs.trace
std::vector<std::string> trace_tail(std::size_t n);

// --- network control
void partition(std::uint32_t host_a, std::uint32_t host_b, bool blocked);  // both directions
// a driver may aim the after-unlock preemptions (Knobs::deschedule_after_unlock_per_65536) at one operation: rate and longest sleep from now on
void set_deschedule_after_unlock(std::uint32_t per_65536, std::int64_t max_ns);
void set_deschedule(std::uint32_t per_65536, std::int64_t max_ns);
void trace_blocked();  // writes "who is blocked without a deadline / which mutex is held by whom" into the trace (for liveness violations)  // the same for Knobs::deschedule_per_65536 (any scheduling point)
void set_host_unreachable_fast(bool fast);  // partitioned connect: EHOSTUNREACH now vs ETIMEDOUT later
// resolve table for getaddrinfo: name -> list of (family, address bytes)
void dns_set(const std::string& name, const std::vector<std::string>& numeric_addrs);
void dns_clear();
// fault hooks (applied by the kernel at the next matching call of `pid`, one-shot)
void fault_accept_once(int pid, int err);          // next accept() in pid fails with err
void fault_socket_once(int pid, int err);          // next socket() fails (EMFILE)
// forcibly reset an established connection owned by pid (its n-th open stream; returns false if none)
bool fault_reset_stream(int pid, int nth);
int count_fds(int pid);                   // descriptors owned by pid
std::vector<int> fds_of(int pid);
std::string fd_describe(int fd);
// wire tap: every segment accepted by send() on a TCP stream
struct TapSegment { int from_pid, to_pid; std::uint16_t from_port, to_port; std::vector<std::uint8_t> bytes; std::int64_t t; };
void tap_enable(bool on);
std::vector<TapSegment>& tap();
// corrupt bytes in flight toward `to_pid`: hook gets each segment before queueing; may mutate.
void set_inflight_mutator(std::function<void(TapSegment&)> fn);
// UDP fault knobs
struct UdpKnobs { std::uint32_t loss_per_1024 = 0, dup_per_1024 = 0; std::int64_t extra_delay_ns = 0; };
void set_udp_knobs(const UdpKnobs& k);
// scripted UDP responder (e.g. a STUN server): handler(request, "client_ip:port") -> list of
// (extra delay ns, datagram). addr is numeric text ("10.9.0.1" or "2001:db8::1").
using UdpHandler = std::function<std::vector<std::pair<std::int64_t, std::vector<std::uint8_t>>>(const std::vector<std::uint8_t>&, const std::string&)>;
void udp_serve(const std::string& addr, std::uint16_t port, UdpHandler handler);

// --- file seam
struct FileOp {
    int pid;
    std::string kind;   // open_w open_r open_rw write truncate unlink mkdir rename rmdir close
    std::string path;
    std::int64_t off = 0, len = 0;
    int result = 0;     // 0 ok, else errno injected/observed
    bool all_zero = false;  // for write: payload was all zero bytes
};
void fs_log_enable(bool on);
std::vector<FileOp>& fs_log();
// fault: in `pid`, the k-th (0-based, counted from now) mutating file call fails with err
// (ENOSPC/EIO) or, if short_to >= 0, a write is cut to that many bytes.
void fs_fault_at(int pid, int k, int err, std::int64_t short_to = -1);
// crash-freeze: from the k-th mutating call on (counted from now), every mutating call of pid is
// suppressed (returns EIO) — models "process died at call k" (DESIGN §3.6). k < 0 clears.
void fs_freeze_at(int pid, int k);
bool fs_frozen(int pid);
int fs_mutations(int pid);                // mutating calls seen since last reset for pid
void fs_reset_counters(int pid);

// --- ThreadSanitizer (tsan variant only; no effect otherwise)
// While a Quiet scope is alive on the calling fiber its memory traffic is not analysed: used for harness code that
// runs on a simulated process's fibers (output capture, scripted clients) so that only the repository's own accesses
// take part in race detection. Suspended across fiber switches.
struct Quiet { Quiet(); ~Quiet(); Quiet(const Quiet&) = delete; Quiet& operator=(const Quiet&) = delete; };

// --- misc
std::string scratch_dir();                // per-worker real directory for files (cleaned per run)
void set_scratch_root(const std::string& dir);
void random_bytes(void* p, std::size_t n); // entropy stream (what random_device returns)

}  // namespace sk
