// Internal state shared by the simkernel translation units. Not for harness use.
#pragma once

#include "sk.hpp"

#include <ucontext.h>

#include <array>
#include <deque>
#include <map>
#include <memory>
#include <set>
#include <unordered_map>

namespace sk::detail {

struct EhGlobals { void* caught; unsigned int uncaught; };

struct Fiber {
    int id = 0;
    int pid = 0;
    std::string name;
    ucontext_t ctx{};
    void* stack = nullptr;
    std::size_t stack_size = 0;
    enum St { Runnable, Blocked, Done } st = Runnable;
    std::function<bool()> pred;
    std::int64_t deadline = INT64_MAX;
    std::function<void()> fn;
    void* retval = nullptr;
    bool detached = false;
    bool proc_main = false;
    void* tsan_fiber = nullptr;
    void* asan_fake = nullptr;
    EhGlobals eh{nullptr, 0};
    // datagram tail poisoning (DESIGN §3.5)
    void* poisoned = nullptr;
    std::size_t poisoned_len = 0;
    char sync_create = 0, sync_exit = 0;  // addresses used for tsan acquire/release
    std::uint32_t points_since_descheduled = 1u << 30;  // own scheduling points since the last long preemption
    int quiet = 0;  // depth of KernelQuiet scopes (ThreadSanitizer ignores the kernel's own memory traffic)
};

// While the simulated kernel moves bytes between its own buffers and the caller's, ThreadSanitizer must not
// treat those copies (and the allocation/free of segments by different fibers) as accesses of the simulated
// program: they are the kernel's. The scope is suspended across fiber switches, so a parked or abandoned
// fiber never holds it.
struct KernelQuiet {
    KernelQuiet();
    ~KernelQuiet();
    KernelQuiet(const KernelQuiet&) = delete;
    KernelQuiet& operator=(const KernelQuiet&) = delete;
};

struct Proc {
    ProcInfo info;
    std::int64_t wall_offset = 0;
    bool sigpipe_ignored = false;
    std::map<int, void (*)(int)> handlers;
    int pending_accept_err = 0;
    int pending_socket_err = 0;
    // file seam
    int fs_mut = 0;
    int fs_fault_k = -1, fs_fault_err = 0;
    std::int64_t fs_fault_short = -1;
    int fs_freeze_k = -1;
    bool fs_frozen = false;
};

struct Addr {
    int family = 0;  // AF_INET / AF_INET6
    std::array<std::uint8_t, 16> b{};
    std::uint16_t port = 0;
    std::uint32_t v4() const { return (std::uint32_t(b[0]) << 24) | (std::uint32_t(b[1]) << 16) | (std::uint32_t(b[2]) << 8) | b[3]; }
    void set_v4(std::uint32_t ip) { family = 2; b = {}; b[0] = ip >> 24; b[1] = ip >> 16; b[2] = ip >> 8; b[3] = ip; }
    std::string str() const;
    bool operator<(const Addr& o) const { return std::tie(family, b, port) < std::tie(o.family, o.b, o.port); }
};

struct Seg { std::vector<std::uint8_t> data; std::size_t off = 0; std::int64_t at = 0; };

// one direction of a TCP connection
struct Pipe {
    std::deque<Seg> q;
    std::size_t bytes = 0;      // queued, unread
    std::size_t cap = 65536;
    std::int64_t last_at = 0;   // delivery time of the newest segment (keeps order)
    bool fin = false;           // writer closed/shutdown its side
    std::int64_t fin_at = 0;
    bool reader_gone = false;   // reader closed its descriptor (or shut RD)
    std::int64_t reader_gone_at = 0;  // when the writer learns of it
    bool reader_gone_dirty = false;   // ... with unread data => RST semantics
    bool rst = false;           // connection reset (fault or RST), seen by both ends
    std::int64_t rst_at = 0;
    int sends_after_gone = 0;
    bool rst_reported_to_writer = false;
    int from_pid = 0, to_pid = 0;
    std::uint16_t from_port = 0, to_port = 0;
};

struct Dgram { std::vector<std::uint8_t> data; std::int64_t at = 0; Addr from; };

struct Sock {
    enum Kind { Fresh, Listen, Stream, Udp, Epoll, Event } kind = Fresh;
    int fd = -1;
    int pid = 0;
    int family = 2;
    int type = 1;  // SOCK_STREAM
    bool nonblock = false;
    std::int64_t rcvtimeo = 0, sndtimeo = 0;
    bool closed = false;
    Addr local{}, peer{};
    bool bound = false, connected = false;
    // listen
    std::deque<std::shared_ptr<Sock>> backlog;
    bool listen_shut = false;
    // stream
    std::shared_ptr<Pipe> rx, tx;
    bool rd_shut = false, wr_shut = false;
    bool recv_rst_reported = false;
    // udp
    std::deque<Dgram> inbox;
    // epoll
    std::map<int, std::pair<std::uint32_t, std::uint64_t>> interest;  // fd -> (events, data)
    // eventfd
    std::uint64_t counter = 0;
    bool semaphore = false;
};

struct MutexState { int owner = 0; int depth = 0; };  // owner = fiber id, 0 = free

struct Kernel {
    bool active = false;
    Knobs knobs;
    Rng rng, plan_rng, entropy;
    RunStats stats;
    std::int64_t now = 0;
    std::uint64_t jitter_accum = 0;

    std::vector<std::unique_ptr<Fiber>> fibers;  // includes Done until reaped
    Fiber* cur = nullptr;
    ucontext_t root_ctx{};
    const void* root_stack_bottom = nullptr;
    std::size_t root_stack_size = 0;
    void* root_asan_fake = nullptr;
    void* root_tsan = nullptr;
    EhGlobals root_eh{nullptr, 0};
    int next_fiber_id = 1;
    bool aborting = false;
    int sched_decisions = 0;

    std::vector<std::unique_ptr<Proc>> procs;  // index = pid
    std::unordered_map<void*, MutexState> mutexes;

    // fds
    static constexpr int kFdBase = 500, kFdMax = 1000;
    std::array<std::shared_ptr<Sock>, kFdMax - kFdBase> fds{};
    std::map<std::pair<std::uint32_t, std::uint16_t>, std::shared_ptr<Sock>> listeners;  // (host, port)
    std::map<std::uint32_t, std::uint16_t> next_port;
    std::set<std::pair<std::uint32_t, std::uint32_t>> partitions;
    bool unreachable_fast = false;
    std::map<std::string, std::vector<std::string>> dns;
    bool tap_on = false;
    std::vector<TapSegment> tap;
    std::function<void(TapSegment&)> mutator;
    UdpKnobs udp;
    std::map<std::pair<std::string, std::uint16_t>, std::function<std::vector<std::pair<std::int64_t, std::vector<std::uint8_t>>>(const std::vector<std::uint8_t>&, const std::string&)>> udp_servers;

    // files
    bool fs_log_on = false;
    std::vector<FileOp> fs_log;
    std::unordered_map<int, std::string> file_fds;  // real fd -> path (under scratch)
    std::string scratch_root, scratch;

    // trace
    std::deque<std::string> trace;
};

extern Kernel K;

inline bool sim() { return K.active && K.cur != nullptr; }
Proc& proc(int pid);
Proc& cur_proc();

// scheduling primitives (sk_core.cpp)
void preempt_point();
// park until pred() or deadline (absolute ns). returns pred().
bool block(const std::function<bool()>& pred, std::int64_t deadline_abs);
[[noreturn]] void abort_run(const std::string& why);
[[noreturn]] void die_current_process(ExitKind kind, const std::string& detail);
void hash_event(std::uint64_t a, std::uint64_t b = 0, std::uint64_t c = 0);
void tracef(const char* fmt, ...) __attribute__((format(printf, 1, 2)));
void trace_waiters();
void unpoison_fiber(Fiber* f);

// net (sk_net.cpp)
void net_reset_all();
void net_kill_proc(int pid);
std::int64_t net_next_event_time();  // earliest future delivery on any open socket
std::shared_ptr<Sock> sock_of(int fd);
bool is_sim_fd(int fd);

// fs (sk_fs.cpp)
void fs_reset_all();

// real libc entry points
struct Real {
    int (*close)(int);
    long (*read)(int, void*, unsigned long);
    long (*write)(int, const void*, unsigned long);
    int (*fcntl)(int, int, ...);
    int (*nanosleep)(const struct timespec*, struct timespec*);
};

}  // namespace sk::detail

