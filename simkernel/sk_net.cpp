// simkernel network: TCP streams, listeners, UDP (scripted responders), epoll, eventfd,
// getaddrinfo. Interposes the libc entry points; descriptors in [500,1000) are simulated,
// anything else is forwarded to the real libc.
#include "sk_internal.hpp"
#include <execinfo.h>

#include <arpa/inet.h>
#include <dlfcn.h>
#include <errno.h>
#include <fcntl.h>
#include <netdb.h>
#include <netinet/in.h>
#include <signal.h>
#include <stdarg.h>
#include <stdio.h>
#include <stdlib.h>
#include <string.h>
#include <sys/epoll.h>
#include <sys/eventfd.h>
#include <sys/ioctl.h>
#include <sys/socket.h>
#include <sys/syscall.h>
#include <sys/uio.h>
#include <unistd.h>

#include <algorithm>
#include <cmath>

extern "C" {
void __asan_poison_memory_region(void const volatile*, size_t) __attribute__((weak));
}

namespace sk::detail {

std::string Addr::str() const {
    char buf[64] = {0};
    if (family == AF_INET) {
        snprintf(buf, sizeof buf, "%u.%u.%u.%u", b[0], b[1], b[2], b[3]);
    } else if (family == AF_INET6) {
        in6_addr a;
        memcpy(&a, b.data(), 16);
        inet_ntop(AF_INET6, &a, buf, sizeof buf);
    }
    return buf;
}

bool is_sim_fd(int fd) { return fd >= Kernel::kFdBase && fd < Kernel::kFdMax; }

std::shared_ptr<Sock> sock_of(int fd) {
    if (!is_sim_fd(fd)) return nullptr;
    return K.fds[static_cast<std::size_t>(fd - Kernel::kFdBase)];
}

static int alloc_fd(const std::shared_ptr<Sock>& s) {
    for (int i = 0; i < Kernel::kFdMax - Kernel::kFdBase; ++i) {
        if (!K.fds[static_cast<std::size_t>(i)]) {
            K.fds[static_cast<std::size_t>(i)] = s;
            s->fd = Kernel::kFdBase + i;
            return s->fd;
        }
    }
    return -1;
}

static std::uint32_t host_of(int pid) { return proc(pid).info.host; }

static bool partitioned(std::uint32_t a, std::uint32_t b) {
    if (a == b) return false;
    return K.partitions.count({std::min(a, b), std::max(a, b)}) != 0;
}

static std::int64_t draw_latency() {
    const auto lo = K.knobs.lat_min_ns, hi = K.knobs.lat_max_ns;
    return hi <= lo ? lo : K.rng.range(lo, hi);
}

static std::size_t draw_cap() {
    const auto lo = K.knobs.sock_buf_min, hi = K.knobs.sock_buf_max;
    if (hi <= lo) return lo ? lo : 1;
    // log-uniform so that tiny buffers are actually exercised
    const double r = static_cast<double>(K.rng.below(1u << 20)) / static_cast<double>(1u << 20);
    double v = static_cast<double>(lo) * std::pow(static_cast<double>(hi) / static_cast<double>(lo ? lo : 1), r);
    if (v < 1) v = 1;
    return static_cast<std::size_t>(v);
}

static std::uint16_t ephemeral_port(std::uint32_t host) {
    auto& n = K.next_port[host];
    if (n < 40000) n = 40000;
    for (;;) {
        const std::uint16_t p = n++;
        if (n >= 60000) n = 40000;
        if (!K.listeners.count({host, p})) return p;
    }
}

// --- pipe helpers
static std::size_t pipe_available(const Pipe& p) {
    std::size_t n = 0;
    for (const auto& s : p.q) {
        if (s.at > K.now) break;
        n += s.data.size() - s.off;
    }
    return n;
}
static std::int64_t pipe_next_time(const Pipe& p) {
    for (const auto& s : p.q)
        if (s.at > K.now) return s.at;
    if (p.fin && p.fin_at > K.now) return p.fin_at;
    if (p.rst && p.rst_at > K.now) return p.rst_at;
    return INT64_MAX;
}
static bool pipe_eof_visible(const Pipe& p) { return p.fin && p.fin_at <= K.now && p.bytes == 0; }
static bool pipe_rst_visible(const Pipe& p) { return p.rst && p.rst_at <= K.now; }

static bool stream_readable(const Sock& s) {
    if (s.rd_shut || s.closed) return true;
    if (!s.rx) return true;
    return pipe_available(*s.rx) > 0 || pipe_eof_visible(*s.rx) || pipe_rst_visible(*s.rx);
}
static bool writer_knows_gone(const Pipe& p) { return p.reader_gone && p.reader_gone_at <= K.now; }
static bool stream_writable(const Sock& s) {
    if (s.wr_shut || s.closed || !s.tx) return true;
    if (pipe_rst_visible(*s.tx) || writer_knows_gone(*s.tx)) return true;
    return s.tx->bytes < s.tx->cap;
}
static std::int64_t stream_next_time(const Sock& s) {
    std::int64_t t = INT64_MAX;
    if (s.rx) t = std::min(t, pipe_next_time(*s.rx));
    if (s.tx) {
        if (s.tx->reader_gone && s.tx->reader_gone_at > K.now) t = std::min(t, s.tx->reader_gone_at);
        if (s.tx->rst && s.tx->rst_at > K.now) t = std::min(t, s.tx->rst_at);
    }
    return t;
}

static void reset_connection(const std::shared_ptr<Pipe>& a, const std::shared_ptr<Pipe>& b, std::int64_t at) {
    for (auto& p : {a, b}) {
        if (p && !p->rst) { p->rst = true; p->rst_at = at; }
    }
}

static void close_stream_endpoint(Sock& s, bool from_kill) {
    // we are the reader of rx and the writer of tx
    const std::int64_t lat = draw_latency();
    if (s.rx) {
        const bool dirty = s.rx->bytes > 0 || from_kill;
        s.rx->reader_gone = true;
        s.rx->reader_gone_at = K.now + lat;
        s.rx->reader_gone_dirty = dirty;
        if (dirty) {
            // unread data (or crash): the peer gets a reset. It travels the same path as the bytes this
            // endpoint sent earlier, so it cannot overtake them.
            reset_connection(s.rx, s.tx, std::max(K.now + lat, s.tx ? s.tx->last_at : 0));
        }
        s.rx->q.clear();
        s.rx->bytes = 0;
    }
    if (s.tx && !s.tx->fin) {
        s.tx->fin = true;
        s.tx->fin_at = std::max(s.tx->last_at, K.now + lat);
    }
}

static void close_sock(const std::shared_ptr<Sock>& s, bool from_kill) {
    if (!s || s->closed) return;
    s->closed = true;
    switch (s->kind) {
        case Sock::Listen: {
            K.listeners.erase({host_of(s->pid), s->local.port});
            for (auto& pending : s->backlog) close_stream_endpoint(*pending, true);
            s->backlog.clear();
            s->listen_shut = true;
            break;
        }
        case Sock::Stream:
            close_stream_endpoint(*s, from_kill);
            break;
        default:
            break;
    }
    // remove from every epoll set of the same process
    for (auto& e : K.fds)
        if (e && e->kind == Sock::Epoll) e->interest.erase(s->fd);
    if (is_sim_fd(s->fd)) K.fds[static_cast<std::size_t>(s->fd - Kernel::kFdBase)] = nullptr;
    tracef("close fd %d", s->fd);
}

void net_reset_all() {
    for (auto& f : K.fds) f = nullptr;
    K.listeners.clear();
    K.next_port.clear();
    K.partitions.clear();
    K.unreachable_fast = false;
    K.dns.clear();
    K.tap_on = false;
    K.tap.clear();
    K.mutator = nullptr;
    K.udp = UdpKnobs{};
    K.udp_servers.clear();
}

void net_kill_proc(int pid) {
    for (auto& f : K.fds) {
        if (f && f->pid == pid) {
            auto s = f;
            close_sock(s, true);
        }
    }
}

static bool addr_from_sockaddr(const sockaddr* sa, socklen_t len, Addr& out) {
    if (!sa) return false;
    if (sa->sa_family == AF_INET && len >= sizeof(sockaddr_in)) {
        const auto* in = reinterpret_cast<const sockaddr_in*>(sa);
        out.family = AF_INET;
        out.b = {};
        memcpy(out.b.data(), &in->sin_addr, 4);
        out.port = ntohs(in->sin_port);
        return true;
    }
    if (sa->sa_family == AF_INET6 && len >= sizeof(sockaddr_in6)) {
        const auto* in6 = reinterpret_cast<const sockaddr_in6*>(sa);
        out.family = AF_INET6;
        memcpy(out.b.data(), &in6->sin6_addr, 16);
        out.port = ntohs(in6->sin6_port);
        return true;
    }
    return false;
}

static void addr_to_sockaddr(const Addr& a, sockaddr* sa, socklen_t* len) {
    if (!sa || !len) return;
    if (a.family == AF_INET6) {
        sockaddr_in6 in6{};
        in6.sin6_family = AF_INET6;
        memcpy(&in6.sin6_addr, a.b.data(), 16);
        in6.sin6_port = htons(a.port);
        memcpy(sa, &in6, std::min<socklen_t>(*len, sizeof in6));
        *len = sizeof in6;
    } else {
        sockaddr_in in{};
        in.sin_family = AF_INET;
        memcpy(&in.sin_addr, a.b.data(), 4);
        in.sin_port = htons(a.port);
        memcpy(sa, &in, std::min<socklen_t>(*len, sizeof in));
        *len = sizeof in;
    }
}

static int fail(int e) { errno = e; return -1; }

// ---------------------------------------------------------------- stream I/O
static long stream_send(const std::shared_ptr<Sock>& s, const void* buf, size_t len, int flags) {
    if (!s->tx || !s->connected) return fail(ENOTCONN);
    auto raise_pipe = [&]() -> long {
        ++K.stats.sigpipes;
        Proc& p = proc(s->pid);
        if (!(flags & MSG_NOSIGNAL) && !p.sigpipe_ignored) {
            auto it = p.handlers.find(SIGPIPE);
            if (it == p.handlers.end() || it->second == SIG_DFL) {
                tracef("SIGPIPE kills process %d", s->pid);
                die_current_process(ExitKind::SigPipe, "SIGPIPE on send() to a closed connection (fd " + std::to_string(s->fd) + ")");
            }
        }
        return fail(EPIPE);
    };
    // Blocking sockets behave like Linux: send() returns only when every byte is queued (or an
    // error interrupts it); while it waits for buffer space the socket lock is released, so another
    // thread's send() on the same socket can slip its bytes in between. Non-blocking sockets take
    // what fits (optionally a seeded prefix of it) and return.
    const bool nb = s->nonblock || (flags & MSG_DONTWAIT);
    std::size_t total = 0;
    const auto* src = static_cast<const std::uint8_t*>(buf);
    // SO_SNDTIMEO bounds the whole call, not each wait for space (Linux: tcp_sendmsg hands one `timeo` to every
    // sk_stream_wait_memory of the call, which counts it down): a slow reader cannot keep one send() going for ever.
    const std::int64_t dl = s->sndtimeo > 0 ? K.now + s->sndtimeo : INT64_MAX;
    for (;;) {
        if (s->closed) return total ? static_cast<long>(total) : fail(EBADF);
        if (s->wr_shut) return total ? static_cast<long>(total) : raise_pipe();
        Pipe& tx = *s->tx;
        if (pipe_rst_visible(tx)) {
            if (total) return static_cast<long>(total);
            if (!tx.rst_reported_to_writer && !s->recv_rst_reported) {
                tx.rst_reported_to_writer = true;
                return fail(ECONNRESET);
            }
            return raise_pipe();
        }
        if (writer_knows_gone(tx)) {
            if (total) return static_cast<long>(total);
            // peer closed cleanly: the first send is accepted (and provokes the RST), later ones fail
            if (tx.sends_after_gone++ == 0) {
                K.stats.bytes_tx += len;
                reset_connection(s->tx, s->rx, K.now + draw_latency());
                tx.rst_reported_to_writer = true;  // the pending error is consumed as EPIPE next time
                return static_cast<long>(len);
            }
            return raise_pipe();
        }
        if (len == 0) return 0;
        const std::size_t space = tx.bytes < tx.cap ? tx.cap - tx.bytes : 0;
        if (space == 0) {
            if (nb) { if (total) return static_cast<long>(total); ++K.stats.eagain; return fail(EAGAIN); }
            auto txp = s->tx;
            auto sp = s;
            if (s->sndtimeo > 0 && K.now >= dl) return total ? static_cast<long>(total) : fail(EAGAIN);
            block([txp, sp] { return sp->closed || sp->wr_shut || txp->bytes < txp->cap || (txp->rst && txp->rst_at <= K.now) ||
                                     (txp->reader_gone && txp->reader_gone_at <= K.now); },
                  std::min(dl, stream_next_time(*s)));
            if (s->sndtimeo > 0 && K.now >= dl) return total ? static_cast<long>(total) : fail(EAGAIN);
            continue;
        }
        std::size_t n = std::min(space, len - total);
        if (nb && n > 1 && K.rng.below(1024) < K.knobs.short_io_per_1024) n = 1 + static_cast<std::size_t>(K.rng.below(n));
        if (n < len - total) ++K.stats.short_writes;
        Seg seg;
        seg.data.assign(src + total, src + total + n);
        if (K.tap_on || K.mutator) {
            TapSegment t{tx.from_pid, tx.to_pid, tx.from_port, tx.to_port, seg.data, K.now};
            if (K.mutator) { K.mutator(t); seg.data = t.bytes; }
            if (K.tap_on) K.tap.push_back(std::move(t));
        }
        if (tx.reader_gone) {
            // peer already closed but we do not know yet: bytes vanish
        } else {
            seg.at = std::max(tx.last_at, K.now + draw_latency());
            tx.last_at = seg.at;
            tx.bytes += seg.data.size();
            tx.q.push_back(std::move(seg));
        }
        K.stats.bytes_tx += n;
        total += n;
        hash_event(0x5e4d, static_cast<std::uint64_t>(s->fd), n);
        tracef("send fd %d -> %zu/%zu%s", s->fd, total, len, total < len && !nb ? " (waiting for space)" : "");
        if (total < len && !nb && getenv("VERIF_TRACE_STACKS")) {  // debugging aid for replays: who sends while the peer does not read
            void* pcs[48];
            const int k = backtrace(pcs, 48);
            backtrace_symbols_fd(pcs, k, 2);
        }
        if (nb || total >= len) return static_cast<long>(total);
    }
}

static long stream_recv(const std::shared_ptr<Sock>& s, void* buf, size_t len, int flags) {
    if (!s->rx || !s->connected) return fail(ENOTCONN);
    const std::int64_t dl = s->rcvtimeo > 0 ? K.now + s->rcvtimeo : INT64_MAX;
    for (;;) {
        if (s->closed) return fail(EBADF);
        Pipe& rx = *s->rx;
        const std::size_t avail = pipe_available(rx);
        if (avail > 0 && len > 0 && !s->rd_shut) {
            std::size_t n = std::min(avail, len);
            if (n > 1 && K.rng.below(1024) < K.knobs.short_io_per_1024) {
                n = 1 + static_cast<std::size_t>(K.rng.below(n));
                ++K.stats.short_reads;
            }
            std::size_t done = 0;
            auto* out = static_cast<std::uint8_t*>(buf);
            while (done < n) {
                Seg& seg = rx.q.front();
                const std::size_t take = std::min(n - done, seg.data.size() - seg.off);
                memcpy(out + done, seg.data.data() + seg.off, take);
                done += take;
                if (!(flags & MSG_PEEK)) {
                    seg.off += take;
                    if (seg.off == seg.data.size()) rx.q.pop_front();
                } else {
                    break;  // PEEK: single segment only (good enough)
                }
            }
            if (!(flags & MSG_PEEK)) rx.bytes -= done;
            hash_event(0x4ecf, static_cast<std::uint64_t>(s->fd), done);
            tracef("recv fd %d -> %zu", s->fd, done);
            return static_cast<long>(done);
        }
        if (s->rd_shut) return 0;
        if (pipe_rst_visible(rx)) {
            // data that had arrived before the reset was readable above; anything still in flight is lost
            while (!rx.q.empty() && rx.q.back().at > K.now) { rx.bytes -= rx.q.back().data.size() - rx.q.back().off; rx.q.pop_back(); }
        }
        if (pipe_rst_visible(rx) && rx.bytes == 0) {
            if (!s->recv_rst_reported) { s->recv_rst_reported = true; ++K.stats.resets; tracef("recv fd %d -> ECONNRESET", s->fd); return fail(ECONNRESET); }
            return 0;
        }
        if (pipe_eof_visible(rx)) { tracef("recv fd %d -> EOF", s->fd); return 0; }
        if (len == 0) return 0;
        if (s->nonblock || (flags & MSG_DONTWAIT)) { ++K.stats.eagain; return fail(EAGAIN); }
        if (K.now >= dl) { ++K.stats.rcv_timeouts; tracef("recv fd %d -> timeout", s->fd); return fail(EAGAIN); }
        auto sp = s;
        block([sp] { return stream_readable(*sp); }, std::min(dl, stream_next_time(*s)));
    }
}

// ---------------------------------------------------------------- UDP
static long udp_send(const std::shared_ptr<Sock>& s, const void* buf, size_t len, const Addr* to) {
    const Addr dst = to ? *to : s->peer;
    if (dst.family == 0) return fail(EDESTADDRREQ);
    if (!s->bound) {
        s->local.family = s->family;
        if (s->family == AF_INET) s->local.set_v4(host_of(s->pid));
        s->local.port = ephemeral_port(host_of(s->pid));
        s->bound = true;
    }
    std::vector<std::uint8_t> req(static_cast<const std::uint8_t*>(buf), static_cast<const std::uint8_t*>(buf) + len);
    hash_event(0xd64a, static_cast<std::uint64_t>(s->fd), len);
    auto it = K.udp_servers.find({dst.str(), dst.port});
    tracef("udp send fd %d -> %s:%u len %zu%s", s->fd, dst.str().c_str(), dst.port, len, it == K.udp_servers.end() ? " (no server)" : "");
    if (it == K.udp_servers.end()) return static_cast<long>(len);
    if (K.rng.below(1024) < K.udp.loss_per_1024) { ++K.stats.dgram_lost; return static_cast<long>(len); }
    const auto client = s->local.str() + ":" + std::to_string(s->local.port);
    auto responses = it->second(req, client);
    for (auto& [delay, bytes] : responses) {
        if (K.rng.below(1024) < K.udp.loss_per_1024) { ++K.stats.dgram_lost; continue; }
        Dgram d;
        d.data = bytes;
        d.at = K.now + draw_latency() * 2 + delay + K.udp.extra_delay_ns;
        d.from = dst;
        s->inbox.push_back(d);
        if (K.rng.below(1024) < K.udp.dup_per_1024) {
            ++K.stats.dgram_dup;
            d.at += draw_latency();
            s->inbox.push_back(d);
        }
    }
    std::stable_sort(s->inbox.begin(), s->inbox.end(), [](const Dgram& a, const Dgram& b) { return a.at < b.at; });
    return static_cast<long>(len);
}

static long udp_recv(const std::shared_ptr<Sock>& s, void* buf, size_t len, int flags, Addr* from) {
    const std::int64_t dl = s->rcvtimeo > 0 ? K.now + s->rcvtimeo : INT64_MAX;
    for (;;) {
        if (s->closed) return fail(EBADF);
        if (!s->inbox.empty() && s->inbox.front().at <= K.now) {
            Dgram d = std::move(s->inbox.front());
            s->inbox.pop_front();
            const std::size_t n = std::min(len, d.data.size());
            memcpy(buf, d.data.data(), n);
            if (from) *from = d.from;
            ++K.stats.dgram_delivered;
            // poison the unused tail of the caller's buffer until this fiber's next kernel call
            if (__asan_poison_memory_region && n < len && K.cur) {
                unpoison_fiber(K.cur);
                K.cur->poisoned = static_cast<std::uint8_t*>(buf) + n;
                K.cur->poisoned_len = len - n;
                __asan_poison_memory_region(K.cur->poisoned, K.cur->poisoned_len);
            }
            hash_event(0xd64b, static_cast<std::uint64_t>(s->fd), n);
            tracef("udp recv fd %d -> %zu", s->fd, n);
            return static_cast<long>(n);
        }
        if (s->nonblock || (flags & MSG_DONTWAIT)) return fail(EAGAIN);
        if (K.now >= dl) { ++K.stats.rcv_timeouts; tracef("udp recv fd %d -> timeout", s->fd); return fail(EAGAIN); }
        auto sp = s;
        const std::int64_t next = s->inbox.empty() ? INT64_MAX : s->inbox.front().at;
        block([sp] { return sp->closed || (!sp->inbox.empty() && sp->inbox.front().at <= K.now); }, std::min(dl, next));
    }
}

// ---------------------------------------------------------------- epoll readiness
static std::uint32_t ready_mask(const Sock& s) {
    std::uint32_t m = 0;
    switch (s.kind) {
        case Sock::Listen:
            if (!s.backlog.empty() || s.listen_shut) m |= EPOLLIN;
            break;
        case Sock::Stream: {
            if (stream_readable(s)) m |= EPOLLIN;
            if (stream_writable(s)) m |= EPOLLOUT;
            const bool rst = (s.rx && pipe_rst_visible(*s.rx)) || (s.tx && pipe_rst_visible(*s.tx));
            if (rst) m |= EPOLLERR | EPOLLHUP;
            const bool peer_fin = s.rx && s.rx->fin && s.rx->fin_at <= K.now;
            if (peer_fin) m |= EPOLLRDHUP;
            if (peer_fin && (s.wr_shut || (s.tx && s.tx->fin))) m |= EPOLLHUP;
            break;
        }
        case Sock::Udp:
            if (!s.inbox.empty() && s.inbox.front().at <= K.now) m |= EPOLLIN;
            m |= EPOLLOUT;
            break;
        case Sock::Event:
            if (s.counter > 0) m |= EPOLLIN;
            m |= EPOLLOUT;
            break;
        default:
            break;
    }
    return m;
}
static std::int64_t sock_next_time(const Sock& s) {
    if (s.kind == Sock::Stream) return stream_next_time(s);
    if (s.kind == Sock::Udp && !s.inbox.empty() && s.inbox.front().at > K.now) return s.inbox.front().at;
    return INT64_MAX;
}

std::int64_t net_next_event_time() {
    std::int64_t t = INT64_MAX;
    for (auto& f : K.fds) {
        if (!f) continue;
        t = std::min(t, sock_next_time(*f));
        for (auto& pending : f->backlog) t = std::min(t, sock_next_time(*pending));
    }
    return t;
}

}  // namespace sk::detail

namespace sk {
using namespace detail;

void partition(std::uint32_t a, std::uint32_t b, bool blocked) {
    auto key = std::make_pair(std::min(a, b), std::max(a, b));
    if (blocked) K.partitions.insert(key); else K.partitions.erase(key);
}
void set_host_unreachable_fast(bool fast) { K.unreachable_fast = fast; }
void dns_set(const std::string& name, const std::vector<std::string>& addrs) { K.dns[name] = addrs; }
void dns_clear() { K.dns.clear(); }
void fault_accept_once(int pid, int err) { proc(pid).pending_accept_err = err; }
void fault_socket_once(int pid, int err) { proc(pid).pending_socket_err = err; }
bool fault_reset_stream(int pid, int nth) {
    int i = 0;
    for (auto& f : K.fds) {
        if (f && f->pid == pid && f->kind == Sock::Stream && f->connected && !f->closed) {
            if (i++ == nth) {
                reset_connection(f->rx, f->tx, K.now);
                ++K.stats.resets;
                tracef("fault: reset stream fd %d of pid %d", f->fd, pid);
                return true;
            }
        }
    }
    return false;
}
int count_fds(int pid) {
    int n = 0;
    for (auto& f : K.fds) if (f && f->pid == pid) ++n;
    return n;
}
std::vector<int> fds_of(int pid) {
    std::vector<int> v;
    for (auto& f : K.fds) if (f && f->pid == pid) v.push_back(f->fd);
    return v;
}
std::string fd_describe(int fd) {
    auto s = sock_of(fd);
    if (!s) return "none";
    static const char* kinds[] = {"fresh", "listen", "stream", "udp", "epoll", "eventfd"};
    return std::string(kinds[s->kind]) + " " + s->local.str() + ":" + std::to_string(s->local.port) + "->" + s->peer.str() + ":" + std::to_string(s->peer.port);
}
void tap_enable(bool on) { K.tap_on = on; }
std::vector<TapSegment>& tap() { return K.tap; }
void set_inflight_mutator(std::function<void(TapSegment&)> fn) { K.mutator = std::move(fn); }
void set_udp_knobs(const UdpKnobs& k) { K.udp = k; }
void udp_serve(const std::string& addr, std::uint16_t port,
               std::function<std::vector<std::pair<std::int64_t, std::vector<std::uint8_t>>>(const std::vector<std::uint8_t>&, const std::string&)> handler) {
    K.udp_servers[{addr, port}] = std::move(handler);
}
}  // namespace sk

// ====================================================================== interposed libc
using namespace sk;
using namespace sk::detail;

#define REAL(name) \
    static auto real_fn = reinterpret_cast<decltype(&::name)>(dlsym(RTLD_NEXT, #name))

extern "C" {

int socket(int domain, int type, int protocol) {
    KernelQuiet kq__;
    if (!sim()) { REAL(socket); return real_fn(domain, type, protocol); }
    preempt_point();
    Proc& p = cur_proc();
    if (p.pending_socket_err) { const int e = p.pending_socket_err; p.pending_socket_err = 0; return fail(e); }
    const int base = type & 0xf;
    if ((domain != AF_INET && domain != AF_INET6) || (base != SOCK_STREAM && base != SOCK_DGRAM)) return fail(EAFNOSUPPORT);
    auto s = std::make_shared<Sock>();
    s->pid = K.cur->pid;
    s->family = domain;
    s->type = base;
    s->kind = base == SOCK_DGRAM ? Sock::Udp : Sock::Fresh;
    s->nonblock = (type & SOCK_NONBLOCK) != 0;
    const int fd = alloc_fd(s);
    if (fd < 0) return fail(EMFILE);
    tracef("socket -> fd %d (%s)", fd, base == SOCK_DGRAM ? "udp" : "tcp");
    return fd;
}

int bind(int fd, const struct sockaddr* addr, socklen_t len) {
    KernelQuiet kq__;
    auto s = sock_of(fd);
    if (!s) { if (sim() && is_sim_fd(fd)) return fail(EBADF); REAL(bind); return real_fn(fd, addr, len); }
    Addr a;
    if (!addr_from_sockaddr(addr, len, a)) return fail(EINVAL);
    const auto host = host_of(s->pid);
    if (a.port == 0) a.port = ephemeral_port(host);
    else if (s->type == SOCK_STREAM && K.listeners.count({host, a.port})) return fail(EADDRINUSE);
    s->local = a;
    s->bound = true;
    tracef("bind fd %d port %u", fd, a.port);
    return 0;
}

int listen(int fd, int backlog) {
    KernelQuiet kq__;
    auto s = sock_of(fd);
    if (!s) { if (sim() && is_sim_fd(fd)) return fail(EBADF); REAL(listen); return real_fn(fd, backlog); }
    const auto host = host_of(s->pid);
    if (!s->bound) { s->local.set_v4(0); s->local.port = ephemeral_port(host); s->bound = true; }
    if (K.listeners.count({host, s->local.port})) return fail(EADDRINUSE);
    s->kind = Sock::Listen;
    K.listeners[{host, s->local.port}] = s;
    tracef("listen fd %d port %u", fd, s->local.port);
    return 0;
}

static int do_accept(int fd, struct sockaddr* addr, socklen_t* len, int flags) {
    auto s = sock_of(fd);
    if (!s) return fail(EBADF);
    if (s->kind != Sock::Listen) return fail(EINVAL);
    preempt_point();
    Proc& p = proc(s->pid);
    for (;;) {
        if (s->closed) return fail(EBADF);
        if (s->listen_shut) return fail(EINVAL);
        if (p.pending_accept_err) {
            const int e = p.pending_accept_err;
            p.pending_accept_err = 0;
            ++K.stats.accept_faults;
            tracef("accept fd %d -> injected errno %d", fd, e);
            return fail(e);
        }
        if (!s->backlog.empty()) {
            auto c = s->backlog.front();
            s->backlog.pop_front();
            c->pid = s->pid;
            c->nonblock = (flags & SOCK_NONBLOCK) != 0;
            const int nfd = alloc_fd(c);
            if (nfd < 0) { close_stream_endpoint(*c, true); return fail(EMFILE); }
            if (addr && len) addr_to_sockaddr(c->peer, addr, len);
            hash_event(0xacc, static_cast<std::uint64_t>(nfd), c->peer.port);
            tracef("accept fd %d -> fd %d from %s:%u", fd, nfd, c->peer.str().c_str(), c->peer.port);
            return nfd;
        }
        if (s->nonblock) return fail(EAGAIN);
        auto sp = s;
        Proc* pp = &p;
        block([sp, pp] { return sp->closed || sp->listen_shut || !sp->backlog.empty() || pp->pending_accept_err != 0; }, INT64_MAX);
    }
}

int accept(int fd, struct sockaddr* addr, socklen_t* len) {
    KernelQuiet kq__;
    if (!sim() || !is_sim_fd(fd)) { if (sim()) return fail(EBADF); REAL(accept); return real_fn(fd, addr, len); }
    return do_accept(fd, addr, len, 0);
}
int accept4(int fd, struct sockaddr* addr, socklen_t* len, int flags) {
    KernelQuiet kq__;
    if (!sim() || !is_sim_fd(fd)) { if (sim()) return fail(EBADF); REAL(accept4); return real_fn(fd, addr, len, flags); }
    return do_accept(fd, addr, len, flags);
}

int connect(int fd, const struct sockaddr* addr, socklen_t len) {
    KernelQuiet kq__;
    auto s = sock_of(fd);
    if (!s) { if (sim()) return fail(EBADF); REAL(connect); return real_fn(fd, addr, len); }
    Addr dst;
    if (!addr_from_sockaddr(addr, len, dst)) return fail(EINVAL);
    preempt_point();
    const auto my_host = host_of(s->pid);
    if (s->kind == Sock::Udp) {
        s->peer = dst;
        s->connected = true;
        if (!s->bound) {
            s->local.family = s->family;
            if (s->family == AF_INET) s->local.set_v4(my_host);
            s->local.port = ephemeral_port(my_host);
            s->bound = true;
        }
        tracef("udp connect fd %d -> %s:%u", fd, dst.str().c_str(), dst.port);
        return 0;
    }
    if (s->kind != Sock::Fresh) return fail(EISCONN);
    if (dst.family != AF_INET) return fail(EAFNOSUPPORT);
    std::uint32_t dhost = dst.v4();
    if ((dhost >> 24) == 127 || dhost == 0) dhost = my_host;
    if (partitioned(my_host, dhost)) {
        ++K.stats.refused;
        if (K.unreachable_fast) return fail(EHOSTUNREACH);
        sleep_ns(static_cast<std::int64_t>(K.knobs.connect_timeout_ms) * 1000000LL);
        return fail(ETIMEDOUT);
    }
    const std::int64_t rtt = draw_latency() + draw_latency();
    if (rtt > 0) sleep_ns(rtt);
    if (s->closed) return fail(EBADF);
    auto it = K.listeners.find({dhost, dst.port});
    if (it == K.listeners.end() || it->second->closed || it->second->listen_shut) {
        ++K.stats.refused;
        tracef("connect fd %d -> %s:%u refused", fd, dst.str().c_str(), dst.port);
        return fail(ECONNREFUSED);
    }
    auto l = it->second;
    if (!s->bound) { s->local.set_v4(my_host); s->local.port = ephemeral_port(my_host); s->bound = true; }
    if (s->local.v4() == 0) s->local.set_v4(my_host);
    auto c = std::make_shared<Sock>();
    c->kind = Sock::Stream;
    c->pid = l->pid;
    c->family = AF_INET;
    c->connected = true;
    c->bound = true;
    c->local.set_v4(dhost);
    c->local.port = dst.port;
    c->peer = s->local;
    // as seen by the server, a loopback client shows up as 127.0.0.1
    if (dhost == my_host && ((dst.v4() >> 24) == 127)) c->peer.set_v4(sk::ip(127, 0, 0, 1)), c->peer.port = s->local.port;
    auto ab = std::make_shared<Pipe>();  // client -> server
    auto ba = std::make_shared<Pipe>();  // server -> client
    ab->cap = draw_cap();
    ba->cap = draw_cap();
    ab->from_pid = s->pid; ab->to_pid = l->pid; ab->from_port = s->local.port; ab->to_port = dst.port;
    ba->from_pid = l->pid; ba->to_pid = s->pid; ba->from_port = dst.port; ba->to_port = s->local.port;
    s->tx = ab; s->rx = ba;
    c->rx = ab; c->tx = ba;
    s->kind = Sock::Stream;
    s->connected = true;
    s->peer = dst;
    l->backlog.push_back(c);
    ++K.stats.conn_established;
    hash_event(0xc044, static_cast<std::uint64_t>(fd), dst.port);
    tracef("connect fd %d -> %s:%u ok (caps %zu/%zu)", fd, dst.str().c_str(), dst.port, ab->cap, ba->cap);
    return 0;
}

ssize_t send(int fd, const void* buf, size_t len, int flags) {
    KernelQuiet kq__;
    auto s = sock_of(fd);
    if (!s) { if (sim() && is_sim_fd(fd)) return fail(EBADF); REAL(send); return real_fn(fd, buf, len, flags); }
    preempt_point();
    if (s->kind == Sock::Udp) return udp_send(s, buf, len, nullptr);
    if (s->kind != Sock::Stream) return fail(ENOTCONN);
    return stream_send(s, buf, len, flags);
}

ssize_t recv(int fd, void* buf, size_t len, int flags) {
    KernelQuiet kq__;
    auto s = sock_of(fd);
    if (!s) { if (sim() && is_sim_fd(fd)) return fail(EBADF); REAL(recv); return real_fn(fd, buf, len, flags); }
    preempt_point();
    if (s->kind == Sock::Udp) return udp_recv(s, buf, len, flags, nullptr);
    if (s->kind != Sock::Stream) return fail(ENOTCONN);
    return stream_recv(s, buf, len, flags);
}

ssize_t sendto(int fd, const void* buf, size_t len, int flags, const struct sockaddr* to, socklen_t tolen) {
    KernelQuiet kq__;
    auto s = sock_of(fd);
    if (!s) { if (sim() && is_sim_fd(fd)) return fail(EBADF); REAL(sendto); return real_fn(fd, buf, len, flags, to, tolen); }
    preempt_point();
    if (s->kind == Sock::Udp) {
        Addr a;
        if (to && addr_from_sockaddr(to, tolen, a)) return udp_send(s, buf, len, &a);
        return udp_send(s, buf, len, nullptr);
    }
    if (s->kind != Sock::Stream) return fail(ENOTCONN);
    return stream_send(s, buf, len, flags);
}

ssize_t recvfrom(int fd, void* buf, size_t len, int flags, struct sockaddr* from, socklen_t* fromlen) {
    KernelQuiet kq__;
    auto s = sock_of(fd);
    if (!s) { if (sim() && is_sim_fd(fd)) return fail(EBADF); REAL(recvfrom); return real_fn(fd, buf, len, flags, from, fromlen); }
    preempt_point();
    if (s->kind == Sock::Udp) {
        Addr a;
        const long n = udp_recv(s, buf, len, flags, &a);
        if (n >= 0 && from && fromlen) addr_to_sockaddr(a, from, fromlen);
        return n;
    }
    if (s->kind != Sock::Stream) return fail(ENOTCONN);
    return stream_recv(s, buf, len, flags);
}

int shutdown(int fd, int how) {
    KernelQuiet kq__;
    auto s = sock_of(fd);
    if (!s) { if (sim() && is_sim_fd(fd)) return fail(EBADF); REAL(shutdown); return real_fn(fd, how); }
    tracef("shutdown fd %d how %d", fd, how);
    if (s->kind == Sock::Listen) { s->listen_shut = true; return 0; }
    if (s->kind != Sock::Stream) return fail(ENOTCONN);
    if (how == SHUT_RD || how == SHUT_RDWR) s->rd_shut = true;
    if (how == SHUT_WR || how == SHUT_RDWR) {
        if (!s->wr_shut && s->tx && !s->tx->fin) {
            s->tx->fin = true;
            s->tx->fin_at = std::max(s->tx->last_at, K.now + draw_latency());
        }
        s->wr_shut = true;
    }
    preempt_point();
    return 0;
}

int close(int fd) {
    KernelQuiet kq__;
    if (is_sim_fd(fd) && K.active) {
        auto s = sock_of(fd);
        if (!s) return fail(EBADF);
        close_sock(s, false);
        if (sim()) preempt_point();
        return 0;
    }
    if (K.active) K.file_fds.erase(fd);
    return static_cast<int>(syscall(SYS_close, fd));
}

int setsockopt(int fd, int level, int name, const void* val, socklen_t len) {
    KernelQuiet kq__;
    auto s = sock_of(fd);
    if (!s) { if (sim() && is_sim_fd(fd)) return fail(EBADF); REAL(setsockopt); return real_fn(fd, level, name, val, len); }
    if (level == SOL_SOCKET && (name == SO_RCVTIMEO || name == SO_SNDTIMEO) && val && len >= sizeof(timeval)) {
        const auto* tv = static_cast<const timeval*>(val);
        const std::int64_t ns = static_cast<std::int64_t>(tv->tv_sec) * 1000000000LL + static_cast<std::int64_t>(tv->tv_usec) * 1000LL;
        (name == SO_RCVTIMEO ? s->rcvtimeo : s->sndtimeo) = ns;
    }
    return 0;
}
int getsockopt(int fd, int level, int name, void* val, socklen_t* len) {
    KernelQuiet kq__;
    auto s = sock_of(fd);
    if (!s) { if (sim() && is_sim_fd(fd)) return fail(EBADF); REAL(getsockopt); return real_fn(fd, level, name, val, len); }
    if (val && len && *len >= sizeof(int)) { *static_cast<int*>(val) = 0; *len = sizeof(int); }
    return 0;
}
int getsockname(int fd, struct sockaddr* addr, socklen_t* len) {
    KernelQuiet kq__;
    auto s = sock_of(fd);
    if (!s) { if (sim() && is_sim_fd(fd)) return fail(EBADF); REAL(getsockname); return real_fn(fd, addr, len); }
    Addr a = s->local;
    if (a.family == 0) a.family = s->family;
    addr_to_sockaddr(a, addr, len);
    return 0;
}
int getpeername(int fd, struct sockaddr* addr, socklen_t* len) {
    KernelQuiet kq__;
    auto s = sock_of(fd);
    if (!s) { if (sim() && is_sim_fd(fd)) return fail(EBADF); REAL(getpeername); return real_fn(fd, addr, len); }
    if (!s->connected) return fail(ENOTCONN);
    addr_to_sockaddr(s->peer, addr, len);
    return 0;
}

int fcntl(int fd, int cmd, ...) {
    KernelQuiet kq__;
    va_list ap;
    va_start(ap, cmd);
    const long arg = va_arg(ap, long);
    va_end(ap);
    auto s = sock_of(fd);
    if (!s) {
        if (sim() && is_sim_fd(fd)) return fail(EBADF);
        return static_cast<int>(syscall(SYS_fcntl, fd, cmd, arg));
    }
    switch (cmd) {
        case F_GETFL: return O_RDWR | (s->nonblock ? O_NONBLOCK : 0);
        case F_SETFL: s->nonblock = (arg & O_NONBLOCK) != 0; return 0;
        case F_GETFD: return FD_CLOEXEC;
        case F_SETFD: return 0;
        default: return 0;
    }
}
int fcntl64(int fd, int cmd, ...) {
    KernelQuiet kq__;
    va_list ap;
    va_start(ap, cmd);
    const long arg = va_arg(ap, long);
    va_end(ap);
    return fcntl(fd, cmd, arg);
}

// ---- epoll / eventfd
int epoll_create1(int flags) {
    KernelQuiet kq__;
    if (!sim()) { REAL(epoll_create1); return real_fn(flags); }
    auto s = std::make_shared<Sock>();
    s->kind = Sock::Epoll;
    s->pid = K.cur->pid;
    const int fd = alloc_fd(s);
    return fd < 0 ? fail(EMFILE) : fd;
}
int epoll_create(int) { return epoll_create1(0); }

int epoll_ctl(int epfd, int op, int fd, struct epoll_event* ev) {
    KernelQuiet kq__;
    auto e = sock_of(epfd);
    if (!e) { if (sim() && is_sim_fd(epfd)) return fail(EBADF); REAL(epoll_ctl); return real_fn(epfd, op, fd, ev); }
    if (e->kind != Sock::Epoll) return fail(EINVAL);
    auto t = sock_of(fd);
    if (!t) return fail(EBADF);
    switch (op) {
        case EPOLL_CTL_ADD:
            if (e->interest.count(fd)) return fail(EEXIST);
            e->interest[fd] = {ev->events, ev->data.u64};
            return 0;
        case EPOLL_CTL_MOD:
            if (!e->interest.count(fd)) return fail(ENOENT);
            e->interest[fd] = {ev->events, ev->data.u64};
            return 0;
        case EPOLL_CTL_DEL:
            if (!e->interest.erase(fd)) return fail(ENOENT);
            return 0;
        default: return fail(EINVAL);
    }
}

int epoll_wait(int epfd, struct epoll_event* events, int maxevents, int timeout) {
    KernelQuiet kq__;
    auto e = sock_of(epfd);
    if (!e) { if (sim() && is_sim_fd(epfd)) return fail(EBADF); REAL(epoll_wait); return real_fn(epfd, events, maxevents, timeout); }
    if (e->kind != Sock::Epoll || maxevents <= 0) return fail(EINVAL);
    preempt_point();
    const std::int64_t dl = timeout < 0 ? INT64_MAX : K.now + static_cast<std::int64_t>(timeout) * 1000000LL;
    for (;;) {
        if (e->closed) return fail(EBADF);
        std::vector<std::pair<int, std::uint32_t>> ready;
        std::int64_t next = INT64_MAX;
        for (auto& [fd, reg] : e->interest) {
            auto t = sock_of(fd);
            if (!t) continue;
            const std::uint32_t m = ready_mask(*t) & (reg.first | EPOLLERR | EPOLLHUP);
            if (m) ready.push_back({fd, m});
            next = std::min(next, sock_next_time(*t));
        }
        if (!ready.empty()) {
            // seeded order of the ready list
            for (std::size_t i = ready.size(); i > 1; --i) std::swap(ready[i - 1], ready[K.rng.below(i)]);
            int n = 0;
            for (auto& [fd, m] : ready) {
                if (n >= maxevents) break;
                events[n].events = m;
                events[n].data.u64 = e->interest[fd].second;
                ++n;
            }
            hash_event(0xe9011, static_cast<std::uint64_t>(n), static_cast<std::uint64_t>(ready.front().first));
            return n;
        }
        if (timeout == 0 || K.now >= dl) return 0;
        auto ep = e;
        block([ep] {
            if (ep->closed) return true;
            for (auto& [fd, reg] : ep->interest) {
                auto t = sock_of(fd);
                if (t && (ready_mask(*t) & (reg.first | EPOLLERR | EPOLLHUP))) return true;
            }
            return false;
        }, std::min(dl, next));
    }
}
int epoll_pwait(int epfd, struct epoll_event* events, int maxevents, int timeout, const sigset_t*) {
    KernelQuiet kq__;
    return epoll_wait(epfd, events, maxevents, timeout);
}

int eventfd(unsigned int initval, int flags) {
    KernelQuiet kq__;
    if (!sim()) { REAL(eventfd); return real_fn(initval, flags); }
    auto s = std::make_shared<Sock>();
    s->kind = Sock::Event;
    s->pid = K.cur->pid;
    s->counter = initval;
    s->nonblock = (flags & EFD_NONBLOCK) != 0;
    s->semaphore = (flags & EFD_SEMAPHORE) != 0;
    const int fd = alloc_fd(s);
    return fd < 0 ? fail(EMFILE) : fd;
}

// read/write on simulated descriptors (eventfd, streams); real descriptors go to the file seam
ssize_t sk_fs_write(int fd, const void* buf, size_t len);
ssize_t sk_fs_read(int fd, void* buf, size_t len);

ssize_t read(int fd, void* buf, size_t len) {
    KernelQuiet kq__;
    auto s = sock_of(fd);
    if (!s) {
        if (sim() && is_sim_fd(fd)) return fail(EBADF);
        return sk_fs_read(fd, buf, len);
    }
    if (s->kind == Sock::Event) {
        preempt_point();
        if (len < 8) return fail(EINVAL);
        for (;;) {
            if (s->counter > 0) {
                const std::uint64_t v = s->semaphore ? 1 : s->counter;
                s->counter -= v;
                memcpy(buf, &v, 8);
                return 8;
            }
            if (s->nonblock) return fail(EAGAIN);
            auto sp = s;
            block([sp] { return sp->counter > 0 || sp->closed; }, INT64_MAX);
            if (s->closed) return fail(EBADF);
        }
    }
    return recv(fd, buf, len, 0);
}

ssize_t write(int fd, const void* buf, size_t len) {
    KernelQuiet kq__;
    auto s = sock_of(fd);
    if (!s) {
        if (sim() && is_sim_fd(fd)) return fail(EBADF);
        return sk_fs_write(fd, buf, len);
    }
    if (s->kind == Sock::Event) {
        if (len < 8) return fail(EINVAL);
        std::uint64_t v;
        memcpy(&v, buf, 8);
        s->counter += v;
        if (sim()) preempt_point();
        return 8;
    }
    return send(fd, buf, len, 0);
}

// ---- name resolution
struct SkAddrinfoBlock { addrinfo ai; sockaddr_storage ss; };
static std::set<addrinfo*>& my_addrinfos() { static std::set<addrinfo*> s; return s; }

int getaddrinfo(const char* node, const char* service, const struct addrinfo* hints, struct addrinfo** res) {
    KernelQuiet kq__;
    if (!sim()) { REAL(getaddrinfo); return real_fn(node, service, hints, res); }
    preempt_point();
    std::vector<std::string> addrs;
    const std::string name = node ? node : "";
    in_addr a4;
    in6_addr a6;
    if (name.empty() || name == "localhost") addrs = {"127.0.0.1"};
    else if (inet_pton(AF_INET, name.c_str(), &a4) == 1 || inet_pton(AF_INET6, name.c_str(), &a6) == 1) addrs = {name};
    else {
        auto it = K.dns.find(name);
        if (it == K.dns.end()) { tracef("getaddrinfo %s -> EAI_NONAME", name.c_str()); return EAI_NONAME; }
        addrs = it->second;
    }
    const int want_family = hints ? hints->ai_family : AF_UNSPEC;
    int port = 0;
    if (service) port = atoi(service);
    addrinfo* head = nullptr;
    addrinfo** tail = &head;
    for (const auto& text : addrs) {
        int fam = 0;
        if (inet_pton(AF_INET, text.c_str(), &a4) == 1) fam = AF_INET;
        else if (inet_pton(AF_INET6, text.c_str(), &a6) == 1) fam = AF_INET6;
        else continue;
        if (want_family != AF_UNSPEC && want_family != fam) continue;
        auto* blk = static_cast<SkAddrinfoBlock*>(calloc(1, sizeof(SkAddrinfoBlock)));
        blk->ai.ai_family = fam;
        blk->ai.ai_socktype = hints && hints->ai_socktype ? hints->ai_socktype : SOCK_STREAM;
        blk->ai.ai_protocol = hints ? hints->ai_protocol : 0;
        if (fam == AF_INET) {
            auto* sin = reinterpret_cast<sockaddr_in*>(&blk->ss);
            sin->sin_family = AF_INET;
            sin->sin_addr = a4;
            sin->sin_port = htons(static_cast<std::uint16_t>(port));
            blk->ai.ai_addrlen = sizeof(sockaddr_in);
        } else {
            auto* sin6 = reinterpret_cast<sockaddr_in6*>(&blk->ss);
            sin6->sin6_family = AF_INET6;
            sin6->sin6_addr = a6;
            sin6->sin6_port = htons(static_cast<std::uint16_t>(port));
            blk->ai.ai_addrlen = sizeof(sockaddr_in6);
        }
        blk->ai.ai_addr = reinterpret_cast<sockaddr*>(&blk->ss);
        *tail = &blk->ai;
        tail = &blk->ai.ai_next;
        my_addrinfos().insert(&blk->ai);
    }
    if (!head) return EAI_NONAME;
    *res = head;
    return 0;
}

void freeaddrinfo(struct addrinfo* ai) {
    KernelQuiet kq__;
    if (ai && my_addrinfos().count(ai)) {
        while (ai) {
            addrinfo* next = ai->ai_next;
            my_addrinfos().erase(ai);
            free(ai);  // SkAddrinfoBlock starts with the addrinfo
            ai = next;
        }
        return;
    }
    REAL(freeaddrinfo);
    real_fn(ai);
}

}  // extern "C"
