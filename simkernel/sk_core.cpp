// simkernel core: fibers, scheduler, processes, clock, sleeps, mutexes, pthread
// interposition, entropy. Compiled WITHOUT sanitizer instrumentation in every variant.
#include "sk_internal.hpp"

#include <dlfcn.h>
#include <errno.h>
#include <ftw.h>
#include <pthread.h>
#include <signal.h>
#include <stdarg.h>
#include <stdio.h>
#include <stdlib.h>
#include <string.h>
#include <sys/mman.h>
#include <sys/stat.h>
#include <sys/syscall.h>
#include <sys/time.h>
#include <time.h>
#include <unistd.h>

#include <algorithm>
#include <chrono>
#include <exception>
#include <random>
#include <stdexcept>
#include <typeinfo>

extern "C" {
void __sanitizer_start_switch_fiber(void**, const void*, size_t) __attribute__((weak));
void __sanitizer_finish_switch_fiber(void*, const void**, size_t*) __attribute__((weak));
void __asan_unpoison_memory_region(void const volatile*, size_t) __attribute__((weak));
void* __tsan_get_current_fiber(void) __attribute__((weak));
void* __tsan_create_fiber(unsigned) __attribute__((weak));
void __tsan_destroy_fiber(void*) __attribute__((weak));
void __tsan_switch_to_fiber(void*, unsigned) __attribute__((weak));
void __tsan_acquire(void*) __attribute__((weak));
void __tsan_release(void*) __attribute__((weak));
void AnnotateIgnoreReadsBegin(const char*, int) __attribute__((weak));
void AnnotateIgnoreReadsEnd(const char*, int) __attribute__((weak));
void AnnotateIgnoreWritesBegin(const char*, int) __attribute__((weak));
void AnnotateIgnoreWritesEnd(const char*, int) __attribute__((weak));
void* __cxa_get_globals(void);
extern char __libc_single_threaded;
}

namespace sk {

// ------------------------------------------------------------------ PRNG
static inline std::uint64_t rotl(std::uint64_t x, int k) { return (x << k) | (x >> (64 - k)); }
static std::uint64_t splitmix(std::uint64_t& x) {
    std::uint64_t z = (x += 0x9e3779b97f4a7c15ULL);
    z = (z ^ (z >> 30)) * 0xbf58476d1ce4e5b9ULL;
    z = (z ^ (z >> 27)) * 0x94d049bb133111ebULL;
    return z ^ (z >> 31);
}
void Rng::reseed(std::uint64_t seed) {
    std::uint64_t x = seed;
    for (auto& v : s) v = splitmix(x);
}
std::uint64_t Rng::next() {
    const std::uint64_t result = rotl(s[1] * 5, 7) * 9;
    const std::uint64_t t = s[1] << 17;
    s[2] ^= s[0]; s[3] ^= s[1]; s[1] ^= s[2]; s[0] ^= s[3];
    s[2] ^= t; s[3] = rotl(s[3], 45);
    return result;
}
std::uint64_t mix64(std::uint64_t a, std::uint64_t b) {
    std::uint64_t x = a ^ (b + 0x9e3779b97f4a7c15ULL + (a << 6) + (a >> 2));
    x ^= x >> 33; x *= 0xff51afd7ed558ccdULL; x ^= x >> 33; x *= 0xc4ceb9fe1a85ec53ULL; x ^= x >> 33;
    return x;
}

namespace detail {

Kernel K;
void heartbeat_tick();

Proc& proc(int pid) { return *K.procs.at(static_cast<std::size_t>(pid)); }
Proc& cur_proc() { return proc(K.cur ? K.cur->pid : 0); }

void hash_event(std::uint64_t a, std::uint64_t b, std::uint64_t c) {
    K.stats.log_hash = mix64(mix64(mix64(K.stats.log_hash, a), b), c);
}

void tracef(const char* fmt, ...) {
    if (!K.knobs.trace) return;
    char buf[512];
    va_list ap;
    va_start(ap, fmt);
    vsnprintf(buf, sizeof buf, fmt, ap);
    va_end(ap);
    char line[640];
    snprintf(line, sizeof line, "[%llu t=%.6f p%d f%d %s] %s", (unsigned long long)K.stats.steps, K.now / 1e9,
             K.cur ? K.cur->pid : -1, K.cur ? K.cur->id : -1, K.cur ? K.cur->name.c_str() : "root", buf);
    K.trace.emplace_back(line);
    if (K.trace.size() > 40000) K.trace.pop_front();
}

void unpoison_fiber(Fiber* f) {
    if (f && f->poisoned) {
        if (__asan_unpoison_memory_region) __asan_unpoison_memory_region(f->poisoned, f->poisoned_len);
        f->poisoned = nullptr;
        f->poisoned_len = 0;
    }
}

// ------------------------------------------------------------------ stack pool
// Stacks are recycled across fibers and runs: fresh mmaps cost page faults on every run.
static std::vector<std::pair<void*, std::size_t>> g_stack_pool;
static void* stack_get(std::size_t bytes) {
    for (std::size_t i = 0; i < g_stack_pool.size(); ++i) {
        if (g_stack_pool[i].second == bytes) {
            void* p = g_stack_pool[i].first;
            g_stack_pool[i] = g_stack_pool.back();
            g_stack_pool.pop_back();
            return p;
        }
    }
    void* p = mmap(nullptr, bytes, PROT_READ | PROT_WRITE, MAP_PRIVATE | MAP_ANONYMOUS | MAP_NORESERVE | MAP_STACK, -1, 0);
    if (p == MAP_FAILED) { fprintf(stderr, "simkernel: mmap stack failed\n"); abort(); }
    return p;
}
static void stack_put(void* p, std::size_t bytes) {
    // an abandoned fiber leaves poisoned redzones behind: clear them before reuse
    if (__asan_unpoison_memory_region) __asan_unpoison_memory_region(p, bytes);
    // Under ThreadSanitizer a recycled stack would carry the previous fiber's access history and every reuse
    // would look like a race; unmapping makes the runtime forget the range (its mmap/munmap interceptors reset it).
    if (__tsan_create_fiber) { munmap(p, bytes); return; }
    if (g_stack_pool.size() < 64) g_stack_pool.emplace_back(p, bytes);
    else munmap(p, bytes);
}

// ------------------------------------------------------------------ context switching
static void save_eh(EhGlobals& e) { memcpy(&e, __cxa_get_globals(), sizeof e); }
static void load_eh(const EhGlobals& e) { memcpy(__cxa_get_globals(), &e, sizeof e); }

static void tsan_quiet_begin() { if (AnnotateIgnoreReadsBegin) { AnnotateIgnoreReadsBegin(__FILE__, __LINE__); AnnotateIgnoreWritesBegin(__FILE__, __LINE__); } }
static void tsan_quiet_end() { if (AnnotateIgnoreReadsEnd) { AnnotateIgnoreWritesEnd(__FILE__, __LINE__); AnnotateIgnoreReadsEnd(__FILE__, __LINE__); } }
KernelQuiet::KernelQuiet() { if (K.cur && K.cur->quiet++ == 0) tsan_quiet_begin(); }
KernelQuiet::~KernelQuiet() { if (K.cur && --K.cur->quiet == 0) tsan_quiet_end(); }

static void reap_zombies() {
    KernelQuiet kq__;
    for (auto it = K.fibers.begin(); it != K.fibers.end();) {
        Fiber* f = it->get();
        if (f->st == Fiber::Done && f != K.cur && f->stack != nullptr && f->detached) {
            stack_put(f->stack, f->stack_size);
            f->stack = nullptr;
            if (f->tsan_fiber && __tsan_destroy_fiber) __tsan_destroy_fiber(f->tsan_fiber);
            it = K.fibers.erase(it);
        } else {
            ++it;
        }
    }
}

static void switch_to(Fiber* next) {
    Fiber* prev = K.cur;
    ++K.stats.switches;
    if (prev->quiet > 0) tsan_quiet_end();
    save_eh(prev->eh);
    if (__sanitizer_start_switch_fiber)
        __sanitizer_start_switch_fiber(prev->st == Fiber::Done ? nullptr : &prev->asan_fake, next->stack, next->stack_size);
    if (__tsan_switch_to_fiber && next->tsan_fiber) __tsan_switch_to_fiber(next->tsan_fiber, 1u);
    K.cur = next;
    load_eh(next->eh);
    swapcontext(&prev->ctx, &next->ctx);
    // resumed
    if (__sanitizer_finish_switch_fiber) __sanitizer_finish_switch_fiber(prev->asan_fake, nullptr, nullptr);
    if (prev->quiet > 0) tsan_quiet_begin();
}

[[noreturn]] static void switch_to_root() {
    Fiber* prev = K.cur;
    if (prev && prev->quiet > 0) tsan_quiet_end();
    if (prev) save_eh(prev->eh);
    if (__sanitizer_start_switch_fiber)
        __sanitizer_start_switch_fiber(prev && prev->st != Fiber::Done ? &prev->asan_fake : nullptr, K.root_stack_bottom,
                                       K.root_stack_size);
    if (__tsan_switch_to_fiber && K.root_tsan) __tsan_switch_to_fiber(K.root_tsan, 1u);
    K.cur = nullptr;
    load_eh(K.root_eh);
    setcontext(&K.root_ctx);
    abort();
}

// who waits for what: written into the trace when a run ends in a livelock, so a replay shows the cycle
void trace_waiters() {
    for (auto& up : K.fibers) {
        if (up->st != Fiber::Blocked) continue;
        if (up->deadline == INT64_MAX) tracef("  blocked without deadline: p%d f%d %s", up->pid, up->id, up->name.c_str());
    }
    for (auto& [addr, st] : K.mutexes) {
        if (st.owner == 0) continue;
        for (auto& up : K.fibers)
            if (up->id == st.owner) tracef("  mutex %p held by p%d f%d %s (%s)", addr, up->pid, up->id, up->name.c_str(), up->st == Fiber::Blocked ? "blocked" : up->st == Fiber::Done ? "done" : "runnable");
    }
}

[[noreturn]] void abort_run(const std::string& why) {
    if (K.stats.fatal.empty()) K.stats.fatal = why;
    if (K.stats.step_limit && !K.aborting) trace_waiters();
    tracef("ABORT RUN: %s", why.c_str());
    K.aborting = true;
    switch_to_root();
}

static bool fiber_ready(Fiber* f) {
    if (f->st == Fiber::Runnable) return true;
    if (f->st != Fiber::Blocked) return false;
    if (K.now >= f->deadline) return true;
    return f->pred && f->pred();
}

// Choose the next fiber to run and switch to it. Returns when the caller is chosen again.
static void dispatch() {
    Fiber* self = K.cur;
    for (;;) {
        if (++K.stats.steps > K.knobs.max_steps) {
            K.stats.step_limit = true;
            abort_run("step limit exceeded (livelock?)");
        }
        heartbeat_tick();
        reap_zombies();
        Fiber* cand[256];
        int n = 0;
        for (auto& up : K.fibers) {
            Fiber* f = up.get();
            if (n < 256 && fiber_ready(f)) cand[n++] = f;
        }
        if (n == 0) {
            std::int64_t t = INT64_MAX;
            for (auto& up : K.fibers)
                if (up->st == Fiber::Blocked && up->deadline < t) t = up->deadline;
            // segments/datagrams queued after a reader parked are not covered by its deadline:
            // the next network delivery is a timer too
            t = std::min(t, net_next_event_time());
            if (t == INT64_MAX) {
                K.stats.deadlock = true;
                std::string g = "deadlock: no runnable fiber and no timer;";
                for (auto& up : K.fibers)
                    if (up->st == Fiber::Blocked) g += " [p" + std::to_string(up->pid) + " " + up->name + "]";
                abort_run(g);
            }
            if (K.knobs.max_sim_ns > 0 && t > K.knobs.max_sim_ns) abort_run("simulated time limit exceeded");
            if (t > K.now) K.now = t;
            continue;
        }
        Fiber* pick = cand[n == 1 ? 0 : K.rng.below(static_cast<std::uint64_t>(n))];
        if (K.sched_decisions < 256) {
            ++K.sched_decisions;
            K.stats.sched_hash = mix64(K.stats.sched_hash, mix64(static_cast<std::uint64_t>(pick->pid) << 16 | static_cast<std::uint64_t>(n),
                                                                 std::hash<std::string>{}(pick->name)));
        }
        hash_event(0x5c4ed, static_cast<std::uint64_t>(pick->id), static_cast<std::uint64_t>(K.now));
        pick->st = Fiber::Runnable;
        pick->pred = nullptr;
        pick->deadline = INT64_MAX;
        if (pick == self) return;
        switch_to(pick);
        if (K.cur == self) return;  // always true after resume
    }
}

void preempt_point() {
    if (!sim()) return;
    unpoison_fiber(K.cur);
    ++K.stats.steps;
    if (K.stats.steps > K.knobs.max_steps) {
        K.stats.step_limit = true;
        abort_run("step limit exceeded (livelock?)");
    }
    if (K.cur && K.cur->points_since_descheduled < (1u << 30)) ++K.cur->points_since_descheduled;
    if (K.knobs.deschedule_per_65536 && K.cur && K.cur->points_since_descheduled >= K.knobs.deschedule_min_gap && K.rng.below(65536) < K.knobs.deschedule_per_65536) {
        // long preemption: the fiber stays runnable in principle but does not get the processor for a while
        Fiber* self = K.cur;
        self->points_since_descheduled = 0;
        ++K.stats.descheduled;
        self->st = Fiber::Blocked;
        self->pred = nullptr;
        self->deadline = K.now + 1 + static_cast<std::int64_t>(K.rng.below(static_cast<std::uint64_t>(K.knobs.deschedule_max_ns)));
        dispatch();
        return;
    }
    if (K.knobs.preempt_per_1024 == 0) return;
    if (K.rng.below(1024) < K.knobs.preempt_per_1024) dispatch();
}

bool block(const std::function<bool()>& pred, std::int64_t deadline_abs) {
    Fiber* self = K.cur;
    unpoison_fiber(self);
    if (pred && pred()) {
        preempt_point();
        return pred();
    }
    self->st = Fiber::Blocked;
    self->pred = pred;
    self->deadline = deadline_abs;
    dispatch();
    return pred ? pred() : false;
}

static void release_mutexes_of_pid(int pid) {
    for (auto& [addr, st] : K.mutexes) {
        if (st.owner == 0) continue;
        for (auto& f : K.fibers)
            if (f->id == st.owner && f->pid == pid) { st.owner = 0; st.depth = 0; break; }
    }
}

// Mark every fiber of pid Done. If the current fiber belongs to pid this does not return.
static void end_process(int pid, ExitKind kind, int code, const std::string& detail) {
    Proc& p = proc(pid);
    if (p.info.exit == ExitKind::Running) {
        p.info.exit = kind;
        p.info.exit_code = code;
        p.info.exit_detail = detail;
        tracef("process %d (%s) ends kind=%d code=%d %s", pid, p.info.name.c_str(), (int)kind, code, detail.c_str());
        hash_event(0xdead, static_cast<std::uint64_t>(pid), static_cast<std::uint64_t>(kind));
    }
    release_mutexes_of_pid(pid);
    net_kill_proc(pid);
    bool self_dies = false;
    for (auto& f : K.fibers) {
        if (f->pid != pid || f->st == Fiber::Done) continue;
        f->st = Fiber::Done;
        f->detached = true;
        f->pred = nullptr;
        unpoison_fiber(f.get());
        if (f.get() == K.cur) self_dies = true;
    }
    if (self_dies) {
        dispatch();
        abort();
    }
}

[[noreturn]] void die_current_process(ExitKind kind, const std::string& detail) {
    end_process(K.cur->pid, kind, 128, detail);
    abort();
}

static std::string describe_exception() {
    try {
        throw;
    } catch (const std::exception& e) {
        return std::string(typeid(e).name()) + ": " + e.what();
    } catch (...) {
        return "non-std exception";
    }
}

static void trampoline(unsigned lo, unsigned hi) {
    Fiber* self = reinterpret_cast<Fiber*>((static_cast<std::uintptr_t>(hi) << 32) | lo);
    if (__sanitizer_finish_switch_fiber) {
        const void* bottom = nullptr;
        size_t size = 0;
        __sanitizer_finish_switch_fiber(nullptr, &bottom, &size);
        if (K.root_stack_bottom == nullptr && self->id == 1) {
            K.root_stack_bottom = bottom;
            K.root_stack_size = size;
        }
    }
    if (__tsan_acquire) __tsan_acquire(&self->sync_create);
    std::string failure;
    bool failed = false;
    try {
        self->fn();
    } catch (...) {
        failed = true;
        failure = describe_exception();
    }
    self->fn = nullptr;
    if (__tsan_release) __tsan_release(&self->sync_exit);
    if (failed) {
        Proc& p = proc(self->pid);
        if (self->proc_main) {
            end_process(self->pid, ExitKind::Exception, 134, failure);
        } else {
            p.info.thread_failures.push_back("uncaught exception in thread '" + self->name + "': " + failure);
            end_process(self->pid, ExitKind::Terminate, 134, "std::terminate: uncaught exception in thread '" + self->name + "': " + failure);
        }
        abort();
    }
    self->st = Fiber::Done;
    tracef("fiber ends");
    if (self->id == 1) {
        // the driver finished: the run is over
        switch_to_root();
    }
    dispatch();
    abort();
}

static Fiber* make_fiber(int pid, const std::string& name, std::function<void()> fn, std::size_t stack_bytes, bool proc_main) {
    KernelQuiet kq__;
    auto f = std::make_unique<Fiber>();
    f->id = K.next_fiber_id++;
    f->pid = pid;
    f->name = name;
    f->fn = std::move(fn);
    f->proc_main = proc_main;
    f->stack_size = stack_bytes;
    f->stack = stack_get(stack_bytes);
    getcontext(&f->ctx);
    f->ctx.uc_stack.ss_sp = f->stack;
    f->ctx.uc_stack.ss_size = stack_bytes;
    f->ctx.uc_link = nullptr;
    const auto p = reinterpret_cast<std::uintptr_t>(f.get());
    makecontext(&f->ctx, reinterpret_cast<void (*)()>(trampoline), 2, static_cast<unsigned>(p & 0xffffffffu), static_cast<unsigned>(p >> 32));
    if (__tsan_create_fiber) f->tsan_fiber = __tsan_create_fiber(0);
    if (__tsan_release) __tsan_release(&f->sync_create);
    ++K.stats.fibers_created;
    Fiber* raw = f.get();
    K.fibers.push_back(std::move(f));
    hash_event(0xf1be, static_cast<std::uint64_t>(raw->id), static_cast<std::uint64_t>(pid));
    return raw;
}

static Fiber* find_fiber(int id) {
    for (auto& f : K.fibers)
        if (f->id == id) return f.get();
    return nullptr;
}

}  // namespace detail

using namespace detail;

Quiet::Quiet() { if (K.cur && K.cur->quiet++ == 0) tsan_quiet_begin(); }
Quiet::~Quiet() { if (K.cur && --K.cur->quiet == 0) tsan_quiet_end(); }

// ------------------------------------------------------------------ public API
void fail_run(const std::string& why) { abort_run("driver: " + why); }
static std::function<void()> g_heartbeat;
void set_heartbeat(std::function<void()> fn) { g_heartbeat = std::move(fn); }
void set_deschedule_after_unlock(std::uint32_t per_65536, std::int64_t max_ns) {
    if (!detail::sim()) return;
    detail::K.knobs.deschedule_after_unlock_per_65536 = per_65536;
    detail::K.knobs.deschedule_min_gap = per_65536 ? 0 : Knobs{}.deschedule_min_gap;
    if (max_ns > 0) detail::K.knobs.deschedule_max_ns = max_ns;
}

void trace_blocked() { if (detail::sim()) detail::trace_waiters(); }
void set_deschedule(std::uint32_t per_65536, std::int64_t max_ns) {
    if (!detail::sim()) return;
    detail::K.knobs.deschedule_per_65536 = per_65536;
    detail::K.knobs.deschedule_min_gap = per_65536 ? 0 : Knobs{}.deschedule_min_gap;
    if (max_ns > 0) detail::K.knobs.deschedule_max_ns = max_ns;
}
namespace detail { void heartbeat_tick() { if ((K.stats.steps & 0x3fff) == 0 && g_heartbeat) g_heartbeat(); } }
bool in_sim() { return sim(); }
Knobs& knobs() { return K.knobs; }
Rng& rng() { return K.rng; }
Rng& plan_rng() { return K.plan_rng; }
RunStats& stats() { return K.stats; }

static std::string g_scratch_root;
void set_scratch_root(const std::string& dir) { g_scratch_root = dir; }
std::string scratch_dir() { return K.scratch; }

static int rm_cb(const char* path, const struct stat*, int flag, struct FTW*) {
    if (flag == FTW_DP || flag == FTW_D) syscall(SYS_rmdir, path);
    else syscall(SYS_unlink, path);
    return 0;
}
static void rm_rf(const std::string& path) {
    struct stat st;
    if (lstat(path.c_str(), &st) != 0) return;
    nftw(path.c_str(), rm_cb, 16, FTW_DEPTH | FTW_PHYS);
}

RunStats run(std::uint64_t seed, const Knobs& knobs, const std::function<void()>& driver) {
    __libc_single_threaded = 0;
    K.active = true;
    K.knobs = knobs;
    K.rng.reseed(mix64(seed, 0x5c4ed));
    K.plan_rng.reseed(mix64(seed, 0x91a4));
    K.entropy.reseed(mix64(seed, 0xe47709));
    K.stats = RunStats{};
    K.now = 0;
    K.jitter_accum = 0;
    K.fibers.clear();
    K.procs.clear();
    K.mutexes.clear();
    K.next_fiber_id = 1;
    K.aborting = false;
    K.sched_decisions = 0;
    K.trace.clear();
    K.root_stack_bottom = nullptr;
    K.root_stack_size = 0;
    net_reset_all();
    fs_reset_all();
    if (g_scratch_root.empty()) {
        const char* env = getenv("VERIF_SCRATCH");
        g_scratch_root = env ? env : "/dev/shm";
    }
    K.scratch_root = g_scratch_root;
    K.scratch = g_scratch_root + "/sk." + std::to_string(getpid());
    rm_rf(K.scratch);
    syscall(SYS_mkdir, K.scratch.c_str(), 0700);

    auto p0 = std::make_unique<Proc>();
    p0->info.pid = 0;
    p0->info.name = "driver";
    p0->info.host = ip(10, 0, 0, 1);
    p0->sigpipe_ignored = true;
    K.procs.push_back(std::move(p0));

    if (__tsan_get_current_fiber) K.root_tsan = __tsan_get_current_fiber();
    Fiber* d = make_fiber(0, "driver", driver, 8u << 20, true);

    volatile bool entered = false;
    save_eh(K.root_eh);
    getcontext(&K.root_ctx);
    if (!entered) {
        entered = true;
        if (__sanitizer_start_switch_fiber) __sanitizer_start_switch_fiber(&K.root_asan_fake, d->stack, d->stack_size);
        if (__tsan_switch_to_fiber && d->tsan_fiber) __tsan_switch_to_fiber(d->tsan_fiber, 1u);
        K.cur = d;
        load_eh(d->eh);
        setcontext(&d->ctx);
        abort();
    }
    // back on the root stack: the run is over
    if (__sanitizer_finish_switch_fiber) __sanitizer_finish_switch_fiber(K.root_asan_fake, nullptr, nullptr);
    K.cur = nullptr;
    K.stats.sim_ns = K.now;
    // abandon everything that is left
    tsan_quiet_begin();
    for (auto& f : K.fibers) {
        unpoison_fiber(f.get());
        if (f->stack) stack_put(f->stack, f->stack_size);
        f->stack = nullptr;
        if (f->tsan_fiber && __tsan_destroy_fiber) __tsan_destroy_fiber(f->tsan_fiber);
        // NOTE: f->fn / f->pred may own captured state; destroying them is safe (plain closures)
    }
    K.fibers.clear();
    K.mutexes.clear();
    net_reset_all();
    fs_reset_all();
    tsan_quiet_end();
    K.active = false;
    rm_rf(K.scratch);
    return K.stats;
}

int spawn(const std::string& name, std::uint32_t host, std::function<int()> main_fn, std::size_t stack_bytes) {
    auto p = std::make_unique<Proc>();
    const int pid = static_cast<int>(K.procs.size());
    p->info.pid = pid;
    p->info.name = name;
    p->info.host = host;
    K.procs.push_back(std::move(p));
    make_fiber(pid, name + ".main",
               [pid, fn = std::move(main_fn)]() {
                   const int code = fn();
                   // process main returned: like exit(): remaining threads die
                   Proc& pr = proc(pid);
                   pr.info.exit = ExitKind::Returned;
                   pr.info.exit_code = code;
                   hash_event(0xe817, static_cast<std::uint64_t>(pid), static_cast<std::uint64_t>(code));
                   tracef("process main returned %d", code);
                   release_mutexes_of_pid(pid);
                   net_kill_proc(pid);
                   for (auto& f : K.fibers)
                       if (f->pid == pid && f.get() != K.cur && f->st != Fiber::Done) {
                           f->st = Fiber::Done;
                           f->detached = true;
                           f->pred = nullptr;
                       }
                   K.cur->detached = true;
               },
               stack_bytes, true);
    return pid;
}

void go(const std::string& name, std::function<void()> fn, std::size_t stack_bytes) {
    Fiber* f = make_fiber(K.cur->pid, name, std::move(fn), stack_bytes, false);
    f->detached = true;
}

void kill(int pid) {
    ++K.stats.crashes;
    end_process(pid, ExitKind::Killed, 137, "killed by driver");
}

bool alive(int pid) { return proc(pid).info.exit == ExitKind::Running; }
ProcInfo info(int pid) { return proc(pid).info; }
int current_pid() { return K.cur ? K.cur->pid : 0; }
std::vector<ProcInfo> all_procs() {
    std::vector<ProcInfo> v;
    for (auto& p : K.procs) v.push_back(p->info);
    return v;
}
void set_wall_offset(int pid, std::int64_t ns) {
    proc(pid).wall_offset = ns;
    ++K.stats.clock_steps;
}
int live_fibers(int pid) {
    int n = 0;
    for (auto& f : K.fibers)
        if (f->pid == pid && f->st != Fiber::Done) ++n;
    return n;
}

bool wait_exit(int pid, std::int64_t timeout_ns) {
    return block([pid] { return proc(pid).info.exit != ExitKind::Running; }, K.now + timeout_ns);
}

std::int64_t now_ns() { return K.now; }
void sleep_ns(std::int64_t ns) {
    if (ns <= 0) { preempt_point(); return; }
    block(nullptr, K.now + ns);
}
void yield() {
    if (!sim()) return;
    K.cur->st = Fiber::Runnable;
    dispatch();
}
bool wait_until(const std::function<bool()>& pred, std::int64_t timeout_ns) {
    return block(pred, timeout_ns >= INT64_MAX - K.now ? INT64_MAX : K.now + timeout_ns);
}

std::int64_t steady_raw_ns() { return kSteadyEpochNs + K.now; }
std::int64_t wall_raw_ns(int pid) { return kWallEpochNs + K.now + proc(pid).wall_offset; }

void note(const char* what, std::uint64_t a, std::uint64_t b) {
    hash_event(std::hash<std::string>{}(what), a, b);
    tracef("%s %llu %llu", what, (unsigned long long)a, (unsigned long long)b);
}
void trace(const std::string& line) { tracef("%s", line.c_str()); }
std::vector<std::string> trace_tail(std::size_t n) {
    std::vector<std::string> v;
    const std::size_t start = K.trace.size() > n ? K.trace.size() - n : 0;
    for (std::size_t i = start; i < K.trace.size(); ++i) v.push_back(K.trace[i]);
    return v;
}

void random_bytes(void* p, std::size_t n) {
    auto* b = static_cast<std::uint8_t*>(p);
    for (std::size_t i = 0; i < n; ++i) b[i] = static_cast<std::uint8_t>(K.entropy.next() >> 24);
}

}  // namespace sk

// ====================================================================== interposition
using namespace sk;
using namespace sk::detail;

static std::int64_t clock_tick() {
    if (K.knobs.clock_jitter) {
        K.now += 1 + static_cast<std::int64_t>(K.rng.below(K.knobs.jitter_ns ? K.knobs.jitter_ns : 1));
    }
    return K.now;
}

static void real_clock_gettime(clockid_t id, struct timespec* ts) { syscall(SYS_clock_gettime, id, ts); }

namespace std { namespace chrono { inline namespace _V2 {
steady_clock::time_point steady_clock::now() noexcept {
    if (sim()) return time_point(duration(kSteadyEpochNs + clock_tick()));
    struct timespec ts;
    real_clock_gettime(CLOCK_MONOTONIC, &ts);
    return time_point(duration(static_cast<std::int64_t>(ts.tv_sec) * 1000000000LL + ts.tv_nsec));
}
system_clock::time_point system_clock::now() noexcept {
    if (sim()) return time_point(duration(kWallEpochNs + clock_tick() + cur_proc().wall_offset));
    struct timespec ts;
    real_clock_gettime(CLOCK_REALTIME, &ts);
    return time_point(duration(static_cast<std::int64_t>(ts.tv_sec) * 1000000000LL + ts.tv_nsec));
}
}}}  // namespace std::chrono::_V2

extern "C" {

int clock_gettime(clockid_t id, struct timespec* ts) {
    if (!sim()) { real_clock_gettime(id, ts); return 0; }
    std::int64_t t = (id == CLOCK_REALTIME || id == CLOCK_REALTIME_COARSE) ? kWallEpochNs + K.now + cur_proc().wall_offset
                                                                             : kSteadyEpochNs + K.now;
    ts->tv_sec = t / 1000000000LL;
    ts->tv_nsec = t % 1000000000LL;
    return 0;
}
int gettimeofday(struct timeval* tv, void*) {
    struct timespec ts;
    clock_gettime(CLOCK_REALTIME, &ts);
    if (tv) { tv->tv_sec = ts.tv_sec; tv->tv_usec = ts.tv_nsec / 1000; }
    return 0;
}
time_t time(time_t* out) {
    struct timespec ts;
    clock_gettime(CLOCK_REALTIME, &ts);
    if (out) *out = ts.tv_sec;
    return ts.tv_sec;
}

int nanosleep(const struct timespec* req, struct timespec* rem) {
    if (!sim()) {
        return static_cast<int>(syscall(SYS_nanosleep, req, rem));
    }
    const std::int64_t ns = static_cast<std::int64_t>(req->tv_sec) * 1000000000LL + req->tv_nsec;
    tracef("nanosleep %lld", (long long)ns);
    sleep_ns(ns);
    if (rem) { rem->tv_sec = 0; rem->tv_nsec = 0; }
    return 0;
}
int clock_nanosleep(clockid_t, int flags, const struct timespec* req, struct timespec* rem) {
    if (!sim()) return static_cast<int>(syscall(SYS_clock_nanosleep, CLOCK_MONOTONIC, flags, req, rem));
    std::int64_t ns = static_cast<std::int64_t>(req->tv_sec) * 1000000000LL + req->tv_nsec;
    if (flags & TIMER_ABSTIME) ns -= (kSteadyEpochNs + K.now);
    sleep_ns(ns);
    return 0;
}
int usleep(useconds_t us) {
    struct timespec ts{static_cast<time_t>(us / 1000000), static_cast<long>((us % 1000000) * 1000)};
    return nanosleep(&ts, nullptr);
}
unsigned int sleep(unsigned int s) {
    struct timespec ts{static_cast<time_t>(s), 0};
    nanosleep(&ts, nullptr);
    return 0;
}
int sched_yield(void) {
    if (sim()) sk::yield();
    return 0;
}

// ---- threads
static int (*real_pthread_create)(pthread_t*, const pthread_attr_t*, void* (*)(void*), void*);
static int (*real_pthread_join)(pthread_t, void**);
static int (*real_pthread_detach)(pthread_t);

int pthread_create(pthread_t* th, const pthread_attr_t* attr, void* (*start)(void*), void* arg) {
    if (!sim()) {
        if (!real_pthread_create) real_pthread_create = reinterpret_cast<decltype(real_pthread_create)>(dlsym(RTLD_NEXT, "pthread_create"));
        return real_pthread_create(th, attr, start, arg);
    }
    static int thread_seq = 0;
    (void)thread_seq;
    Fiber* self = K.cur;
    int nth = 0;
    for (auto& f : K.fibers) if (f->pid == self->pid) ++nth;
    Fiber* f = nullptr;
    Fiber** slot = new Fiber*(nullptr);
    f = make_fiber(self->pid, proc(self->pid).info.name + ".t" + std::to_string(nth),
                   [start, arg, slot]() {
                       Fiber* me = *slot;
                       delete slot;
                       me->retval = start(arg);
                   },
                   2u << 20, false);
    *slot = f;
    *th = static_cast<pthread_t>(0x7f1be0000000ULL + static_cast<unsigned long>(f->id));
    tracef("pthread_create -> fiber %d", f->id);
    preempt_point();
    return 0;
}

static Fiber* fiber_of_handle(pthread_t th) {
    const unsigned long v = static_cast<unsigned long>(th);
    if (v < 0x7f1be0000000ULL || v >= 0x7f1be0000000ULL + (1ul << 24)) return nullptr;
    return find_fiber(static_cast<int>(v - 0x7f1be0000000ULL));
}

int pthread_join(pthread_t th, void** ret) {
    if (!sim()) {
        if (!real_pthread_join) real_pthread_join = reinterpret_cast<decltype(real_pthread_join)>(dlsym(RTLD_NEXT, "pthread_join"));
        return real_pthread_join(th, ret);
    }
    const int id = static_cast<int>(static_cast<unsigned long>(th) - 0x7f1be0000000ULL);
    Fiber* f = find_fiber(id);
    if (!f) return ESRCH;
    tracef("pthread_join fiber %d", id);
    block([id] { Fiber* t = find_fiber(id); return t == nullptr || t->st == Fiber::Done; }, INT64_MAX);
    f = find_fiber(id);
    if (f) {
        if (__tsan_acquire) __tsan_acquire(&f->sync_exit);
        if (ret) *ret = f->retval;
        f->detached = true;  // reapable now
    }
    return 0;
}

int pthread_detach(pthread_t th) {
    if (!sim()) {
        if (!real_pthread_detach) real_pthread_detach = reinterpret_cast<decltype(real_pthread_detach)>(dlsym(RTLD_NEXT, "pthread_detach"));
        return real_pthread_detach(th);
    }
    Fiber* f = fiber_of_handle(th);
    if (f) f->detached = true;
    return 0;
}

// ---- mutexes (modelled; the real object is never locked while simulating)
static int (*real_mutex_lock)(pthread_mutex_t*);
static int (*real_mutex_trylock)(pthread_mutex_t*);
static int (*real_mutex_unlock)(pthread_mutex_t*);

static bool mutex_is_recursive(pthread_mutex_t* m) { return (m->__data.__kind & 127) == PTHREAD_MUTEX_RECURSIVE_NP; }

int pthread_mutex_lock(pthread_mutex_t* m) {
    if (!sim()) {
        if (!real_mutex_lock) real_mutex_lock = reinterpret_cast<decltype(real_mutex_lock)>(dlsym(RTLD_NEXT, "pthread_mutex_lock"));
        return real_mutex_lock(m);
    }
    preempt_point();
    const int me = K.cur->id;
    for (;;) {
        MutexState& st = K.mutexes[m];
        if (st.owner == 0) { st.owner = me; st.depth = 1; break; }
        if (st.owner == me) {
            if (mutex_is_recursive(m)) { ++st.depth; break; }
            abort_run("self-deadlock: fiber '" + K.cur->name + "' relocks a non-recursive mutex it already owns");
        }
        block([m] { auto it = K.mutexes.find(m); return it == K.mutexes.end() || it->second.owner == 0; }, INT64_MAX);
    }
    if (__tsan_acquire) __tsan_acquire(m);
    return 0;
}

int pthread_mutex_trylock(pthread_mutex_t* m) {
    if (!sim()) {
        if (!real_mutex_trylock) real_mutex_trylock = reinterpret_cast<decltype(real_mutex_trylock)>(dlsym(RTLD_NEXT, "pthread_mutex_trylock"));
        return real_mutex_trylock(m);
    }
    preempt_point();
    const int me = K.cur->id;
    MutexState& st = K.mutexes[m];
    if (st.owner == 0) { st.owner = me; st.depth = 1; }
    else if (st.owner == me && mutex_is_recursive(m)) { ++st.depth; }
    else return EBUSY;
    if (__tsan_acquire) __tsan_acquire(m);
    return 0;
}

int pthread_mutex_unlock(pthread_mutex_t* m) {
    if (!sim()) {
        if (!real_mutex_unlock) real_mutex_unlock = reinterpret_cast<decltype(real_mutex_unlock)>(dlsym(RTLD_NEXT, "pthread_mutex_unlock"));
        return real_mutex_unlock(m);
    }
    auto it = K.mutexes.find(m);
    if (it == K.mutexes.end() || it->second.owner != K.cur->id) {
        // unlocking a mutex locked before the simulation began or by a dead owner: ignore
        return 0;
    }
    if (__tsan_release) __tsan_release(m);
    bool released = false;
    if (--it->second.depth <= 0) { K.mutexes.erase(it); released = true; }
    if (released && K.knobs.deschedule_after_unlock_per_65536 && K.cur && K.cur->points_since_descheduled >= K.knobs.deschedule_min_gap && K.rng.below(65536) < K.knobs.deschedule_after_unlock_per_65536) {
        Fiber* self = K.cur;
        self->points_since_descheduled = 0;
        unpoison_fiber(self);
        ++K.stats.descheduled_after_unlock;
        self->st = Fiber::Blocked;
        self->pred = nullptr;
        self->deadline = K.now + 1 + static_cast<std::int64_t>(K.rng.below(static_cast<std::uint64_t>(K.knobs.deschedule_max_ns)));
        dispatch();
        return 0;
    }
    preempt_point();
    return 0;
}

// ---- condition variables: a generation counter per condvar; a wait releases the mutex, parks until the generation moves
// (or the deadline passes) and takes the mutex again. signal wakes every waiter (spurious wake-ups are allowed by POSIX).
static std::map<void*, std::uint64_t>& cond_gens() { static std::map<void*, std::uint64_t> m; return m; }
static int sim_cond_wait(pthread_cond_t* c, pthread_mutex_t* m, std::int64_t deadline_sim) {
    const std::uint64_t g0 = cond_gens()[c];
    pthread_mutex_unlock(m);
    block([c, g0] { return cond_gens()[c] != g0; }, deadline_sim);
    const bool woken = cond_gens()[c] != g0;
    pthread_mutex_lock(m);
    return woken ? 0 : ETIMEDOUT;
}
static std::int64_t sim_deadline(clockid_t id, const struct timespec* ts) {
    const std::int64_t t = static_cast<std::int64_t>(ts->tv_sec) * 1000000000LL + ts->tv_nsec;
    return (id == CLOCK_REALTIME || id == CLOCK_REALTIME_COARSE) ? t - kWallEpochNs - cur_proc().wall_offset : t - kSteadyEpochNs;
}
int pthread_cond_wait(pthread_cond_t* c, pthread_mutex_t* m) {
    if (!sim()) { static auto real = reinterpret_cast<int (*)(pthread_cond_t*, pthread_mutex_t*)>(dlsym(RTLD_NEXT, "pthread_cond_wait")); return real(c, m); }
    return sim_cond_wait(c, m, INT64_MAX) == ETIMEDOUT ? 0 : 0;
}
int pthread_cond_timedwait(pthread_cond_t* c, pthread_mutex_t* m, const struct timespec* ts) {
    if (!sim()) { static auto real = reinterpret_cast<int (*)(pthread_cond_t*, pthread_mutex_t*, const struct timespec*)>(dlsym(RTLD_NEXT, "pthread_cond_timedwait")); return real(c, m, ts); }
    return sim_cond_wait(c, m, sim_deadline(CLOCK_REALTIME, ts));
}
int pthread_cond_clockwait(pthread_cond_t* c, pthread_mutex_t* m, clockid_t id, const struct timespec* ts) {
    if (!sim()) { static auto real = reinterpret_cast<int (*)(pthread_cond_t*, pthread_mutex_t*, clockid_t, const struct timespec*)>(dlsym(RTLD_NEXT, "pthread_cond_clockwait")); return real(c, m, id, ts); }
    return sim_cond_wait(c, m, sim_deadline(id, ts));
}
int pthread_cond_signal(pthread_cond_t* c) {
    if (!sim()) { static auto real = reinterpret_cast<int (*)(pthread_cond_t*)>(dlsym(RTLD_NEXT, "pthread_cond_signal")); return real(c); }
    ++cond_gens()[c];
    preempt_point();
    return 0;
}
int pthread_cond_broadcast(pthread_cond_t* c) {
    if (!sim()) { static auto real = reinterpret_cast<int (*)(pthread_cond_t*)>(dlsym(RTLD_NEXT, "pthread_cond_broadcast")); return real(c); }
    ++cond_gens()[c];
    preempt_point();
    return 0;
}
int pthread_cond_destroy(pthread_cond_t* c) {
    if (!sim()) { static auto real = reinterpret_cast<int (*)(pthread_cond_t*)>(dlsym(RTLD_NEXT, "pthread_cond_destroy")); return real(c); }
    cond_gens().erase(c);
    return 0;
}

// ---- signals: record dispositions per simulated process; never touch the real ones in-sim
typedef void (*sk_sighandler_t)(int);
static sk_sighandler_t (*real_signal)(int, sk_sighandler_t);
static int (*real_sigaction)(int, const struct sigaction*, struct sigaction*);

sk_sighandler_t signal(int sig, sk_sighandler_t h) {
    if (!sim()) {
        if (!real_signal) real_signal = reinterpret_cast<decltype(real_signal)>(dlsym(RTLD_NEXT, "signal"));
        return real_signal(sig, h);
    }
    Proc& p = cur_proc();
    sk_sighandler_t old = p.handlers.count(sig) ? p.handlers[sig] : SIG_DFL;
    p.handlers[sig] = h;
    if (sig == SIGPIPE) p.sigpipe_ignored = (h == SIG_IGN);
    tracef("signal(%d) handler set", sig);
    return old;
}
int sigaction(int sig, const struct sigaction* act, struct sigaction* old) {
    if (!sim()) {
        if (!real_sigaction) real_sigaction = reinterpret_cast<decltype(real_sigaction)>(dlsym(RTLD_NEXT, "sigaction"));
        return real_sigaction(sig, act, old);
    }
    Proc& p = cur_proc();
    if (old) { memset(old, 0, sizeof *old); old->sa_handler = p.handlers.count(sig) ? p.handlers[sig] : SIG_DFL; }
    if (act) {
        p.handlers[sig] = act->sa_handler;
        if (sig == SIGPIPE) p.sigpipe_ignored = (act->sa_handler == SIG_IGN);
    }
    return 0;
}

}  // extern "C"

namespace sk {
// deliver a signal to a simulated process: runs its handler on a fresh fiber of that process
bool deliver_signal(int pid, int sig) {
    Proc& p = proc(pid);
    if (p.info.exit != ExitKind::Running) return false;
    auto it = p.handlers.find(sig);
    if (it == p.handlers.end() || it->second == SIG_DFL) {
        ++K.stats.crashes;
        end_process(pid, ExitKind::Killed, 128 + sig, "signal " + std::to_string(sig));
        return true;
    }
    if (it->second == SIG_IGN) return true;
    auto h = it->second;
    Fiber* f = make_fiber(pid, p.info.name + ".sig" + std::to_string(sig), [h, sig] { h(sig); }, 1u << 20, false);
    f->detached = true;
    return true;
}
}  // namespace sk

// ---- entropy: std::random_device draws from the run's entropy stream
namespace std {
void random_device::_M_init(const std::string&) { _M_file = nullptr; _M_func = nullptr; _M_fd = -1; }
void random_device::_M_init_pretr1(const std::string&) { _M_file = nullptr; _M_func = nullptr; _M_fd = -1; }
void random_device::_M_fini() {}
random_device::result_type random_device::_M_getval() {
    if (sim() || K.active) return static_cast<result_type>(K.entropy.next() >> 16);
    // outside a run: still deterministic-free; use getrandom
    result_type v = 0;
    if (syscall(SYS_getrandom, &v, sizeof v, 0) != sizeof v) v = 0x9e3779b9u;
    return v;
}
random_device::result_type random_device::_M_getval_pretr1() { return _M_getval(); }
double random_device::_M_getentropy() const noexcept { return 32.0; }
}  // namespace std
