// simkernel file seam: observes, fault-injects and crash-freezes file mutations made by
// simulated processes under the run's scratch directory. Data lives in real files.
#include "sk_internal.hpp"

#include <dlfcn.h>
#include <errno.h>
#include <fcntl.h>
#include <stdarg.h>
#include <stdio.h>
#include <string.h>
#include <sys/stat.h>
#include <sys/syscall.h>
#include <sys/uio.h>
#include <unistd.h>

namespace sk::detail {

void fs_reset_all() {
    K.fs_log_on = false;
    K.fs_log.clear();
    K.file_fds.clear();
}

static bool tracked(const char* path) {
    if (!K.active || !path || K.scratch.empty()) return false;
    return strncmp(path, K.scratch.c_str(), K.scratch.size()) == 0;
}

static int cur_pid() { return K.cur ? K.cur->pid : 0; }

static void log_op(const char* kind, const std::string& path, std::int64_t off, std::int64_t len, int result, bool zero = false) {
    hash_event(std::hash<std::string>{}(kind), static_cast<std::uint64_t>(len), static_cast<std::uint64_t>(result));
    if (K.knobs.trace) tracef("fs %s %s off=%lld len=%lld -> %d", kind, path.c_str() + std::min(path.size(), K.scratch.size()), (long long)off, (long long)len, result);
    if (!K.fs_log_on) return;
    FileOp op;
    op.pid = cur_pid();
    op.kind = kind;
    op.path = path;
    op.off = off;
    op.len = len;
    op.result = result;
    op.all_zero = zero;
    K.fs_log.push_back(std::move(op));
}

// decide the fate of a mutating call: 0 = proceed, >0 = fail with that errno (nothing done).
// *short_to (if not null) receives a byte limit for a short write, or -1.
static int gate(std::int64_t* short_to) {
    if (short_to) *short_to = -1;
    if (!sim()) return 0;
    Proc& p = cur_proc();
    const int idx = p.fs_mut++;
    ++K.stats.file_ops;
    if (p.fs_frozen || (p.fs_freeze_k >= 0 && idx >= p.fs_freeze_k)) {
        p.fs_frozen = true;
        return EIO;
    }
    if (p.fs_fault_k >= 0 && idx == p.fs_fault_k) {
        p.fs_fault_k = -1;
        ++K.stats.file_faults;
        if (p.fs_fault_short >= 0 && short_to) { *short_to = p.fs_fault_short; return 0; }
        return p.fs_fault_err ? p.fs_fault_err : EIO;
    }
    return 0;
}

static bool mode_mutates(const char* mode) {
    return mode && (strchr(mode, 'w') || strchr(mode, 'a'));
}

}  // namespace sk::detail

namespace sk {
using namespace detail;
void fs_log_enable(bool on) { K.fs_log_on = on; }
std::vector<FileOp>& fs_log() { return K.fs_log; }
void fs_fault_at(int pid, int k, int err, std::int64_t short_to) {
    Proc& p = proc(pid);
    p.fs_fault_k = p.fs_mut + k;
    p.fs_fault_err = err;
    p.fs_fault_short = short_to;
}
void fs_freeze_at(int pid, int k) {
    Proc& p = proc(pid);
    if (k < 0) { p.fs_freeze_k = -1; p.fs_frozen = false; return; }
    p.fs_freeze_k = p.fs_mut + k;
    p.fs_frozen = false;
}
bool fs_frozen(int pid) { return proc(pid).fs_frozen; }
int fs_mutations(int pid) { return proc(pid).fs_mut; }
void fs_reset_counters(int pid) { Proc& p = proc(pid); p.fs_mut = 0; p.fs_fault_k = -1; p.fs_freeze_k = -1; p.fs_frozen = false; }
}  // namespace sk

using namespace sk;
using namespace sk::detail;

static bool buf_all_zero(const void* b, size_t n) {
    const auto* p = static_cast<const unsigned char*>(b);
    for (size_t i = 0; i < n; ++i) if (p[i]) return false;
    return true;
}

extern "C" {

ssize_t sk_fs_write(int fd, const void* buf, size_t len) {
    if (K.active) {
        auto it = K.file_fds.find(fd);
        if (it != K.file_fds.end()) {
            std::int64_t short_to = -1;
            const int e = gate(&short_to);
            const std::int64_t off = syscall(SYS_lseek, fd, 0, SEEK_CUR);
            if (e) { log_op("write", it->second, off, static_cast<std::int64_t>(len), e, buf_all_zero(buf, len)); errno = e; return -1; }
            size_t n = len;
            if (short_to >= 0 && static_cast<size_t>(short_to) < n) n = static_cast<size_t>(short_to);
            if (n == 0 && len > 0) { log_op("write", it->second, off, 0, ENOSPC, buf_all_zero(buf, len)); errno = ENOSPC; return -1; }
            const long r = syscall(SYS_write, fd, buf, n);
            log_op("write", it->second, off, r, r < 0 ? errno : 0, r > 0 && buf_all_zero(buf, static_cast<size_t>(r)));
            return r;
        }
    }
    return syscall(SYS_write, fd, buf, len);
}

ssize_t sk_fs_read(int fd, void* buf, size_t len) { return syscall(SYS_read, fd, buf, len); }

ssize_t writev(int fd, const struct iovec* iov, int cnt) {
    if (K.active && is_sim_fd(fd)) {
        ssize_t total = 0;
        for (int i = 0; i < cnt; ++i) {
            const ssize_t r = write(fd, iov[i].iov_base, iov[i].iov_len);
            if (r < 0) return total ? total : -1;
            total += r;
            if (static_cast<size_t>(r) < iov[i].iov_len) break;
        }
        return total;
    }
    if (K.active) {
        auto it = K.file_fds.find(fd);
        if (it != K.file_fds.end()) {
            std::int64_t short_to = -1;
            const int e = gate(&short_to);
            const std::int64_t off = syscall(SYS_lseek, fd, 0, SEEK_CUR);
            size_t len = 0;
            bool zero = true;
            for (int i = 0; i < cnt; ++i) { len += iov[i].iov_len; zero = zero && buf_all_zero(iov[i].iov_base, iov[i].iov_len); }
            if (e) { log_op("write", it->second, off, static_cast<std::int64_t>(len), e, zero); errno = e; return -1; }
            if (short_to >= 0 && static_cast<size_t>(short_to) < len) {
                // short write: emit a prefix only
                size_t left = static_cast<size_t>(short_to);
                if (left == 0) { log_op("write", it->second, off, 0, ENOSPC, zero); errno = ENOSPC; return -1; }
                ssize_t total = 0;
                for (int i = 0; i < cnt && left > 0; ++i) {
                    const size_t n = std::min(left, iov[i].iov_len);
                    if (n == 0) continue;
                    const long r = syscall(SYS_write, fd, iov[i].iov_base, n);
                    if (r <= 0) break;
                    total += r;
                    left -= static_cast<size_t>(r);
                }
                log_op("write", it->second, off, total, 0, zero);
                return total;
            }
            const long r = syscall(SYS_writev, fd, iov, cnt);
            log_op("write", it->second, off, r, r < 0 ? errno : 0, zero);
            return r;
        }
    }
    return syscall(SYS_writev, fd, iov, cnt);
}

static FILE* (*real_fopen)(const char*, const char*);
static int (*real_fclose)(FILE*);

static FILE* do_fopen(const char* path, const char* mode) {
    if (!real_fopen) real_fopen = reinterpret_cast<decltype(real_fopen)>(dlsym(RTLD_NEXT, "fopen64"));
    if (!tracked(path)) return real_fopen(path, mode);
    const bool mut = mode_mutates(mode);
    if (mut) {
        const int e = gate(nullptr);
        if (e) { log_op("open_w", path, 0, 0, e); errno = e; return nullptr; }
    }
    FILE* f = real_fopen(path, mode);
    const bool rw = mode && strchr(mode, '+');
    log_op(mut ? "open_w" : (rw ? "open_rw" : "open_r"), path, 0, 0, f ? 0 : errno);
    if (f) K.file_fds[fileno(f)] = path;
    return f;
}
FILE* fopen(const char* path, const char* mode) { return do_fopen(path, mode); }
FILE* fopen64(const char* path, const char* mode) { return do_fopen(path, mode); }

int fclose(FILE* f) {
    if (!real_fclose) real_fclose = reinterpret_cast<decltype(real_fclose)>(dlsym(RTLD_NEXT, "fclose"));
    if (K.active && f) {
        const int fd = fileno(f);
        auto it = K.file_fds.find(fd);
        if (it != K.file_fds.end()) {
            log_op("close", it->second, 0, 0, 0);
            K.file_fds.erase(it);
        }
    }
    return real_fclose(f);
}

static int do_open(const char* path, int flags, mode_t mode) {
    if (!tracked(path)) return static_cast<int>(syscall(SYS_openat, AT_FDCWD, path, flags, mode));
    const bool mut = (flags & (O_CREAT | O_TRUNC)) || ((flags & O_ACCMODE) != O_RDONLY);
    if (mut) {
        const int e = gate(nullptr);
        if (e) { log_op("open_w", path, 0, 0, e); errno = e; return -1; }
    }
    const int fd = static_cast<int>(syscall(SYS_openat, AT_FDCWD, path, flags, mode));
    log_op(mut ? "open_w" : "open_r", path, 0, 0, fd < 0 ? errno : 0);
    if (fd >= 0) K.file_fds[fd] = path;
    return fd;
}
int open(const char* path, int flags, ...) {
    mode_t mode = 0;
    if (flags & (O_CREAT | O_TMPFILE)) { va_list ap; va_start(ap, flags); mode = va_arg(ap, mode_t); va_end(ap); }
    return do_open(path, flags, mode);
}
int open64(const char* path, int flags, ...) {
    mode_t mode = 0;
    if (flags & (O_CREAT | O_TMPFILE)) { va_list ap; va_start(ap, flags); mode = va_arg(ap, mode_t); va_end(ap); }
    return do_open(path, flags | O_LARGEFILE, mode);
}

int unlink(const char* path) {
    if (tracked(path)) {
        const int e = gate(nullptr);
        if (e) { log_op("unlink", path, 0, 0, e); errno = e; return -1; }
        const int r = static_cast<int>(syscall(SYS_unlink, path));
        log_op("unlink", path, 0, 0, r < 0 ? errno : 0);
        return r;
    }
    return static_cast<int>(syscall(SYS_unlink, path));
}
int rmdir(const char* path) {
    if (tracked(path)) {
        const int e = gate(nullptr);
        if (e) { log_op("rmdir", path, 0, 0, e); errno = e; return -1; }
        const int r = static_cast<int>(syscall(SYS_rmdir, path));
        log_op("rmdir", path, 0, 0, r < 0 ? errno : 0);
        return r;
    }
    return static_cast<int>(syscall(SYS_rmdir, path));
}
int remove(const char* path) {
    if (tracked(path)) {
        const int e = gate(nullptr);
        if (e) { log_op("unlink", path, 0, 0, e); errno = e; return -1; }
        int r = static_cast<int>(syscall(SYS_unlink, path));
        if (r < 0 && errno == EISDIR) r = static_cast<int>(syscall(SYS_rmdir, path));
        log_op("unlink", path, 0, 0, r < 0 ? errno : 0);
        return r;
    }
    int r = static_cast<int>(syscall(SYS_unlink, path));
    if (r < 0 && errno == EISDIR) r = static_cast<int>(syscall(SYS_rmdir, path));
    return r;
}
int rename(const char* from, const char* to) {
    if (tracked(from) || tracked(to)) {
        const int e = gate(nullptr);
        if (e) { log_op("rename", std::string(from) + " -> " + to, 0, 0, e); errno = e; return -1; }
        const int r = static_cast<int>(syscall(SYS_rename, from, to));
        log_op("rename", std::string(from) + " -> " + to, 0, 0, r < 0 ? errno : 0);
        return r;
    }
    return static_cast<int>(syscall(SYS_rename, from, to));
}
int mkdir(const char* path, mode_t mode) {
    if (tracked(path) && sim()) {
        const int e = gate(nullptr);
        if (e) { log_op("mkdir", path, 0, 0, e); errno = e; return -1; }
        const int r = static_cast<int>(syscall(SYS_mkdir, path, mode));
        log_op("mkdir", path, 0, 0, r < 0 ? errno : 0);
        return r;
    }
    return static_cast<int>(syscall(SYS_mkdir, path, mode));
}
int ftruncate(int fd, off_t len) {
    if (K.active) {
        auto it = K.file_fds.find(fd);
        if (it != K.file_fds.end()) {
            const int e = gate(nullptr);
            if (e) { log_op("truncate", it->second, 0, len, e); errno = e; return -1; }
            const int r = static_cast<int>(syscall(SYS_ftruncate, fd, len));
            log_op("truncate", it->second, 0, len, r < 0 ? errno : 0);
            return r;
        }
    }
    return static_cast<int>(syscall(SYS_ftruncate, fd, len));
}
int ftruncate64(int fd, off_t len) { return ftruncate(fd, len); }
int truncate(const char* path, off_t len) {
    if (tracked(path)) {
        const int e = gate(nullptr);
        if (e) { log_op("truncate", path, 0, len, e); errno = e; return -1; }
        const int r = static_cast<int>(syscall(SYS_truncate, path, len));
        log_op("truncate", path, 0, len, r < 0 ? errno : 0);
        return r;
    }
    return static_cast<int>(syscall(SYS_truncate, path, len));
}
int truncate64(const char* path, off_t len) { return truncate(path, len); }

}  // extern "C"
